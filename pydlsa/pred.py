"""Range-guard predicates: from the test of `if <test>: raise`, the set of integer values of each
variable that is certainly rejected (must) and possibly rejected (may)."""

import ast

from .astutil import fold, NoFold, call_name, dotted, src
from .intset import IntSet


class NotRange(Exception):
    pass


_FLIP = {ast.Lt: ast.Gt, ast.LtE: ast.GtE, ast.Gt: ast.Lt, ast.GtE: ast.LtE, ast.Eq: ast.Eq, ast.NotEq: ast.NotEq}


def _var(e):
    """(variable name, aggregate) for x, x.min(), x.max(), np.min(x), np.amax(x), min(x) ...;
    aggregate in (None, 'min', 'max')."""
    if isinstance(e, ast.Name):
        return e.id, None
    if isinstance(e, ast.Call):
        nm = call_name(e)
        if nm in ('min', 'max', 'amin', 'amax', 'nanmin', 'nanmax'):
            agg = 'min' if 'min' in nm else 'max'
            if isinstance(e.func, ast.Attribute) and isinstance(e.func.value, ast.Name) and not e.args \
                    and (dotted(e.func.value) not in ('np', 'numpy')):
                return e.func.value.id, agg
            if e.args and isinstance(e.args[0], ast.Name) and len(e.args) == 1:
                return e.args[0].id, agg
        if nm in ('astype', 'ravel', 'flatten', 'copy') and isinstance(e.func, ast.Attribute):
            return _var(e.func.value)
        if nm in ('asarray', 'array', 'int', 'abs_') and e.args:
            return _var(e.args[0])
    return None


def _size_test(e):
    """x.size > 0, len(x) > 0, x.size, len(x): true for every non-empty array."""
    if isinstance(e, ast.Compare) and len(e.ops) == 1:
        l, r = e.left, e.comparators[0]
        if _is_size(l) and isinstance(r, ast.Constant) and r.value == 0 and isinstance(e.ops[0], (ast.Gt, ast.NotEq)):
            return True
        if _is_size(l) and isinstance(r, ast.Constant) and r.value == 1 and isinstance(e.ops[0], ast.GtE):
            return True
    return _is_size(e)


def _is_size(e):
    if isinstance(e, ast.Attribute) and e.attr == 'size':
        return True
    if isinstance(e, ast.Call) and call_name(e) == 'len':
        return True
    return False


def _cmp(op, c):
    if isinstance(op, ast.Lt):
        return IntSet.lt(c)
    if isinstance(op, ast.LtE):
        return IntSet.le(c)
    if isinstance(op, ast.Gt):
        return IntSet.gt(c)
    if isinstance(op, ast.GtE):
        return IntSet.ge(c)
    if isinstance(op, ast.Eq):
        return IntSet.eq(c)
    if isinstance(op, ast.NotEq):
        return ~IntSet.eq(c)
    raise NotRange('comparison operator')


def _one_compare(left, op, right, resolver):
    v = _var(left)
    flipped = False
    if v is None:
        v = _var(right)
        left, right = right, left
        flipped = True
        if v is None:
            raise NotRange('no variable in comparison %s' % src(left))
    try:
        c = fold(right, resolver=resolver)
    except NoFold:
        raise NotRange('bound %s is not a constant' % src(right))
    if not isinstance(c, (int, float)) or isinstance(c, bool):
        raise NotRange('bound is not numeric')
    if flipped:
        op = _FLIP[type(op)]()
    s = _cmp(op, c)
    name, agg = v
    if agg is None:
        return {name: (s, s)}
    # aggregates: x.min() < c  <=> some element < c ; x.max() > c <=> some element > c
    exact = (agg == 'min' and isinstance(op, (ast.Lt, ast.LtE))) or (agg == 'max' and isinstance(op, (ast.Gt, ast.GtE)))
    if exact:
        return {name: (s, s)}
    return {name: (IntSet.empty(), s)}


def rejected(test, resolver=None):
    """{var: (must, may)}: values of var for which the test is certainly / possibly true."""
    e = test
    if isinstance(e, ast.Call):
        nm = call_name(e)
        if nm == 'any':
            inner = e.func.value if (isinstance(e.func, ast.Attribute) and not e.args) else (e.args[0] if e.args else None)
            if inner is None:
                raise NotRange('any()')
            return rejected(inner, resolver)
        if nm == 'all':
            inner = e.func.value if (isinstance(e.func, ast.Attribute) and not e.args) else (e.args[0] if e.args else None)
            if inner is None:
                raise NotRange('all()')
            r = rejected(inner, resolver)
            return {k: (IntSet.empty(), may) for k, (must, may) in r.items()}
        if nm in ('logical_or', 'bitwise_or') and len(e.args) == 2:
            return _or([rejected(a, resolver) for a in e.args])
        if nm in ('logical_and', 'bitwise_and') and len(e.args) == 2:
            return _and([a for a in e.args], resolver)
        if nm in ('logical_not', 'invert') and len(e.args) == 1:
            return _not(rejected(e.args[0], resolver))
        raise NotRange('call %s' % nm)
    if isinstance(e, ast.Compare):
        parts = []
        left = e.left
        for op, right in zip(e.ops, e.comparators):
            parts.append(_one_compare(left, op, right, resolver))
            left = right
        if len(parts) == 1:
            return parts[0]
        return _and_sets(parts)
    if isinstance(e, ast.BinOp) and isinstance(e.op, ast.BitOr):
        return _or([rejected(e.left, resolver), rejected(e.right, resolver)])
    if isinstance(e, ast.BoolOp) and isinstance(e.op, ast.Or):
        return _or([rejected(v, resolver) for v in e.values])
    if isinstance(e, ast.BinOp) and isinstance(e.op, ast.BitAnd):
        return _and([e.left, e.right], resolver)
    if isinstance(e, ast.BoolOp) and isinstance(e.op, ast.And):
        return _and(list(e.values), resolver)
    if isinstance(e, ast.UnaryOp) and isinstance(e.op, (ast.Invert, ast.Not)):
        return _not(rejected(e.operand, resolver))
    raise NotRange('shape of test %s' % src(e)[:60])


def _or(rs):
    out = {}
    for r in rs:
        for k, (must, may) in r.items():
            if k in out:
                out[k] = (out[k][0] | must, out[k][1] | may)
            else:
                out[k] = (must, may)
    return out


def _and(operands, resolver):
    rs = []
    for o in operands:
        if _size_test(o):
            continue
        rs.append(rejected(o, resolver))
    if not rs:
        raise NotRange('only size tests')
    if len(rs) == 1:
        return rs[0]
    return _and_sets(rs)


def _and_sets(rs):
    keys = set()
    for r in rs:
        keys |= set(r)
    if len(keys) == 1:
        k = next(iter(keys))
        must = IntSet.all()
        may = IntSet.all()
        for r in rs:
            must = must & r[k][0]
            may = may & r[k][1]
        return {k: (must, may)}
    out = {}
    for r in rs:
        for k, (must, may) in r.items():
            out[k] = (IntSet.empty(), (out[k][1] & may) if k in out else may)
    return out


def _not(r):
    if len(r) != 1:
        raise NotRange('negation over several variables')
    k = next(iter(r))
    must, may = r[k]
    return {k: (~may, ~must)}

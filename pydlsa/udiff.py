"""Minimal in-memory application of unified diffs (git format) to {path: source} -- used by the
self-test so that seeded regressions are analysed without writing a scratch copy of the repository."""

import re


class PatchError(Exception):
    pass


def parse(text):
    """[(path, [hunks])], hunk = (old_start, [(tag, line)])"""
    files = []
    cur = None
    hunk = None
    for line in text.splitlines():
        if line.startswith('diff --git'):
            cur = None
            hunk = None
            continue
        if line.startswith('--- '):
            continue
        if line.startswith('+++ '):
            p = line[4:].strip()
            if p.startswith('b/'):
                p = p[2:]
            cur = (p, [])
            files.append(cur)
            hunk = None
            continue
        m = re.match(r'@@ -(\d+)(?:,(\d+))? \+(\d+)(?:,(\d+))? @@', line)
        if m and cur is not None:
            hunk = (int(m.group(1)), int(m.group(3)), [])
            cur[1].append(hunk)
            continue
        if hunk is not None:
            if line.startswith('\\'):
                continue
            tag = line[:1] if line else ' '
            if tag not in ' +-':
                hunk = None
                continue
            hunk[2].append((tag, line[1:]))
    return files


def apply(text, sources, reverse=False):
    """sources: callable path -> str (current content).  Returns {path: new content}."""
    out = {}
    for path, hunks in parse(text):
        src = out.get(path)
        if src is None:
            src = sources(path)
        lines = src.split('\n')
        offset = 0
        for old_start, new_start, body in hunks:
            if reverse:
                body = [({'+': '-', '-': '+', ' ': ' '}[t], l) for t, l in body]
                start = new_start
            else:
                start = old_start
            before = [l for t, l in body if t in ' -']
            after = [l for t, l in body if t in ' +']
            pos = None
            guess = start - 1 + offset
            for delta in [0] + [d for k in range(1, 400) for d in (k, -k)]:
                p = guess + delta
                if 0 <= p <= len(lines) - len(before) and lines[p:p + len(before)] == before:
                    pos = p
                    break
            if pos is None:
                raise PatchError('hunk at line %d of %s does not apply' % (start, path))
            lines[pos:pos + len(before)] = after
            offset += len(after) - len(before)
        out[path] = '\n'.join(lines)
    return out

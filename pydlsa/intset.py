"""Sets of integers as sorted disjoint closed intervals with +-infinity, for guard extraction."""

INF = float('inf')


class IntSet:
    __slots__ = ('iv',)

    def __init__(self, intervals=()):
        iv = sorted((a, b) for a, b in intervals if a <= b)
        out = []
        for a, b in iv:
            if out and a <= out[-1][1] + 1:
                out[-1] = (out[-1][0], max(out[-1][1], b))
            else:
                out.append((a, b))
        self.iv = tuple(out)

    @staticmethod
    def all():
        return IntSet([(-INF, INF)])

    @staticmethod
    def empty():
        return IntSet()

    @staticmethod
    def lt(c):
        return IntSet([(-INF, _floor_lt(c))])

    @staticmethod
    def le(c):
        return IntSet([(-INF, _floor(c))])

    @staticmethod
    def gt(c):
        return IntSet([(_ceil_gt(c), INF)])

    @staticmethod
    def ge(c):
        return IntSet([(_ceil(c), INF)])

    @staticmethod
    def eq(c):
        return IntSet([(c, c)]) if c == int(c) else IntSet()

    @staticmethod
    def range(a, b):
        return IntSet([(a, b)])

    def __or__(self, o):
        return IntSet(self.iv + o.iv)

    def __and__(self, o):
        out = []
        for a, b in self.iv:
            for c, d in o.iv:
                lo, hi = max(a, c), min(b, d)
                if lo <= hi:
                    out.append((lo, hi))
        return IntSet(out)

    def __invert__(self):
        out = []
        cur = -INF
        for a, b in self.iv:
            if a > cur:
                out.append((cur, a - 1))
            cur = b + 1
        if cur <= INF and (not self.iv or self.iv[-1][1] != INF):
            out.append((cur, INF))
        return IntSet(out)

    def __sub__(self, o):
        return self & ~o

    def __eq__(self, o):
        return isinstance(o, IntSet) and self.iv == o.iv

    def __hash__(self):
        return hash(self.iv)

    def __bool__(self):
        return bool(self.iv)

    def issubset(self, o):
        return not (self - o)

    def __repr__(self):
        if not self.iv:
            return '{}'
        return ' u '.join('[%s,%s]' % (_fmt(a), _fmt(b)) for a, b in self.iv)


def _fmt(x):
    if x == INF:
        return '+inf'
    if x == -INF:
        return '-inf'
    return str(int(x))


def _floor(c):
    import math
    return math.floor(c)


def _ceil(c):
    import math
    return math.ceil(c)


def _floor_lt(c):
    import math
    f = math.floor(c)
    return f - 1 if f == c else f


def _ceil_gt(c):
    import math
    f = math.ceil(c)
    return f + 1 if f == c else f

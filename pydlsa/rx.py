"""Regular-expression literals as ASTs (re._parser), for agreement and class-membership queries."""

import ast
import re
import re._parser as sp
import re._constants as sc

from .astutil import call_name, dotted, walk_local

RE_FUNCS = {'compile', 'search', 'match', 'fullmatch', 'sub', 'subn', 'split', 'findall', 'finditer'}


def regex_literals(node):
    """(call, function name, pattern string, pattern node) for every re.<func>(<literal>, ...) under node.
    `'...'.format(...)` literals have their placeholders replaced by the word V."""
    out = []
    for c in walk_local(node):
        if isinstance(c, ast.Call) and isinstance(c.func, ast.Attribute) and c.func.attr in RE_FUNCS \
                and dotted(c.func.value) in ('re', 'regex') and c.args:
            p = c.args[0]
            s = None
            if isinstance(p, ast.Constant) and isinstance(p.value, str):
                s = p.value
            elif isinstance(p, ast.Call) and call_name(p) == 'format' and isinstance(p.func, ast.Attribute) \
                    and isinstance(p.func.value, ast.Constant) and isinstance(p.func.value.value, str):
                s = re.sub(r'\{\d*\}', 'V', p.func.value.value)
            if s is not None:
                out.append((c, c.func.attr, s, p))
    return out


def parse(pattern):
    return sp.parse(pattern)


def _norm(items):
    """Nested plain-Python structure of a parsed pattern with capture groups stripped."""
    out = []
    for op, av in items:
        name = str(op)
        if name == 'SUBPATTERN':
            out.extend(_norm(av[3]))
        elif name in ('MAX_REPEAT', 'MIN_REPEAT', 'POSSESSIVE_REPEAT'):
            out.append((name, int(av[0]), int(av[1]) if av[1] != sc.MAXREPEAT else 'inf', tuple(_norm(av[2]))))
        elif name == 'IN':
            out.append(('IN', tuple(sorted(_norm_in(av)))))
        elif name == 'BRANCH':
            out.append(('BRANCH', tuple(tuple(_norm(b)) for b in av[1])))
        elif name in ('LITERAL', 'NOT_LITERAL'):
            out.append((name, int(av)))
        elif name == 'CATEGORY':
            out.append((name, str(av)))
        elif name == 'AT':
            out.append((name, str(av)))
        elif name == 'ANY':
            out.append((name,))
        else:
            out.append((name, repr(av)))
    return out


def _norm_in(av):
    res = []
    for op, v in av:
        name = str(op)
        if name == 'LITERAL':
            res.append(('LITERAL', int(v)))
        elif name == 'RANGE':
            res.append(('RANGE', int(v[0]), int(v[1])))
        elif name == 'CATEGORY':
            res.append(('CATEGORY', str(v)))
        elif name == 'NEGATE':
            res.append(('NEGATE',))
        else:
            res.append((name, repr(v)))
    return res


def normal(pattern):
    return tuple(_norm(parse(pattern)))


def classes(pattern):
    """Every character class ([...]) of the pattern as (negated, set of literal code points,
    set of categories, ranges)."""
    out = []

    def rec(items):
        for it in items:
            if it[0] == 'IN':
                lits = {x[1] for x in it[1] if x[0] == 'LITERAL'}
                cats = {x[1] for x in it[1] if x[0] == 'CATEGORY'}
                rng = [(x[1], x[2]) for x in it[1] if x[0] == 'RANGE']
                neg = any(x[0] == 'NEGATE' for x in it[1])
                out.append((neg, lits, cats, rng))
            elif it[0] in ('MAX_REPEAT', 'MIN_REPEAT', 'POSSESSIVE_REPEAT'):
                rec(it[3])
            elif it[0] == 'BRANCH':
                for b in it[1]:
                    rec(b)
    rec(normal(pattern))
    return out


def class_admits(cls, ch):
    """Does a (non-negated) class item admit the character?"""
    neg, lits, cats, rng = cls
    cp = ord(ch)
    hit = cp in lits or any(a <= cp <= b for a, b in rng)
    if 'CATEGORY_SPACE' in cats and ch in ' \t\n\r\f\v':
        hit = True
    if 'CATEGORY_NOT_SPACE' in cats and ch not in ' \t\n\r\f\v':
        hit = True
    if 'CATEGORY_DIGIT' in cats and ch.isdigit():
        hit = True
    if 'CATEGORY_WORD' in cats and (ch.isalnum() or ch == '_'):
        hit = True
    return hit != neg


def item_admits(item, ch):
    """Does one normalised pattern item (IN / LITERAL / CATEGORY / ANY) match the character?"""
    if item[0] == 'IN':
        lits = {x[1] for x in item[1] if x[0] == 'LITERAL'}
        cats = {x[1] for x in item[1] if x[0] == 'CATEGORY'}
        rng = [(x[1], x[2]) for x in item[1] if x[0] == 'RANGE']
        neg = any(x[0] == 'NEGATE' for x in item[1])
        return class_admits((neg, lits, cats, rng), ch)
    if item[0] == 'LITERAL':
        return item[1] == ord(ch)
    if item[0] == 'NOT_LITERAL':
        return item[1] != ord(ch)
    if item[0] == 'CATEGORY':
        return class_admits((False, set(), {item[1]}, []), ch)
    if item[0] == 'ANY':
        return ch != '\n'
    return False

"""Lazy caches in classes: `if <validity test>: self._x = <expr>` ... `return self._x`.

A cached value stays right only while everything it was computed from is unchanged.  The rule: every `self.<attr>` read by the
cached expression either appears in the validity test, or cannot change after construction.  An attribute can change when it is
public (no leading underscore: callers and module-level functions assign it, e.g. `polygon.use_caps = ...`, `sset.breakpoints = ...`)
or when any method other than __init__ assigns it."""

import ast

from .astutil import src, walk_local


def self_attrs(e, skip=()):
    out = set()
    for n in ast.walk(e):
        if isinstance(n, ast.Attribute) and isinstance(n.value, ast.Name) and n.value.id == 'self' and n.attr not in skip:
            out.add(n.attr)
    return out


def lazy_caches(cls_node):
    """[(method, if-statement, cached attribute, value expr)]"""
    out = []
    for m in cls_node.body:
        if not isinstance(m, (ast.FunctionDef, ast.AsyncFunctionDef)):
            continue
        for n in walk_local(m):
            if isinstance(n, ast.If):
                for st in n.body:
                    if isinstance(st, ast.Assign):
                        for t in st.targets:
                            tt = t.elts if isinstance(t, ast.Tuple) else [t]
                            for x in tt:
                                if isinstance(x, ast.Attribute) and isinstance(x.value, ast.Name) and x.value.id == 'self' \
                                        and x.attr in self_attrs(n.test):
                                    out.append((m, n, x.attr, st.value))
    return out


def check_memo_keys(ctx, repo, rel, cls_name, rule, follow_methods=False):
    cls = repo.cls(rel, cls_name)
    mod = repo.module(rel)
    assigned_outside_init = set()
    for m in cls.body:
        if isinstance(m, ast.FunctionDef) and m.name != '__init__':
            for n in walk_local(m):
                if isinstance(n, (ast.Assign, ast.AugAssign)):
                    for t in (n.targets if isinstance(n, ast.Assign) else [n.target]):
                        for x in ([t] + (list(t.elts) if isinstance(t, ast.Tuple) else [])):
                            b = x
                            while isinstance(b, ast.Subscript):
                                b = b.value
                            if isinstance(b, ast.Attribute) and isinstance(b.value, ast.Name) and b.value.id == 'self':
                                assigned_outside_init.add(b.attr)
    caches = lazy_caches(cls)
    n_ok = 0
    for m, iff, attr, value in caches:
        f = mod.funcs.get('%s.%s' % (cls_name, m.name))
        block_assigned = {x.attr for st in iff.body if isinstance(st, ast.Assign) for t in st.targets
                          for x in ([t] + (list(t.elts) if isinstance(t, ast.Tuple) else []))
                          if isinstance(x, ast.Attribute) and isinstance(x.value, ast.Name) and x.value.id == 'self'}
        sources = self_attrs(value, skip=block_assigned | {attr})
        # sources through other attributes assigned in the same block
        for st in iff.body:
            if isinstance(st, ast.Assign):
                sources |= self_attrs(st.value, skip=block_assigned | {attr})
        tested = self_attrs(iff.test)
        calls = {c.func.attr for c in ast.walk(value) if isinstance(c, ast.Call) and isinstance(c.func, ast.Attribute)
                 and isinstance(c.func.value, ast.Name) and c.func.value.id == 'self'}
        sources -= calls
        # a method of the object called inside the cached expression reads whatever that method (and the methods it calls) reads
        methods = {m2.name: m2 for m2 in cls.body if isinstance(m2, ast.FunctionDef)}
        todo, done = (list(calls) if follow_methods else []), set()
        while todo:
            nm = todo.pop()
            if nm in done or nm not in methods:
                continue
            done.add(nm)
            for x in ast.walk(methods[nm]):
                if isinstance(x, ast.Attribute) and isinstance(x.value, ast.Name) and x.value.id == 'self' and isinstance(x.ctx, ast.Load):
                    if x.attr in methods:
                        todo.append(x.attr)
                    elif x.attr != attr and x.attr not in block_assigned:
                        sources.add(x.attr)
        stale = sorted(s for s in sources if s not in tested and (not s.startswith('_') or s in assigned_outside_init))
        n_ok += 1
        ctx.check(rule, not stale, f, iff, '%s.%s: the cache self.%s is revalidated against everything it is computed from (%s)'
                  % (cls_name, m.name, attr, sorted(sources)),
                  msg='%s.%s caches self.%s computed from %s, but the validity test `%s` does not look at %s, which can change after the value '
                      'was cached (public attribute / assigned by another method): later calls return the stale value'
                      % (cls_name, m.name, attr, sorted(sources), src(iff.test)[:60], stale), construct='stale cache %s.%s' % (cls_name, attr))
    return n_ok

"""Behaviour-preserving edit fuzzers (thorough tier): the checker must stay silent on every variant.

rename   - every local variable of every covered function renamed, one at a time
commute  - operands of one commutative operator / symmetric comparison swapped
struct   - a `pass` inserted before a statement, keyword arguments reversed, two adjacent independent simple
           assignments swapped, x.argsort() respelled as np.argsort(x)
idiom    - one idiom-level respelling per variant (fuzz_idiom.py: reflected comparison, inverted if/else, merged or split
           nested ifs, inlined / extracted temporary, positional <-> keyword argument, else after return, np.where / nonzero,
           dtype strings, slice and range lower bounds, ...)
combo    - a 'refactoring commit': three random idiom edits in sequence plus a renaming of every local

All variants are analysed in memory through the loader's overlay.  A VIOLATION on a variant is a checker defect (self-test
failure); ANALYSIS-ERROR (no verdict) is counted but tolerated."""

import ast
import concurrent.futures as cf
import contextlib
import copy
import io

from . import AnalysisError, report
from .loader import Repo


def _orig_def(module, func):
    for n in ast.walk(ast.parse(module.source)):
        if isinstance(n, ast.FunctionDef) and n.name == func.name and n.lineno == func.node.lineno:
            return n
    return None


def _locals_of(fn):
    params = {a.arg for a in fn.args.posonlyargs + fn.args.args + fn.args.kwonlyargs}
    if fn.args.vararg:
        params.add(fn.args.vararg.arg)
    if fn.args.kwarg:
        params.add(fn.args.kwarg.arg)
    names = {n.id for n in ast.walk(fn) if isinstance(n, ast.Name) and isinstance(n.ctx, ast.Store)}
    glob = {x for n in ast.walk(fn) if isinstance(n, (ast.Global, ast.Nonlocal)) for x in n.names}
    return sorted(names - params - glob)


def _rename_variants(source, fn):
    for name in _locals_of(fn):
        lines = source.split('\n')
        spots = [(n.lineno, n.col_offset) for n in ast.walk(fn) if isinstance(n, ast.Name) and n.id == name]
        new = name + '_rn'
        for ln, col in sorted(spots, reverse=True):
            l = lines[ln - 1]
            if l[col:col + len(name)] == name:
                lines[ln - 1] = l[:col] + new + l[col + len(name):]
        yield ('rename %s' % name, '\n'.join(lines))


def _commute_variants(source, fn):
    for n in ast.walk(fn):
        kind = None
        if isinstance(n, ast.BinOp) and isinstance(n.op, (ast.Mult, ast.BitOr, ast.BitAnd)):
            if any(isinstance(x, ast.Constant) and isinstance(x.value, str) for x in (n.left, n.right)):
                continue
            a, b = n.left, n.right
            kind = 'bin'
        elif isinstance(n, ast.Compare) and len(n.ops) == 1 and isinstance(n.ops[0], (ast.Eq, ast.NotEq)):
            a, b = n.left, n.comparators[0]
            kind = 'cmp'
        if kind is None or a.lineno != b.end_lineno or n.lineno != n.end_lineno:
            continue
        lines = source.split('\n')
        l = lines[n.lineno - 1]
        sa, sb = l[a.col_offset:a.end_col_offset], l[b.col_offset:b.end_col_offset]
        mid = l[a.end_col_offset:b.col_offset]
        lines[n.lineno - 1] = l[:a.col_offset] + '(' + sb + ')' + mid + '(' + sa + ')' + l[b.end_col_offset:]
        yield ('swap operands at line %d col %d' % (n.lineno, n.col_offset), '\n'.join(lines))


def _names_used(n):
    return {x.id for x in ast.walk(n) if isinstance(x, ast.Name)}


def _simple_assign(st):
    return isinstance(st, ast.Assign) and len(st.targets) == 1 and isinstance(st.targets[0], ast.Name) and not any(
        isinstance(x, ast.Call) for x in ast.walk(st.value))


def _struct_variants(source, fn):
    tree = ast.parse(source)

    def find(t):
        for n in ast.walk(t):
            if isinstance(n, ast.FunctionDef) and n.name == fn.name and n.lineno == fn.lineno:
                return n

    def lists(f):
        out = []
        for n in ast.walk(f):
            for fld in ('body', 'orelse', 'finalbody'):
                v = getattr(n, fld, None)
                if isinstance(v, list) and v and isinstance(v[0], ast.stmt):
                    out.append((n, fld))
        return out
    base = find(tree)
    k = 0
    for li, (owner, fld) in enumerate(lists(base)):
        body = getattr(owner, fld)
        for i in range(len(body)):
            k += 1
            if k % 4 == 0 and not (i == 0 and isinstance(body[i], ast.Expr) and isinstance(body[i].value, ast.Constant)):
                t2 = copy.deepcopy(tree)
                o2, fl2 = lists(find(t2))[li]
                getattr(o2, fl2).insert(i, ast.Pass())
                yield ('pass before statement %d of block %d' % (i, li), t2)
            if i + 1 < len(body) and _simple_assign(body[i]) and _simple_assign(body[i + 1]):
                a, b = body[i], body[i + 1]
                if a.targets[0].id not in _names_used(b) and b.targets[0].id not in _names_used(a):
                    t2 = copy.deepcopy(tree)
                    o2, fl2 = lists(find(t2))[li]
                    b2 = getattr(o2, fl2)
                    b2[i], b2[i + 1] = b2[i + 1], b2[i]
                    yield ('swap independent assignments %s / %s' % (a.targets[0].id, b.targets[0].id), t2)
    calls = [n for n in ast.walk(base) if isinstance(n, ast.Call)]
    for ci, c in enumerate(calls):
        if len(c.keywords) >= 2 and all(kw.arg for kw in c.keywords):
            t2 = copy.deepcopy(tree)
            c2 = [n for n in ast.walk(find(t2)) if isinstance(n, ast.Call)][ci]
            c2.keywords = c2.keywords[::-1]
            yield ('keywords reversed in call %d' % ci, t2)
        if isinstance(c.func, ast.Attribute) and c.func.attr == 'argsort' and not c.args and not c.keywords \
                and not (isinstance(c.func.value, ast.Name) and c.func.value.id == 'np'):
            t2 = copy.deepcopy(tree)
            c2 = [n for n in ast.walk(find(t2)) if isinstance(n, ast.Call)][ci]
            recv = c2.func.value
            c2.func = ast.Attribute(value=ast.Name(id='np', ctx=ast.Load()), attr='argsort', ctx=ast.Load())
            c2.args = [recv]
            yield ('x.argsort() -> np.argsort(x)', t2)


from .roles import callee_info as _callee_info


def idiom_jobs(prop, repo, covered, stride=1):
    from . import fuzz_idiom
    jobs = []
    k = 0
    for (rel, qual) in sorted(covered):
        m = repo.modules.get(rel)
        f = m.funcs.get(qual) if m else None
        if f is None:
            continue
        fn = _orig_def(m, f)
        if fn is None:
            continue
        for cls, desc, thunk in fuzz_idiom.variants(fn, _callee_info(repo, f)):
            new_fn = thunk()
            if new_fn is None:
                continue
            k += 1
            if k % stride:
                continue
            try:
                s2 = fuzz_idiom.splice(m.source, fn, new_fn)
            except Exception:
                continue
            jobs.append((prop, repo.root, rel, '%s/%s: %s' % (cls, qual, desc), s2))
    return jobs


def combo_jobs(prop, repo, covered, per_function=2):
    jobs = []
    for (rel, qual) in sorted(covered):
        m = repo.modules.get(rel)
        f = m.funcs.get(qual) if m else None
        if f is None or _orig_def(m, f) is None:
            continue
        for k in range(per_function):
            jobs.append((prop, repo.root, rel, 'combo/%s: #%d' % (qual, k), ('combo', qual, k)))
    return jobs


def _build_combo(root, rel, qual, k):
    from . import fuzz_idiom
    repo = Repo(root)
    m = repo.modules[rel]
    f = m.funcs[qual]
    fn = _orig_def(m, f)
    import zlib
    desc, new_fn = fuzz_idiom.combo(fn, _callee_info(repo, f), zlib.crc32(('%s:%s:%d' % (rel, qual, k)).encode()))
    return desc, fuzz_idiom.splice(m.source, fn, new_fn)


def _job(args):
    prop, root, rel, desc, src2 = args
    from .cli import evaluate
    try:
        if isinstance(src2, tuple):
            what, src2 = _build_combo(root, rel, src2[1], src2[2])
            desc = desc + ' ' + what
        compile(src2, rel, 'exec')
        repo = Repo(root, {rel: src2})
        with contextlib.redirect_stdout(io.StringIO()):
            ctx, mod = evaluate(prop, repo, borrow=False)     # helper rules are fuzzed by the property that owns them
        newv, _ = report.split_known(ctx.violations)
        if newv:
            return (desc, 'VIOLATION', '%s: %s' % (newv[0].rule, newv[0].msg[:120]))
        return (desc, 'ok', '')
    except AnalysisError as e:
        return (desc, 'exit2', str(e)[:120])
    except SyntaxError:
        return (desc, 'skip', '')
    except Exception as e:           # a crash of the checker on a harmless variant is a checker defect too
        return (desc, 'VIOLATION', 'internal error %s %s' % (type(e).__name__, str(e)[:80]))


def run_for(prop, repo, covered):
    """covered: iterable of (rel, qualname) the property's rules looked at on the clean tree."""
    jobs = []
    for (rel, qual) in sorted(covered):
        m = repo.modules.get(rel)
        f = m.funcs.get(qual) if m else None
        if f is None:
            continue
        fn = _orig_def(m, f)
        if fn is None:
            continue
        for desc, s2 in _rename_variants(m.source, fn):
            jobs.append((prop, repo.root, rel, 'rename/%s: %s' % (qual, desc), s2))
        for desc, s2 in _commute_variants(m.source, fn):
            jobs.append((prop, repo.root, rel, 'commute/%s: %s' % (qual, desc), s2))
        for desc, t2 in _struct_variants(m.source, fn):
            ast.fix_missing_locations(t2)
            jobs.append((prop, repo.root, rel, 'struct/%s: %s' % (qual, desc), ast.unparse(t2)))
    jobs.extend(idiom_jobs(prop, repo, covered))
    jobs.extend(combo_jobs(prop, repo, covered))
    res = {'variants': len(jobs), 'silent': 0, 'no_verdict': 0, 'skipped': 0, 'false_alarms': [], 'no_verdict_cases': []}
    if not jobs:
        return res
    with cf.ProcessPoolExecutor(16) as ex:
        out = list(ex.map(_job, jobs, chunksize=4))
    for desc, status, detail in out:
        if status == 'ok':
            res['silent'] += 1
        elif status == 'exit2':
            res['no_verdict'] += 1
            res['no_verdict_cases'].append('%s: %s' % (desc, detail))
        elif status == 'skip':
            res['skipped'] += 1
        else:
            res['false_alarms'].append('%s -> %s' % (desc, detail))
    return res

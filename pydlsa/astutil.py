"""Small AST helpers shared by all rules."""

import ast
import copy
import operator

_BIN = {ast.Add: operator.add, ast.Sub: operator.sub, ast.Mult: operator.mul,
        ast.FloorDiv: operator.floordiv, ast.Mod: operator.mod, ast.Pow: operator.pow,
        ast.LShift: operator.lshift, ast.RShift: operator.rshift, ast.BitOr: operator.or_,
        ast.BitAnd: operator.and_, ast.BitXor: operator.xor, ast.Div: operator.truediv}


def clone(node):
    """Deep copy of an AST (fields and positions only -- the _parent/_func back links the loader
    adds are not followed, which is what makes copy.deepcopy unusable here)."""
    if isinstance(node, list):
        return [clone(x) for x in node]
    if not isinstance(node, ast.AST):
        return node
    new = node.__class__()
    for f in node._fields:
        if hasattr(node, f):
            setattr(new, f, clone(getattr(node, f)))
    for a in node._attributes:
        if hasattr(node, a):
            setattr(new, a, getattr(node, a))
    return new


def link_parents(tree):
    for n in ast.walk(tree):
        for c in ast.iter_child_nodes(n):
            c._parent = n
    return tree


def src(node):
    """Normalised source text of a node (ast.unparse: whitespace, quotes and redundant
    parentheses canonical)."""
    if node is None:
        return 'None'
    if isinstance(node, list):
        return '; '.join(src(n) for n in node)
    try:
        return ast.unparse(node)
    except Exception:
        return '<%s>' % type(node).__name__


class NoFold(Exception):
    pass


def fold(node, env=None, resolver=None):
    """Safe constant folding.  Returns a Python constant or raises NoFold.
    env: {name: constant}; resolver(name_node) -> expr node or None (single reaching def)."""
    env = env or {}
    if isinstance(node, ast.Constant):
        return node.value
    if isinstance(node, ast.Name):
        if node.id in env:
            return env[node.id]
        if resolver is not None:
            d = resolver(node)
            if d is not None and d is not node:
                return fold(d, env, resolver)
        raise NoFold(node.id)
    if isinstance(node, ast.UnaryOp):
        v = fold(node.operand, env, resolver)
        if isinstance(node.op, ast.USub):
            return -v
        if isinstance(node.op, ast.UAdd):
            return +v
        if isinstance(node.op, ast.Invert) and isinstance(v, int):
            return ~v
        if isinstance(node.op, ast.Not):
            return not v
        raise NoFold()
    if isinstance(node, ast.BinOp) and type(node.op) in _BIN:
        a = fold(node.left, env, resolver)
        b = fold(node.right, env, resolver)
        if isinstance(node.op, ast.Pow) and (not isinstance(b, int) or abs(b) > 4096):
            raise NoFold()
        if isinstance(node.op, ast.LShift) and (not isinstance(b, int) or b > 4096 or b < 0):
            raise NoFold()
        try:
            return _BIN[type(node.op)](a, b)
        except Exception:
            raise NoFold()
    if isinstance(node, ast.Compare):
        left = fold(node.left, env, resolver)
        res = True
        for op, comp in zip(node.ops, node.comparators):
            right = fold(comp, env, resolver)
            try:
                if isinstance(op, ast.Eq):
                    r = left == right
                elif isinstance(op, ast.NotEq):
                    r = left != right
                elif isinstance(op, ast.Lt):
                    r = left < right
                elif isinstance(op, ast.LtE):
                    r = left <= right
                elif isinstance(op, ast.Gt):
                    r = left > right
                elif isinstance(op, ast.GtE):
                    r = left >= right
                elif isinstance(op, ast.Is):
                    r = left is right
                elif isinstance(op, ast.IsNot):
                    r = left is not right
                else:
                    raise NoFold()
            except TypeError:
                raise NoFold()
            res = res and r
            left = right
        return res
    if isinstance(node, ast.BoolOp):
        vals = [fold(v, env, resolver) for v in node.values]
        if isinstance(node.op, ast.And):
            out = True
            for v in vals:
                out = out and v
            return out
        out = False
        for v in vals:
            out = out or v
        return out
    if isinstance(node, (ast.Tuple, ast.List)):
        return tuple(fold(e, env, resolver) for e in node.elts)
    if isinstance(node, ast.Set):
        return frozenset(fold(e, env, resolver) for e in node.elts)
    if isinstance(node, ast.Call) and isinstance(node.func, ast.Attribute) and not node.args \
            and not node.keywords and node.func.attr in ('upper', 'lower', 'strip', 'title'):
        v = fold(node.func.value, env, resolver)
        if isinstance(v, str):
            return getattr(v, node.func.attr)()
        raise NoFold()
    if isinstance(node, ast.Call) and isinstance(node.func, ast.Name) and node.func.id in ('int', 'float', 'str') \
            and len(node.args) == 1 and not node.keywords:
        v = fold(node.args[0], env, resolver)
        try:
            return {'int': int, 'float': float, 'str': str}[node.func.id](v)
        except Exception:
            raise NoFold()
    if isinstance(node, ast.Call) and not node.keywords and len(node.args) == 1:
        # np.uint64(5), np.int64(5), np.array(5).  (value-preserving wrappers of an int constant)
        f = node.func
        nm = f.attr if isinstance(f, ast.Attribute) else (f.id if isinstance(f, ast.Name) else None)
        if nm in ('uint64', 'int64', 'uint32', 'int32', 'uint16', 'int16'):
            v = fold(node.args[0], env, resolver)
            if isinstance(v, int):
                return v
    raise NoFold(type(node).__name__)


def try_fold(node, env=None, resolver=None, default=None):
    try:
        return fold(node, env, resolver)
    except NoFold:
        return default


def dotted(node):
    """'a.b.c' for Name/Attribute chains, else None."""
    parts = []
    while isinstance(node, ast.Attribute):
        parts.append(node.attr)
        node = node.value
    if isinstance(node, ast.Name):
        parts.append(node.id)
        return '.'.join(reversed(parts))
    return None


def walk_local(node, include_self=True):
    """ast.walk that does not descend into nested function/class definitions or lambdas
    (those are opaque to intraprocedural rules)."""
    stack = [node]
    first = True
    while stack:
        n = stack.pop()
        if not first and isinstance(n, (ast.FunctionDef, ast.AsyncFunctionDef, ast.ClassDef, ast.Lambda)):
            continue
        if include_self or not first:
            yield n
        first = False
        stack.extend(reversed(list(ast.iter_child_nodes(n))))


def calls(node, name=None):
    for n in walk_local(node):
        if isinstance(n, ast.Call):
            if name is None or call_name(n) == name or (dotted(n.func) or '').endswith('.' + name):
                yield n


def call_name(call):
    """Last component of the callee ('zeros' for np.zeros(...), 'protect' for self.protect(...))."""
    f = call.func
    if isinstance(f, ast.Attribute):
        return f.attr
    if isinstance(f, ast.Name):
        return f.id
    return None


def names_in(node):
    return {n.id for n in ast.walk(node) if isinstance(n, ast.Name)}


def is_const(node, value=None):
    if not isinstance(node, ast.Constant):
        return False
    return value is None or (node.value == value and type(node.value) is type(value))


def kwarg(call, name, pos=None):
    for k in call.keywords:
        if k.arg == name:
            return k.value
    if pos is not None and len(call.args) > pos:
        return call.args[pos]
    return None


def parent(node):
    return getattr(node, '_parent', None)


def ancestors(node):
    n = parent(node)
    while n is not None:
        yield n
        n = parent(n)


def enclosing_stmt(node):
    n = node
    while n is not None and not isinstance(n, ast.stmt):
        n = parent(n)
    return n


def strip_parens_eq(a, b):
    """Structural equality of two expressions (ignoring positions)."""
    return ast.dump(a) == ast.dump(b)


def substitute(node, mapping):
    """Copy of `node` with Name loads replaced by expression nodes from mapping {name: node}."""
    class T(ast.NodeTransformer):
        def visit_Name(self, n):
            if n.id in mapping:
                return clone(mapping[n.id])
            return n
    return T().visit(clone(node))


def rename(node, mapping):
    """Copy of node with identifiers renamed according to mapping {old: new} (Names and args)."""
    class T(ast.NodeTransformer):
        def visit_Name(self, n):
            if n.id in mapping:
                return ast.copy_location(ast.Name(id=mapping[n.id], ctx=n.ctx), n)
            return n
    return T().visit(clone(node))


def canon(node, extra=None):
    """Canonical dump of a node modulo a *bijective* renaming of local Names: names are numbered
    in order of first occurrence (attribute names, constants and call shapes stay).  Two nodes
    with equal canon() are isomorphic modulo renaming.  `extra`: names that must not be renamed."""
    keep = set(extra or ())
    order = {}

    class T(ast.NodeTransformer):
        def visit_Name(self, n):
            if n.id in keep:
                return ast.Name(id=n.id, ctx=ast.Load())
            if n.id not in order:
                order[n.id] = 'v%d' % len(order)
            return ast.Name(id=order[n.id], ctx=ast.Load())
    t = T().visit(clone(node))
    return ast.dump(t, include_attributes=False), order


def stmt_lists(node):
    """All statement lists directly owned by a compound statement."""
    out = []
    for fld in ('body', 'orelse', 'finalbody'):
        v = getattr(node, fld, None)
        if isinstance(v, list) and v and isinstance(v[0], ast.stmt):
            out.append(v)
    for h in getattr(node, 'handlers', []) or []:
        out.append(h.body)
    if isinstance(node, ast.Match):
        for c in node.cases:
            out.append(c.body)
    return out


def docstring_of(fn):
    return ast.get_docstring(fn, clean=False) or ''


def path_conditions(node):
    """[(test, polarity)] known to hold whenever `node` is evaluated: the tests of the enclosing if-statements / conditional
    expressions, and the negated tests of earlier guard statements (`if T: continue / break / return / raise`) in the enclosing
    blocks.  Purely syntactic: an assignment between a guard and the node that changes an operand of T is not looked for (the nested
    if-form has the same blind spot)."""
    out = []
    child = node
    for a in ancestors(node):
        if isinstance(a, ast.If):
            if any(child is b for b in a.body):
                out.append((a.test, True))
            elif any(child is b for b in a.orelse):
                out.append((a.test, False))
        elif isinstance(a, ast.IfExp):
            if child is a.body:
                out.append((a.test, True))
            elif child is a.orelse:
                out.append((a.test, False))
        for blk in stmt_lists(a) if isinstance(a, ast.stmt) or isinstance(a, ast.Module) else []:
            if any(child is b for b in blk):
                for b in blk:
                    if b is child:
                        break
                    if isinstance(b, ast.If) and b.body and isinstance(b.body[-1], (ast.Continue, ast.Break, ast.Return, ast.Raise)):
                        out.append((b.test, False))         # the true branch leaves: behind it the test is false
                    elif isinstance(b, ast.If) and b.orelse and isinstance(b.orelse[-1], (ast.Continue, ast.Break, ast.Return, ast.Raise)):
                        out.append((b.test, True))          # the else branch leaves: behind it the test is true
        if isinstance(a, (ast.FunctionDef, ast.AsyncFunctionDef, ast.Lambda)):
            break
        child = a
    return out

"""Hand-written self-test catalogue: breaking edits (kind='break', must be reported by `expect`) and
behaviour-preserving rewrites (kind='keep', must stay silent).  Edits are exact source substitutions on
the current tree (each anchor must occur exactly once in the file); a case whose anchor is gone is skipped."""

Y = 'pydl/pydlutils/yanny.py'
S = 'pydl/pydlutils/sdss.py'
PO = 'pydl/photoop/photoobj.py'
W = 'pydl/photoop/window.py'
M = 'pydl/pydlutils/mangle.py'
B = 'pydl/pydlutils/bspline.py'
MA = 'pydl/pydlutils/math.py'
IM = 'pydl/pydlutils/image.py'
S1 = 'pydl/pydlspec2d/spec1d.py'
S2 = 'pydl/pydlspec2d/spec2d.py'
SG = 'pydl/pydlutils/spheregroup.py'
CO = 'pydl/pydlutils/coord.py'
AS = 'pydl/goddard/astro.py'
TR = 'pydl/pydlutils/trace.py'
PC = 'pydl/pcomp.py'
IO = 'pydl/photoop/sdssio.py'


def m(id, prop, kind, rel, edits, expect=None, all=False):
    return {'id': id, 'prop': prop, 'kind': kind, 'rel': rel, 'edits': edits, 'expect': expect, 'all': all}


def mp(id, prop, kind, patch, expect=None):
    import os
    return {'id': id, 'prop': prop, 'kind': kind, 'patch': os.path.join(os.path.dirname(os.path.abspath(__file__)), 'keep_patches', patch), 'expect': expect}


CATALOGUE = [
    mp('c06-keep-table-driven-specobjid', 'C06', 'keep', 'c06-table-driven-specobjid.diff'),
    # ------------------------------------------------------------------ C01
    m('c01-typemap-long-int', 'C01', 'break', Y, [("'i8': 'long'", "'i8': 'int'")], 'C01.TYPEMAP'),
    m('c01-unsigned-added', 'C01', 'break', Y, [("'f8': 'double'}", "'f8': 'double', 'u4': 'int'}")], 'C01.REFUSE'),
    m('c01-get-default', 'C01', 'break', Y, [("line += dtmap[t]", "line += dtmap.get(t, 'int')")], 'C01.REFUSE'),
    m('c01-drop-protect-write', 'C01', 'break', Y, [("datum = self.protect(self[sym][col][k])", "datum = str(self[sym][col][k])")], 'C01.PROTECT-FLOW'),
    m('c01-drop-hash', 'C01', 'break', Y, [("len(s) == 0 or s.find('#') >= 0 or re.search", "len(s) == 0 or re.search")], 'C01.PROTECT-PRED'),
    m('c01-match-not-search', 'C01', 'break', Y, [("re.search(r'\\s+', s) is not None", "re.match(r'\\s+', s) is not None")], 'C01.PROTECT-PRED'),
    m('c01-sorted-names', 'C01', 'break', Y, [("return {structname.upper(): list(dt.names),", "return {structname.upper(): sorted(dt.names),")], 'C01.COLORDER'),
    m('c01-keep-in-operator', 'C01', 'keep', Y, [("s.find('#') >= 0", "'#' in s")]),
    m('c01-keep-rename-dtmap', 'C01', 'keep', Y, [("        dtmap = {'i2': 'short'", "        typemap = {'i2': 'short'"), ("line += dtmap[t]", "line += typemap[t]")]),
    m('c01-keep-not-s', 'C01', 'keep', Y, [("if len(s) == 0 or s.find", "if not s or s.find")]),
    # ------------------------------------------------------------------ C02
    m('c02-strip-pattern-differs', 'C02', 'break', Y, [("lines = re.sub(r'typedef\\s+struct\\s*\\{[^}]+\\}\\s*\\w+\\s*;', '', lines)",
                                                        "lines = re.sub(r'typedef\\s+struct\\s*\\{[^}]+\\}\\s*\\w+;', '', lines)")], 'C02.PAT-PAIR'),
    m('c02-angle-dropped', 'C02', 'break', Y, [("character_array = re.compile(r'char[\\[<]\\d*[\\]>][\\[<]\\d*[\\]>]')",
                                                "character_array = re.compile(r'char[\\[]\\d*[\\]>][\\[<]\\d*[\\]>]')")], 'C02.ANGLE'),
    m('c02-no-canon', 'C02', 'break', Y, [("var_type = typ + array.replace('<', '[').replace('>', ']')", "var_type = typ + array")], 'C02.ANGLE'),
    m('c02-raw-convert', 'C02', 'break', Y, [("        if not self.raw:\n            for t in self.tables():", "        if True:\n            for t in self.tables():")], 'C02.RAW'),
    m('c02-dispatch-case', 'C02', 'break', Y, [("uckey = key.upper()", "uckey = key")], 'C02.DISPATCH'),
    m('c02-no-decode', 'C02', 'break', Y, [("                if isinstance(contents, bytes):\n                    contents = contents.decode('ascii')\n", "")], 'C02.BINARY'),
    m('c02-keep-rename-typere', 'C02', 'keep', Y, [("            typere = re.compile(", "            type_re = re.compile("), ("(typ, array) = typere.search(", "(typ, array) = type_re.search(")]),
    m('c02-keep-utf8', 'C02', 'keep', Y, [("contents.decode('ascii')", "contents.decode('utf-8')")]),
    # ------------------------------------------------------------------ C03
    m('c03-no-exist-check', 'C03', 'break', Y, [("        if os.access(newfile, os.F_OK):\n            raise PydlutilsException(\n                  \"{0} exists, aborting write!\".format(newfile))\n", "")], 'C03.W-GUARD'),
    m('c03-append-w', 'C03', 'break', Y, [("with open(self.filename, 'a') as f:", "with open(self.filename, 'w') as f:")], 'C03.MODES'),
    m('c03-no-reparse', 'C03', 'break', Y, [("                self._contents += contents\n                self._parse()\n", "                self._contents += contents\n")], 'C03.COHERENT'),
    m('c03-store-stripped', 'C03', 'break', Y, [("        self._contents = contents\n        self.filename = newfile", "        self._contents = contents.rstrip()\n        self.filename = newfile")], 'C03.COHERENT'),
    m('c03-append-unprotected', 'C03', 'break', Y, [("datum = self.protect(datatable[datasym][col][k])", "datum = str(datatable[datasym][col][k])")], 'C03.ROW-SIBLING'),
    m('c03-keep-exists', 'C03', 'keep', Y, [("if os.access(newfile, os.F_OK):", "if os.path.exists(newfile):")]),
    m('c03-keep-timestamp-moved', 'C03', 'keep', Y, [("        timestamp = datetime.datetime.utcnow().strftime('%Y-%m-%d %H:%M:%S UTC')\n        contents = ''\n",
                                                      "        contents = ''\n        timestamp = datetime.datetime.utcnow().strftime('%Y-%m-%d %H:%M:%S UTC')\n")]),
    # ------------------------------------------------------------------ C06
    m('c06-shift-off-by-one', 'C06', 'break', S, [("(rerun.astype(np.int64) << 48) |", "(rerun.astype(np.int64) << 49) |")], 'C06.PACK'),
    m('c06-guard-loose', 'C06', 'break', S, [("(rerun >= 2**11)", "(rerun >= 2**12)")], 'C06.GUARD'),
    m('c06-guard-tight', 'C06', 'break', S, [("(objnum >= 2**16)", "(objnum >= 2**15)")], 'C06.GUARD'),
    m('c06-guard-deleted', 'C06', 'break', S, [("    if ((fiber < 0) | (fiber >= 2**12)).any():\n        raise ValueError(\"fiber values are out-of-bounds!\")\n", "")], 'C06.GUARD'),
    m('c06-mask-narrow', 'C06', 'break', PO, [("np.bitwise_and(tempobjid >> 29, 2**3 - 1)", "np.bitwise_and(tempobjid >> 29, 2**2 - 1)")], 'C06.UNPACK'),
    m('c06-unpack-swapped', 'C06', 'break', S, [("unwrap.fiber = np.bitwise_and(tempobjid >> 38, 2**12 - 1)", "unwrap.fiber = np.bitwise_and(tempobjid >> 24, 2**12 - 1)")], 'C06.UNPACK'),
    m('c06-cast-dropped', 'C06', 'break', S, [("(plate.astype(np.uint64) << 50)", "(plate << 50)")], 'C06.CAST'),
    m('c06-mjd-offset-unpack', 'C06', 'break', S, [("2**14 - 1) + 50000", "2**14 - 1) + 5000")], 'C06.UNPACK'),
    m('c06-excl-dropped', 'C06', 'break', S, [("    if line is not None and index is not None:\n        raise ValueError(\"line and index inputs cannot both be non-zero!\")\n", "")], 'C06.EXCL'),
    m('c06-run2d-radix', 'C06', 'break', S, [("(int(N) - 5)*10000 + int(M) * 100 + int(P)", "(int(N) - 5)*1000 + int(M) * 100 + int(P)")], 'C06.RUN2D'),
    m('c06-keep-65536', 'C06', 'keep', S, [("(objnum >= 2**16)", "(objnum >= 65536)")]),
    m('c06-keep-guards-reordered', 'C06', 'keep', S, [("    if ((firstfield < 0) | (firstfield > 1)).any():\n        raise ValueError(\"firstfield values are out-of-bounds!\")\n    if ((skyversion < 0) | (skyversion >= 16)).any():\n        raise ValueError(\"skyversion values are out-of-bounds!\")\n",
                                                   "    if ((skyversion < 0) | (skyversion >= 16)).any():\n        raise ValueError(\"skyversion values are out-of-bounds!\")\n    if ((firstfield < 0) | (firstfield > 1)).any():\n        raise ValueError(\"firstfield values are out-of-bounds!\")\n")]),
    m('c06-keep-left-shift', 'C06', 'keep', S, [("(run.astype(np.int64) << 32) |", "np.left_shift(run.astype(np.int64), 32) |")]),
    m('c06-narrow-shift', 'C06', 'break', S, [("(run.astype(np.int64) << 32) |", "(run << 32) |")], 'C06.WIDE'),
    m('c06-keep-hex-mask', 'C06', 'keep', PO, [("np.bitwise_and(tempobjid >> 32, 2**16 - 1)", "np.bitwise_and(tempobjid >> 32, 0xFFFF)")]),
    m('c06-keep-amp', 'C06', 'keep', PO, [("unwrap.id = np.bitwise_and(tempobjid, 2**16 - 1)", "unwrap.id = tempobjid & (2**16 - 1)")]),
    # ------------------------------------------------------------------ C07
    m('c07-drop-upper', 'C07', 'break', S, [("    flagu = flagname.upper()\n    flagvalue = np.uint64(0)", "    flagu = flagname\n    flagvalue = np.uint64(0)")], 'C07.CASEFOLD'),
    m('c07-range63', 'C07', 'break', S, [("for bit in range(64)", "for bit in range(63)")], 'C07.SCAN64'),
    m('c07-keep-shift-scan', 'C07', 'keep', S, [("""    bits = [bit for bit in range(64)
            if (flagvaluint & (one << np.uint64(bit))) != 0]
    retval = list()
    for bit in bits:
        try:
            f = [x for x in maskbits[flagu].items() if x[1] == bit]
        except KeyError:
            raise KeyError("Unknown flag group {0}!".format(flagu))
        if f:
            retval.append(f[0][0])
""", """    retval = list()
    for bit in range(64):
        if (flagvaluint & one) != 0:
            try:
                f = [x for x in maskbits[flagu].items() if x[1] == bit]
            except KeyError:
                raise KeyError("Unknown flag group {0}!".format(flagu))
            if f:
                retval.append(f[0][0])
        flagvaluint >>= one
""")]),
    m('c07-shift-scan-continue', 'C07', 'break', S, [("""    bits = [bit for bit in range(64)
            if (flagvaluint & (one << np.uint64(bit))) != 0]
    retval = list()
    for bit in bits:
        try:
            f = [x for x in maskbits[flagu].items() if x[1] == bit]
        except KeyError:
            raise KeyError("Unknown flag group {0}!".format(flagu))
        if f:
            retval.append(f[0][0])
""", """    retval = list()
    for bit in range(64):
        if (flagvaluint & one) != 0:
            try:
                f = [x for x in maskbits[flagu].items() if x[1] == bit]
            except KeyError:
                raise KeyError("Unknown flag group {0}!".format(flagu))
            if not f:
                continue
            retval.append(f[0][0])
        flagvaluint >>= one
""")], 'C07.SCAN64'),
    m('c07-continue-not-raise', 'C07', 'break', S, [("            else:\n                raise KeyError(\"Unknown bit label {0} for flag group {1}!\".format(bit, flagu))", "            else:\n                continue")], 'C07.GUARDED'),
    m('c07-exist-unguarded', 'C07', 'break', S, [("    if flagname.upper() in maskbits:\n        f = True\n        which", "    if True:\n        f = True\n        which")], 'C07.GUARDED'),
    m('c07-python-int-shift', 'C07', 'break', S, [("if (flagvaluint & (one << np.uint64(bit))) != 0]", "if (flagvaluint & (one << bit)) != 0]")], 'C07.U64'),
    m('c07-alias-no-copy-before-rows', 'C07', 'break', S, [("maskbits[maskfile['MASKALIAS']['flag'][k].upper()].copy()", "maskbits[maskfile['MASKALIAS']['flag'][k].upper()]")], 'C07.ALIAS'),
    m('c07-keep-range-0-64', 'C07', 'keep', S, [("for bit in range(64)", "for bit in range(0, 64)")]),
    # ------------------------------------------------------------------ C08
    m('c08-return-sorted', 'C08', 'break', B, [("        return (yy, mask)", "        return (yfit, mask)")], 'C08.UNSORT'),
    m('c08-gather-not-scatter', 'C08', 'break', B, [("        yy = yfit.copy()\n        yy[xsort] = yfit\n", "        yy = yfit[xsort]\n")], 'C08.UNSORT'),
    m('c08-pad-short', 'C08', 'break', B, [("for i in np.arange(1, nord, dtype=np.float32):", "for i in np.arange(1, nord-1, dtype=np.float32):")], 'C08.PAD'),
    m('c08-keep-rename-yy', 'C08', 'keep', B, [("        yy = yfit.copy()\n        yy[xsort] = yfit\n", "        unsorted = yfit.copy()\n        unsorted[xsort] = yfit\n"), ("        return (yy, mask)", "        return (unsorted, mask)")]),
    # ------------------------------------------------------------------ C09
    # pre-fix code of fix 03 (the reversed patch no longer applies after fix 42 rewrote the same line)
    m('c06-array-mjd-offset-missing', 'C06', 'break', S, [("    else:\n        mjd = mjd.astype(np.int64) - 50000\n", "")], 'C06.PATH-OFFSET'),
    # pre-fix code of fix 42
    m('c06-array-mjd-offset-narrow', 'C06', 'break', S, [("        mjd = mjd.astype(np.int64) - 50000\n", "        mjd = mjd - 50000\n")], 'C06.WIDE'),
    m('c09-float-range', 'C09', 'break', B, [("for jj in range(-int(np.ceil(self.nord/2.0)), (self.nord - 1)//2 + 1):", "for jj in range(-np.ceil(self.nord/2.0), self.nord/2.0):")], 'C09.INT-SINK'),
    m('c09-status-lost', 'C09', 'break', B, [("            return (-2, yfit)", "            return yfit")], 'C09.STATUS'),
    m('c09-keep-ge', 'C09', 'keep', B, [("            ict = upper[k] - lower[k] + 1\n            if ict > 0:", "            if upper[k] >= lower[k]:")]),
    # ------------------------------------------------------------------ C10
    m('c10-early-return-all-true', 'C10', 'break', B, [("            outmask[xsort] = maskwork\n            return (sset, outmask)", "            return (sset, outmask)")], 'C10.MASK-EXITS'),
    m('c08-everyn-unbounded', 'C08', 'break', B, [("                    xspot = np.minimum(int(nx/(nbkpts-1)) * np.arange(nbkpts, dtype='i4'),\n                                       nx-1)",
                                                   "                    xspot = int(nx/(nbkpts-1)) * np.arange(nbkpts, dtype='i4')")], 'C08.EVERYN'),
    m('c09-maskpoints-float-indices', 'C09', 'break', B, [("        hmm = err[uniq(err//self.npoly)]//self.npoly", "        hmm = err[uniq(err/self.npoly)]/self.npoly")], 'C09.INT-SINK'),
    m('c10-no-unsort', 'C10', 'break', B, [("    outmask[xsort] = maskwork\n    temp = yfit", "    outmask = maskwork\n    temp = yfit")], 'C10.UNSORT'),
    m('c10-double-gather', 'C10', 'break', B, [("    outmask[xsort] = maskwork\n    temp = yfit", "    outmask[xsort] = maskwork[xsort]\n    temp = yfit")], 'C10.UNSORT'),
    m('c10-fit-unmasked', 'C10', 'break', B, [("error, yfit = sset.fit(xwork, ywork, invwork*maskwork,", "error, yfit = sset.fit(xwork, ywork, invwork,")], 'C10.WEIGHT-MASK'),
    m('c10-limits-swapped', 'C10', 'break', B, [("invvar=invwork, lower=lower, upper=upper,", "invvar=invwork, lower=upper, upper=lower,")], 'C10.LIMITS'),
    m('c10-no-inmask', 'C10', 'break', B, [("djs_reject(ywork, yfit, inmask=inmask, outmask=maskwork,", "djs_reject(ywork, yfit, inmask=None, outmask=maskwork,")], 'C10.INMASK'),
    m('c10-keep-qdone-false', 'C10', 'keep', B, [("while (error != 0 or not qdone) and iiter <= maxiter:", "while (error != 0 or qdone == False) and iiter <= maxiter:")]),
    # ------------------------------------------------------------------ C11
    m('c11-scrub-before-ivar', 'C11', 'break', S2, [("    newflux = aesthetics(newflux, newivar, method=amethod)\n", "    newflux = aesthetics(newflux, newivar, method=amethod)\n    newivar[goodpts] = 1.0 / newivar[goodpts]\n")], 'C11.SCRUB'),
    m('c11-zshift-sign', 'C11', 'break', S1, [("combine1fiber(rowloglam-logshift[iobj],", "combine1fiber(rowloglam+logshift[iobj],")], 'C11.ZSHIFT'),
    m('c11-keep-size-guard', 'C11', 'keep', S2, [("            if goodpts.any():\n                newflux[badpts] = newflux[goodpts].mean()", "            if goodpts.sum() > 0:\n                newflux[badpts] = newflux[goodpts].mean()")]),
    m('c11-aesth-unguarded-mean', 'C11', 'break', S2, [("            if goodpts.any():\n                newflux[badpts] = newflux[goodpts].mean()", "            newflux[badpts] = newflux[goodpts].mean()")], 'C11.EMPTY-AGG'),
    m('c17-aesth-mean-negative-ivar', 'C17', 'break', S2, [("                newflux[badpts] = newflux[goodpts].mean()", "                newflux[~goodpts] = newflux[goodpts].mean()")], 'C17.AESTH'),
    # ------------------------------------------------------------------ C12
    m('c12-usecaps-preset', 'C12', 'break', W, [("r['balkans']['USE_CAPS'] = (1 << r['blist']['NCAPS']) - 1", "r['balkans']['USE_CAPS'] = (1 << r['blist']['NCAPS'])")], 'C12.SLICES'),
    m('c12-or-not-and', 'C12', 'break', M, [("            in_polygon &= is_in_cap(", "            in_polygon |= is_in_cap(")], 'C12.AND-ALL'),
    m('c12-boundary-outside', 'C12', 'break', M, [("    return cap_distance(x, cm, points) >= 0.0", "    return cap_distance(x, cm, points) > 0.0")], 'C12.CAP-SIGN'),
    m('c12-cap-bit', 'C12', 'break', M, [("    return (use_caps & 1 << i) != 0", "    return (use_caps & 1 << (i + 1)) != 0")], 'C12.CAP-BIT'),
    m('c12-column-renamed', 'C12', 'break', W, [("('CMCAPS', r['bcaps']['CM'].dtype, (max_caps,)),", "('CM_CAPS', r['bcaps']['CM'].dtype, (max_caps,)),"), ("r['balkans'][k]['CMCAPS'][0:", "r['balkans'][k]['CM_CAPS'][0:")], 'C12.COLUMNS'),
    m('c12-keep-rename-loopvar', 'C12', 'keep', M, [("    for i in index_list:\n        polygon.use_caps |= (1 << i)", "    for cap in index_list:\n        polygon.use_caps |= (1 << cap)")]),
    m('c12-keep-int-clip', 'C12', 'keep', M, [("np.clip(np.dot(xyz, x), -1.0, 1.0)", "np.clip(np.dot(xyz, x), -1, 1)")]),
    # ------------------------------------------------------------------ C13
    m('c13-registry', 'C13', 'break', TR, [("    _func_map = {'poly': fpoly, 'legendre': flegendre, 'chebyshev': fchebyshev}", "    _func_map = {'poly': fpoly, 'legendre': fchebyshev, 'chebyshev': fchebyshev}")], 'C13.REGISTRY'),
    m('c13-no-xnorm-eval', 'C13', 'break', TR, [("            xvec = self.xnorm(xpos[iTrace, :], do_jump)\n            legarr = self._func_map", "            xvec = xpos[iTrace, :]\n            legarr = self._func_map")], 'C13.XNORM'),
    m('c13-mask-weights', 'C13', 'break', TR, [("            beta = np.dot(ysub * invvar, finalarr.T)", "            beta = np.dot(ysub * (invvar > 0), finalarr.T)")], 'C13.WEIGHTS'),
    m('c13-fixed-before-solve', 'C13', 'break', TR, [("        if len(fixed) > 0:\n            res[fixed] = inputans[fixed]\n", "")], 'C13.FIXED-LAST'),
    # ------------------------------------------------------------------ C15
    m('c15-hmf-unguarded-write', 'C15', 'break', S1, [("        if self.nonnegative:\n            self.spectra[self.spectra < 0] = 0\n            self.invvar[self.spectra < 0] = 0", "        self.spectra[self.spectra < 0] = 0\n        self.invvar[self.spectra < 0] = 0")], 'C15.HMF-IMMUT'),
    m('c15-evecs-rows', 'C15', 'break', PC, [("        self._evecs = evecs[:, ie]", "        self._evecs = evecs[ie, :]")], 'C15.EIG-ALIGN'),
    m('c15-ascending', 'C15', 'break', PC, [("        ie = evals.argsort()[::-1]", "        ie = evals.argsort()")], 'C15.EIG-ALIGN'),
    m('c15-usemask-axis', 'C15', 'break', S1, [("        usemask = outmask.sum(0)", "        usemask = outmask.sum(1)")], 'C15.USEMASK'),
    m('c15-keep-np-argsort', 'C15', 'keep', PC, [("        ie = evals.argsort()[::-1]", "        ie = np.argsort(evals)[::-1]")]),
    # ------------------------------------------------------------------ C16
    m('c16-dict-branch-not-reordered', 'C16', 'break', S1, [("                    spplate_data[k][c] = spplate_data[k][c][j]\n", "                    pass\n")], 'C16.REORDER-ALL'),
    m('c16-new-first', 'C16', 'break', S1, [("                    allpmjdindex = np.concatenate((allpmjdindex, pmjdindex))", "                    allpmjdindex = np.concatenate((pmjdindex, allpmjdindex))")], 'C16.INV-PERM'),
    m('c16-rowsel', 'C16', 'break', S1, [("            tmp = photop[1].data[thisfiber-1]", "            tmp = photop[1].data[thisfiber]")], 'C16.ROWSEL'),
    m('c16-reversed-argsort', 'C16', 'break', S1, [("    j = allpmjdindex.argsort()", "    j = allpmjdindex[::-1].argsort()")], 'C16.INV-PERM'),
    m('c16-empty-alloc', 'C16', 'break', S1, [("    spec3 = np.zeros((nrows, maxpix), dtype=spec1.dtype)", "    spec3 = np.empty((nrows, maxpix), dtype=spec1.dtype)")], 'C16.TILING'),
    m('c16-col-off-by-one', 'C16', 'break', S1, [("    spec3[nrows1:nrows, nadd2:nadd2+npix2] = spec2", "    spec3[nrows1:nrows, nadd2+1:nadd2+npix2+1] = spec2")], 'C16.TILING'),
    m('c16-loglam-coeff', 'C16', 'break', S1, [("        loglam0 = c0 + c1*np.arange(npix, dtype='d')", "        loglam0 = c0 + c1*np.arange(1, npix+1, dtype='d')")], 'C16.LOGLAM'),
    # ------------------------------------------------------------------ C17
    m('c17-site-axis', 'C17', 'break', IM, [("                    for i in range(yval.shape[1]):\n                        ynew[:, i] = djs_maskinterp1(yval[:, i], mask[:, i],\n                                                     const=const)",
                                             "                    for i in range(yval.shape[0]):\n                        ynew[:, i] = djs_maskinterp1(yval[:, i], mask[:, i],\n                                                     const=const)")], 'C17.MI-SITES'),
    m('c17-store-good', 'C17', 'break', IM, [("        ynew[ibad] = np.interp(ibad, igood, ynew[igood])", "        ynew[igood] = np.interp(igood, igood, ynew[igood])")], 'C17.MI1-STORE'),
    m('c17-no-inmask-and', 'C17', 'break', MA, [("    if inmask is not None:\n        newmask = newmask & inmask\n", "")], 'C17.REJ-MASKS'),
    m('c17-aesth-mask', 'C17', 'break', S2, [("            newflux = djs_maskinterp(flux, invvar == 0)\n", "            newflux = djs_maskinterp(flux, invvar <= 1)\n")], 'C17.AESTH'),
    m('c17-sky-width', 'C17', 'break', S1, [("        width = 2*ngrow + 1", "        width = 2*ngrow")], 'C17.SKY'),
    m('c17-sky-flag', 'C17', 'break', S1, [("    redmonster = sdss_flagval('SPPIXMASK', 'REDMONSTER')", "    redmonster = sdss_flagval('SPPIXMASK', 'BRIGHTSKY')")], 'C17.SKY'),
    # ------------------------------------------------------------------ C18
    m('c18-keep-haversine-helper', 'C18', 'keep', 'pydl/goddard/astro.py', [
        ("def gcirc(ra1, dec1, ra2, dec2, units=2):", "def _hav(x):\n    return np.sin(x/2.0)**2\n\n\ndef gcirc(ra1, dec1, ra2, dec2, units=2):"),
        ("    sindis = np.sqrt(np.sin(deldec2)*np.sin(deldec2) +\n                     np.cos(dcrad1)*np.cos(dcrad2)*np.sin(delra2)*np.sin(delra2))",
         "    sindis = np.sqrt(_hav(dcrad2 - dcrad1) + np.cos(dcrad1)*np.cos(dcrad2)*_hav(rarad2 - rarad1))")]),
    m('c18-haversine-helper-1-cos', 'C18', 'break', 'pydl/goddard/astro.py', [
        ("def gcirc(ra1, dec1, ra2, dec2, units=2):", "def _hav(x):\n    return 0.5*(1.0 - np.cos(x))\n\n\ndef gcirc(ra1, dec1, ra2, dec2, units=2):"),
        ("    sindis = np.sqrt(np.sin(deldec2)*np.sin(deldec2) +\n                     np.cos(dcrad1)*np.cos(dcrad2)*np.sin(delra2)*np.sin(delra2))",
         "    sindis = np.sqrt(_hav(dcrad2 - dcrad1) + np.cos(dcrad1)*np.cos(dcrad2)*_hav(rarad2 - rarad1))")], 'C18.HAVERSINE'),
    m('c18-rot-sign', 'C18', 'break', CO, [("    yy = sinmu * cosnu * cosi - sinnu * sini", "    yy = sinmu * cosnu * cosi + sinnu * sini")], 'C18.ROT'),
    m('c18-inverse-not-transposed', 'C18', 'break', CO, [("    y2 = y1 * cosi + z1 * sini\n    z2 = -y1 * sini + z1 * cosi", "    y2 = y1 * cosi - z1 * sini\n    z2 = y1 * sini + z1 * cosi")], 'C18.ROT'),
    m('c18-node-not-added', 'C18', 'break', CO, [("    mu = ac.Angle(np.arctan2(y2, x2), unit=u.radian) + munu.node", "    mu = ac.Angle(np.arctan2(y2, x2), unit=u.radian)")], 'C18.NODE'),
    m('c18-stripe-sep', 'C18', 'break', CO, [("    dec_center = 32.5", "    dec_center = 32.0")], 'C18.STRIPE'),
    m('c18-units-hours', 'C18', 'break', AS, [("        rarad2 = np.deg2rad(15.0*ra2)", "        rarad2 = np.deg2rad(ra2)")], 'C18.UNITS'),
    m('c18-keep-rename-trig', 'C18', 'keep', CO, [("    sinmu = np.sin((munu.mu - munu.node).to(u.radian).value)", "    smu = np.sin((munu.mu - munu.node).to(u.radian).value)"),
                                                 ("    yy = sinmu * cosnu * cosi - sinnu * sini\n    zz = sinmu * cosnu * sini + sinnu * cosi", "    yy = smu * cosnu * cosi - sinnu * sini\n    zz = smu * cosnu * sini + sinnu * cosi")]),
    m('c18-keep-commute', 'C18', 'keep', CO, [("    xx = cosmu * cosnu", "    xx = cosnu * cosmu")]),
    # ------------------------------------------------------------------ C19
    m('c19-fact-const', 'C19', 'break', AS, [("    sigma2 = (1.0e4/v)**2\n    fact = (1.0 + 5.792105e-2/(238.0185 - sigma2) +\n            1.67917e-3/(57.362 - sigma2))", "    sigma2 = (1.0e4/v)**2\n    fact = (1.0 + 5.792105e-2/(238.0185 - sigma2) +\n            1.67917e-3/(57.632 - sigma2))")], 'C19.FACT'),
    m('c19-threshold', 'C19', 'break', AS, [("        if vacuum < 2000.0:", "        if vacuum <= 2000.0:")], 'C19.THRESH'),
    m('c19-mutates-input', 'C19', 'break', IO, [("    abflux = flux.copy()", "    abflux = flux")], 'C19.AB'),
    m('c19-raw-flux-summed', 'C19', 'break', S2, [("            res[:, i] = (flux_interp * filtimg).sum(1)", "            res[:, i] = (flux * filtimg).sum(1)")], 'C19.FILTER'),
    # ------------------------------------------------------------------ C20
    m('c20-stmt-out-of-try', 'C20', 'break', W, [("    del os.environ['PHOTO_CALIB']\n    try:\n", "    del os.environ['PHOTO_CALIB']\n    log = os.environ['HOME']\n    try:\n")], 'C20.RESTORE'),
    m('c20-restore-one-key', 'C20', 'break', S1, [("    for r in ('run2d', 'run1d'):\n        if metadata['orig_'+r] is None:", "    for r in ('run2d',):\n        if metadata['orig_'+r] is None:")], 'C20.RESTORE'),
    m('c20-restore-wrong-slot', 'C20', 'break', S1, [("            os.environ[r.upper()] = metadata['orig_'+r]\n    return", "            os.environ[r.upper()] = metadata[r]\n    return")], 'C20.RESTORE'),
    m('c20-new-mutation-in-readspec', 'C20', 'break', S1, [("    spplate_data = dict()\n    hdunames =", "    os.environ['RUN2D'] = str(run2d)\n    spplate_data = dict()\n    hdunames =")], 'C20.RESTORE'),
    m('c20-keep-rename-saved', 'C20', 'keep', W, [("        calib_dir_save = os.environ['PHOTO_CALIB']", "        saved = os.environ['PHOTO_CALIB']"), ("        os.environ['PHOTO_CALIB'] = calib_dir_save", "        os.environ['PHOTO_CALIB'] = saved")]),
    m('c20-keep-pop', 'C20', 'keep', W, [("    del os.environ['PHOTO_CALIB']\n", "    os.environ.pop('PHOTO_CALIB')\n")]),
    # ------------------------------------------------------------------ C04 / C05
    m('c04-cell-formula', 'C04', 'break', SG, [("        decChunk = int(np.floor((dec - self.decBounds[0]) *", "        decChunk = int(np.ceil((dec - self.decBounds[0]) *")], 'C04.CELL-AGREE'),
    m('c04-no-rotation', 'C04', 'break', SG, [("        currra = np.fmod(ra1[i]+chunk.raOffset, 360.0)", "        currra = ra1[i]")], 'C04.ROT-AGREE'),
    m('c04-margin-var', 'C04', 'break', SG, [("    chunk.assign(ra2, dec2, matchlength)", "    chunk.assign(ra2, dec2, 0.5*matchlength)")], 'C04.MARGIN'),
    m('c04-fill-differs', 'C04', 'break', SG, [("                gotten2[omatch2[s[i]]] += 1\n                match1[nmatch] = omatch1[s[i]]", "                match1[nmatch] = omatch1[s[i]]")], 'C04.MAXMATCH-SIB'),
    m('c05-ascending-rebuild', 'C05', 'break', SG, [("    firstgroup[:] = -1\n    for i in range(npoints-1, -1, -1):", "    firstgroup[:] = -1\n    for i in range(npoints):")], 'C05.LIST-DESC'),
    m('c05-no-reset', 'C05', 'break', SG, [("    multgroup[:] = 0\n", "")], 'C05.RESET'),
    m('c05-margin', 'C05', 'break', SG, [("    chunk.assign(ra, dec, linklength)", "    chunk.assign(ra, dec, 0.5*linklength)")], 'C05.MARGIN'),
]

# ---------------------------------------------------------------------------------------------------------
# more behaviour-preserving rewrites (kind='keep'): local renames, equivalent idioms, reordering of independent statements
KEEPS = [
    m('c01-keep-set-literal', 'C01', 'keep', Y, [("intTypes = set(['short', 'int', 'long'])", "intTypes = {'short', 'int', 'long'}")]),
    m('c01-keep-rename-datum', 'C01', 'keep', Y, [("                    if self.isarray(sym, col):\n                        datum = ('{' + ' '.join([self.protect(x)\n                                 for x in self[sym][col][k]]) + '}')\n                    else:\n                        datum = self.protect(self[sym][col][k])\n                    line.append(datum)",
                                                  "                    if self.isarray(sym, col):\n                        cell = ('{' + ' '.join([self.protect(x)\n                                for x in self[sym][col][k]]) + '}')\n                    else:\n                        cell = self.protect(self[sym][col][k])\n                    line.append(cell)")]),
    m('c02-keep-rename-uckey', 'C02', 'keep', Y, [("                uckey = key.upper()\n                if uckey in self._symbols:", "                tabkey = key.upper()\n                if tabkey in self._symbols:"),
                                                  ("                    for column in self._symbols[uckey]:", "                    for column in self._symbols[tabkey]:"),
                                                  ("                            if self.isarray(uckey, column):", "                            if self.isarray(tabkey, column):"),
                                                  ("                                self[uckey][column].append(\n                                    self.convert(uckey, column, arraydata))", "                                self[tabkey][column].append(\n                                    self.convert(tabkey, column, arraydata))"),
                                                  ("                                self[uckey][column].append(\n                                    self.convert(uckey, column, data))", "                                self[tabkey][column].append(\n                                    self.convert(tabkey, column, data))")]),
    m('c03-keep-rename-contents', 'C03', 'keep', Y, [("            if os.access(self.filename, os.W_OK):\n                with open(self.filename, 'a') as f:\n                    f.write(contents)\n                self._contents += contents",
                                                     "            if os.access(self.filename, os.W_OK):\n                with open(self.filename, 'a') as handle:\n                    handle.write(contents)\n                self._contents += contents")]),
    m('c03-keep-explicit-concat', 'C03', 'keep', Y, [("                self._contents += contents\n                self._parse()", "                self._contents = self._contents + contents\n                self._parse()")]),
    m('c04-keep-rename-sep', 'C04', 'keep', SG, [("                sep = gcirc(ra1[i], dec1[i], ra2[k], dec2[k], units=2)/3600.0\n                if sep < matchlength:\n                    match1.append(i)\n                    match2.append(k)\n                    distance12.append(sep)",
                                                  "                sep = gcirc(ra1[i], dec1[i], ra2[k], dec2[k], units=2)/3600.0\n                if sep < matchlength:\n                    match2.append(k)\n                    match1.append(i)\n                    distance12.append(sep)")]),
    m('c05-keep-comment-only', 'C05', 'keep', SG, [("    firstgroup[:] = -1\n    for i in range(npoints-1, -1, -1):", "    firstgroup[:] = -1\n    # rebuild from the top\n    for i in range(npoints-1, -1, -1):")]),
    m('c06-keep-rename-tempobjid', 'C06', 'keep', PO, [("tempobjid", "ids")], all=True),
    m('c07-keep-rename-flagu', 'C07', 'keep', S, [("    flagu = flagname.upper()\n    flagvalue = np.uint64(0)", "    group = flagname.upper()\n    flagvalue = np.uint64(0)"),
                                                  ("        if flagu in maskbits:\n            if bit in maskbits[flagu]:\n                flagvalue += np.uint64(2)**np.uint64(maskbits[flagu][bit])\n            else:\n                raise KeyError(\"Unknown bit label {0} for flag group {1}!\".format(bit, flagu))\n        else:\n            raise KeyError(\"Unknown flag group {0}!\".format(flagu))",
                                                   "        if group in maskbits:\n            if bit in maskbits[group]:\n                flagvalue += np.uint64(2)**np.uint64(maskbits[group][bit])\n            else:\n                raise KeyError(\"Unknown bit label {0} for flag group {1}!\".format(bit, group))\n        else:\n            raise KeyError(\"Unknown flag group {0}!\".format(group))")]),
    m('c07-keep-shift-form', 'C07', 'keep', S, [("flagvalue += np.uint64(2)**np.uint64(maskbits[flagu][bit])", "flagvalue += np.uint64(1) << np.uint64(maskbits[flagu][bit])")]),
    m('c08-keep-rename-xsort', 'C08', 'keep', B, [("        xsort = x.argsort()\n        xwork = x[xsort]\n        if x2 is not None:\n            x2work = x2[xsort]", "        order = x.argsort()\n        xwork = x[order]\n        if x2 is not None:\n            x2work = x2[order]"),
                                                  ("        yy[xsort] = yfit\n", "        yy[order] = yfit\n")]),
    m('c09-keep-rename-hmm', 'C09', 'keep', B, [("        hmm = err[uniq(err//self.npoly)]//self.npoly\n        n = nbkpt - self.nord\n        if np.any(hmm >= n):", "        bad = err[uniq(err//self.npoly)]//self.npoly\n        n = nbkpt - self.nord\n        if np.any(bad >= n):"),
                                                ("            inside = np.clip(hmm + jj, 0, n - 1)", "            inside = np.clip(bad + jj, 0, n - 1)")]),
    m('c10-keep-while-reordered', 'C10', 'keep', B, [("while (error != 0 or not qdone) and iiter <= maxiter:", "while iiter <= maxiter and (error != 0 or not qdone):")]),
    m('c11-keep-rename-combivar', 'C11', 'keep', S2, [("            combivar = np.ones(inloglam_r.shape, dtype=inloglam.dtype)\n        else:\n            combivar = objivar.ravel()", "            weights = np.ones(inloglam_r.shape, dtype=inloglam.dtype)\n        else:\n            weights = objivar.ravel()"),
                                                      ("                                       (combivar[these] *", "                                       (weights[these] *")]),
    m('c12-keep-range-len', 'C12', 'keep', M, [("    for i in index_list:\n        polygon.use_caps |= (1 << i)", "    for k in range(len(index_list)):\n        polygon.use_caps |= (1 << index_list[k])")]),
    m('c12-keep-ifexp-sign', 'C12', 'keep', M, [("    if cm < 0:\n        cdist *= -1.0\n    return cdist", "    return -cdist if cm < 0 else cdist")]),
    m('c13-keep-comment', 'C13', 'keep', TR, [("        yfit = np.dot(legarr.T, res[0:ncfit])\n    return (res, yfit)", "        # evaluate the model everywhere\n        yfit = np.dot(legarr.T, res[0:ncfit])\n    return (res, yfit)")]),
    m('c15-keep-rename-ie', 'C15', 'keep', PC, [("        ie = evals.argsort()[::-1]\n        self._evals = evals[ie]\n        self._evecs = evecs[:, ie]", "        order = evals.argsort()[::-1]\n        self._evals = evals[order]\n        self._evecs = evecs[:, order]")]),
    m('c15-keep-seed-not-none', 'C15', 'keep', S1, [("        if self.seed is not None:\n            np.random.seed(self.seed)", "        if not self.seed is None:\n            np.random.seed(self.seed)")]),
    m('c16-keep-rename-j', 'C16', 'keep', S1, [("    j = allpmjdindex.argsort()\n", "    back = allpmjdindex.argsort()\n"), ("                    spplate_data[k][c] = spplate_data[k][c][j, :]", "                    spplate_data[k][c] = spplate_data[k][c][back, :]"),
                                               ("                    spplate_data[k][c] = spplate_data[k][c][j]\n", "                    spplate_data[k][c] = spplate_data[k][c][back]\n"), ("            spplate_data[k] = spplate_data[k][j, :]", "            spplate_data[k] = spplate_data[k][back, :]"),
                                               ("    allcoeff0 = allcoeff0[j]\n    allcoeff1 = allcoeff1[j]", "    allcoeff0 = allcoeff0[back]\n    allcoeff1 = allcoeff1[back]")]),
    m('c17-keep-rename-k', 'C17', 'keep', MA, [("            for k in range(1, grow+1):\n                newmask[np.maximum(irejects - k, 0)] = 0\n                newmask[np.minimum(irejects + k, data.shape[0]-1)] = 0",
                                               "            for step in range(1, grow+1):\n                newmask[np.maximum(irejects - step, 0)] = 0\n                newmask[np.minimum(irejects + step, data.shape[0]-1)] = 0")]),
    m('c17-keep-array-equal', 'C17', 'keep', MA, [("    qdone = bool(np.all(newmask == outmask))", "    qdone = bool(np.array_equal(newmask, outmask))")]),
    m('c18-keep-rename-xyz', 'C18', 'keep', CO, [("    x2 = x1\n    y2 = y1 * cosi + z1 * sini\n    z2 = -y1 * sini + z1 * cosi\n    mu = ac.Angle(np.arctan2(y2, x2), unit=u.radian) + munu.node\n    nu = ac.Angle(np.arcsin(np.clip(z2, -1.0, 1.0)), unit=u.radian)",
                                                 "    xr = x1\n    yr = y1 * cosi + z1 * sini\n    zr = -y1 * sini + z1 * cosi\n    mu = ac.Angle(np.arctan2(yr, xr), unit=u.radian) + munu.node\n    nu = ac.Angle(np.arcsin(np.clip(zr, -1.0, 1.0)), unit=u.radian)")]),
    m('c18-keep-square', 'C18', 'keep', AS, [("    sindis = np.sqrt(np.sin(deldec2)*np.sin(deldec2) +\n                     np.cos(dcrad1)*np.cos(dcrad2)*np.sin(delra2)*np.sin(delra2))", "    sindis = np.sqrt(np.sin(deldec2)**2 +\n                     np.cos(dcrad1)*np.cos(dcrad2)*np.sin(delra2)**2)")]),
    m('c19-keep-extract-factor-helper', 'C19', 'keep', AS, [
        ("def airtovac(air):", "def _refraction_factor(wave):\n    sigma2 = (1.0e4/wave)**2\n    fact = (1.0 + 5.792105e-2/(238.0185 - sigma2) +\n            1.67917e-3/(57.362 - sigma2))\n    return fact\n\n\ndef airtovac(air):"),
        ("    for k in range(2):\n        sigma2 = (1.0e4/vacuum)**2\n        fact = (1.0 + 5.792105e-2/(238.0185 - sigma2) +\n                1.67917e-3/(57.362 - sigma2))\n        vacuum = a * fact",
         "    for k in range(2):\n        fact = _refraction_factor(vacuum)\n        vacuum = a * fact")]),
    m('c19-keep-comment', 'C19', 'keep', AS, [("    for k in range(2):\n        sigma2 = (1.0e4/vacuum)**2", "    for k in range(2):\n        # Ciddor (1996)\n        sigma2 = (1.0e4/vacuum)**2")]),
    m('c20-keep-get-default', 'C20', 'keep', S1, [("        metadata['orig_'+r] = os.environ.get(r.upper())", "        metadata['orig_'+r] = os.environ.get(r.upper(), None)")]),
    m('c20-keep-finally-helper-rename', 'C20', 'keep', S1, [("_restore_run_environment", "_put_back_run_environment")], all=True),
]
CATALOGUE = CATALOGUE + KEEPS

"""pydlsa -- repository-specific static analysis for weaverba137/pydl.

Standard library only (ast, re._parser, json, hashlib).  Nothing under /repo is
imported or executed: every fact is read off the parsed source of the current
working tree.
"""

__all__ = ['AnalysisError']


class AnalysisError(Exception):
    """The checker cannot see what it needs (anchor vanished, idiom not in the
    accepted family, instance count below the floor).  Exit code 2 -- never a
    property verdict."""

"""Inlining of one-expression helpers: `def h(a, b): return E` called as h(x, y) is read as E[a := x, b := y].

A refactoring that moves a sub-expression into a private helper must not blind a rule that reasons about the expression
(polynomial identities, formula shapes).  Only package functions whose body is a docstring plus a single `return <expr>` and whose
parameters are plain positional/keyword names are inlined; arguments are substituted syntactically (they are assumed free of
side effects, as everywhere in the formula rules)."""

import ast

from .astutil import clone


def _single_return(fn):
    body = list(fn.body)
    if body and isinstance(body[0], ast.Expr) and isinstance(body[0].value, ast.Constant) and isinstance(body[0].value.value, str):
        body = body[1:]
    if len(body) == 1 and isinstance(body[0], ast.Return) and body[0].value is not None:
        return body[0].value
    return None


def inline_calls(e, repo, func, depth=3):
    """A clone of expression e with calls to one-expression package helpers replaced by their bodies."""
    orig = e
    e = clone(e)
    hit = []

    class T(ast.NodeTransformer):
        def visit_Call(self, n):
            self.generic_visit(n)
            if depth <= 0:
                return n
            try:
                g = repo.resolve_call(n, func)
            except Exception:
                g = None
            if g is None or g.cls is not None:
                return n
            a = g.node.args
            if a.vararg or a.kwarg or a.posonlyargs or a.kwonlyargs:
                return n
            ret = _single_return(g.node)
            if ret is None:
                return n
            params = [x.arg for x in a.args]
            if any(isinstance(x, ast.Starred) for x in n.args) or any(k.arg is None for k in n.keywords) or len(n.args) > len(params):
                return n
            binding = dict(zip(params, n.args))
            for k in n.keywords:
                if k.arg not in params or k.arg in binding:
                    return n
                binding[k.arg] = k.value
            defaults = dict(zip(params[len(params) - len(a.defaults):], a.defaults))
            for p in params:
                if p not in binding:
                    if p not in defaults:
                        return n
                    binding[p] = defaults[p]
            body = clone(ret)

            class S(ast.NodeTransformer):
                def visit_Name(self, m):
                    if m.id in binding and isinstance(m.ctx, ast.Load):
                        return clone(binding[m.id])
                    return m
            body = S().visit(body)
            hit.append(g.qualname)
            return inline_calls(body, repo, g, depth - 1)
    out = T().visit(e)
    if not hit:
        return orig                 # nothing inlined: keep the original nodes (they are known to the CFG / reaching definitions)
    ast.fix_missing_locations(out)
    return out

"""May-be-None dataflow for parameters whose default is None.

State: frozenset of names that may hold None.  A use that would raise on None -- attribute access, subscript,
call, arithmetic operand -- of a name in the set is reported.  Refinement by `is None` / `is not None` /
truthiness tests on the CFG edges and inside short-circuit expressions."""

import ast

from .astutil import src, walk_local
from .cfg import forward


def _refine(test, truth, s):
    """State after `test` evaluated to `truth`."""
    if isinstance(test, ast.Compare) and len(test.ops) == 1 and isinstance(test.left, ast.Name) \
            and isinstance(test.comparators[0], ast.Constant) and test.comparators[0].value is None:
        nm = test.left.id
        is_none = isinstance(test.ops[0], (ast.Is, ast.Eq))
        if isinstance(test.ops[0], (ast.Is, ast.Eq, ast.IsNot, ast.NotEq)):
            if truth == is_none:
                return s            # known None: keep in the may-set
            return s - {nm}
    if isinstance(test, ast.Name) and truth:
        return s - {test.id}
    if isinstance(test, ast.UnaryOp) and isinstance(test.op, ast.Not):
        return _refine(test.operand, not truth, s)
    if isinstance(test, ast.BoolOp):
        if isinstance(test.op, ast.And) and truth:
            for v in test.values:
                s = _refine(v, True, s)
            return s
        if isinstance(test.op, ast.Or) and not truth:
            for v in test.values:
                s = _refine(v, False, s)
            return s
    if isinstance(test, ast.Call) and isinstance(test.func, ast.Name) and test.func.id == 'isinstance' and truth and test.args \
            and isinstance(test.args[0], ast.Name):
        return s - {test.args[0].id}
    return s


def _uses(e, s, out):
    """Collect dereferencing uses of may-be-None names in expression e (short-circuit aware)."""
    if isinstance(e, ast.BoolOp):
        cur = s
        for v in e.values:
            _uses(v, cur, out)
            cur = _refine(v, isinstance(e.op, ast.And), cur)
        return
    if isinstance(e, ast.IfExp):
        _uses(e.test, s, out)
        _uses(e.body, _refine(e.test, True, s), out)
        _uses(e.orelse, _refine(e.test, False, s), out)
        return
    if isinstance(e, (ast.Lambda, ast.FunctionDef, ast.ClassDef)):
        return
    if isinstance(e, ast.Attribute) and isinstance(e.value, ast.Name) and e.value.id in s:
        out.append((e, e.value.id, 'attribute .%s' % e.attr))
    elif isinstance(e, ast.Subscript) and isinstance(e.value, ast.Name) and e.value.id in s and isinstance(e.ctx, (ast.Load, ast.Store)):
        out.append((e, e.value.id, 'subscript'))
    elif isinstance(e, ast.Call) and isinstance(e.func, ast.Name) and e.func.id in s:
        out.append((e, e.func.id, 'call'))
    elif isinstance(e, ast.BinOp):
        for side in (e.left, e.right):
            if isinstance(side, ast.Name) and side.id in s:
                out.append((e, side.id, 'arithmetic operand'))
    elif isinstance(e, ast.Compare) and not any(isinstance(o, (ast.Is, ast.IsNot, ast.Eq, ast.NotEq, ast.In, ast.NotIn)) for o in e.ops):
        for side in [e.left] + e.comparators:
            if isinstance(side, ast.Name) and side.id in s:
                out.append((e, side.id, 'ordering comparison'))
    for c in ast.iter_child_nodes(e):
        if isinstance(c, ast.AST) and not isinstance(c, (ast.expr_context, ast.operator, ast.cmpop, ast.boolop, ast.unaryop)):
            _uses(c, s, out)


def analyse(fa, names=None):
    """[(node, name, kind of use, lineno)] for every dereference of a parameter that may still be None."""
    fn = fa.node
    a = fn.args
    pos = a.posonlyargs + a.args
    maybe = set()
    for arg, d in zip(pos[len(pos) - len(a.defaults):], a.defaults):
        if isinstance(d, ast.Constant) and d.value is None:
            maybe.add(arg.arg)
    for arg, d in zip(a.kwonlyargs, a.kw_defaults):
        if d is not None and isinstance(d, ast.Constant) and d.value is None:
            maybe.add(arg.arg)
    if names is not None:
        maybe &= set(names)
    cfg = fa.cfg

    def transfer(n, s, label):
        if n.kind == 'test':
            if label in (True, False):
                return _refine(n.expr, label, s)
            return s
        if label == 'exc':
            return s
        if n.kind == 'stmt':
            st = n.stmt
            if isinstance(st, ast.Assign):
                for t in st.targets:
                    for x in ast.walk(t):
                        if isinstance(x, ast.Name) and isinstance(x.ctx, ast.Store):
                            if (isinstance(st.value, ast.Constant) and st.value.value is None) or \
                                    (isinstance(st.value, ast.Name) and st.value.id in s and isinstance(t, ast.Name)):
                                s = s | {x.id}
                            else:
                                s = s - {x.id}
            elif isinstance(st, (ast.AugAssign, ast.AnnAssign)) and isinstance(st.target, ast.Name):
                s = s - {st.target.id}
        elif n.kind == 'for':
            for x in ast.walk(n.stmt.target):
                if isinstance(x, ast.Name):
                    s = s - {x.id}
        return s
    IN = forward(cfg, frozenset(maybe), transfer, lambda x, y: x | y)
    out = []
    seen = set()
    for n in cfg.nodes:
        s = IN.get(n.id)
        if not s:
            continue
        exprs = []
        if n.kind == 'test' or n.kind == 'iterinit':
            exprs = [n.expr]
        elif n.kind == 'stmt' and not isinstance(n.stmt, (ast.FunctionDef, ast.ClassDef)):
            exprs = [n.stmt]
        elif n.kind == 'with':
            exprs = [i.context_expr for i in n.stmt.items]
        for e in exprs:
            found = []
            _uses(e, s, found)
            for node, nm, kind in found:
                key = (id(node), nm)
                if key not in seen:
                    seen.add(key)
                    out.append((node, nm, kind, getattr(node, 'lineno', n.lineno)))
    return sorted(out, key=lambda t: t[3])

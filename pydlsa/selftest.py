"""Checker self-validation (thorough tier, DESIGN 5).

Three sources of cases, all analysed in memory through the loader's overlay (no scratch copy of /repo):

* seeded regressions under /verif/seeded/*/patch.diff (written by independent sub-agents that saw only
  the property text; each confirmed to pass the suite and to break the behaviour) -- must be reported;
* the repository's own repaired defects: every patch in /verif/planned-fixes applied in reverse is the
  pre-fix code and the positive example for rules whose healthy instance count is zero -- must be reported;
* behaviour-preserving changes under /verif/refactors/*/patch.diff (independent sub-agents asked to refactor without changing
  behaviour, each confirmed by an equivalence script and the suite) -- must stay silent under every property;
* a hand-written catalogue (pydlsa/mutants.py) of breaking edits (must be reported, by the named rule) and
  behaviour-preserving rewrites (must stay silent: no violation and no analysis error).

A case whose edit no longer applies to the current tree is skipped and counted as such.  Any other
disagreement is a self-test failure: the property check then exits 2 (checker broken), never 1.
"""

import concurrent.futures as cf
import glob
import json
import os

from . import AnalysisError
from .loader import Repo
from . import udiff, report

VERIF = report.VERIF

# reversed fix -> (property, rule that must report it)
FIXES = [
    ('01-C20-window_score-restore-on-failure.patch', 'C20', 'C20.RESTORE'),
    ('02-C20-template_input-restore-on-failure.patch', 'C20', 'C20.RESTORE'),
    ('03-C06-specobjid-array-mjd.patch', 'C06', 'C06.PATH-OFFSET'),
    ('04-C12-set_use_caps-index-list.patch', 'C12', 'C12.ELEM-INDEX'),
    ('05-C12-cap_distance-clip.patch', 'C12', 'C12.ACOS-DOT'),
    ('06-C17-djs_reject-grow.patch', 'C17', 'C17.GROW'),
    ('07-C11-aesthetics-empty-selection.patch', 'C11', 'C11.EMPTY-AGG'),
    ('08-C11-combine1fiber-mask-dtype.patch', 'C11', 'C11.DTYPE-MIX'),
    ('09-C17-skymask-signed-masks.patch', 'C17', 'C17.SKY-CAST'),
    ('10-C02-yanny-type-exact-struct-name.patch', 'C02', 'C02.NAME-EXACT'),
    ('11-C09-maskpoints-integer-indices.patch', 'C09', 'C09.INT-SINK'),
    ('12-C09-cholesky_band-localise-failure.patch', 'C09', 'C09.SHAPE-JOIN'),
    ('13-C10-iterfit-loop-until-converged.patch', 'C10', 'C10.LOOP'),
    ('14-C08-everyn-positions-bounded.patch', 'C08', 'C08.EVERYN'),
    ('15-C11-combine1fiber-without-ivar.patch', 'C11', 'C11.NONE-DEREF'),
    ('16-C01-zero-row-table-with-array-column.patch', 'C01', 'C01.ZERO-ROW'),
    ('17-C07-set_maskbits-fold-keys.patch', 'C07', 'C07.CASEFOLD-STORE'),
    ('18-C12-set_use_caps-two-sided-complement-test.patch', 'C12', 'C12.DUP-SYM'),
    ('19-C10-iterfit-early-returns-mask.patch', 'C10', 'C10.MASK-EXITS'),
    ('20-C18-munu-arcsin-clamped.patch', 'C18', 'C18.ASIN-CLIP'),
    ('21-C19-refraction-zero-d-input.patch', 'C19', 'C19.SCALAR'),
    ('22-C06-sdss_objid-64-bit-shifts.patch', 'C06', 'C06.WIDE'),
    ('23-C08-everyn-from-sorted-abscissae.patch', 'C08', 'C08.EVERYN'),
    ('24-C13-flegendre-floating-basis.patch', 'C13', 'C13.FLOAT-BASIS'),
    ('25-C08-bspline-floating-work-arrays.patch', 'C08', 'C08.FLOAT-WORK'),
    ('26-C04-decbounds-exact-upper-edge.patch', 'C04', 'C04.GRID'),
    ('27-C09-maskpoints-empty-failure-list.patch', 'C09', 'C09.SCREEN'),
    ('28-C11-combine1fiber-bad-region-exact-zero.patch', 'C11', 'C11.SCALE-FREE'),
    ('29-C02-yanny-file-objects-without-mode.patch', 'C02', 'C02.BINARY'),
    ('30-C16-readspec-znum-row.patch', 'C16', 'C16.ROWSEL'),
    ('31-C17-aesthetics-mean-only-zero-ivar.patch', 'C17', 'C17.AESTH'),
    ('32-C02-char_length-empty-table.patch', 'C02', 'C02.CHARLEN'),
    ('33-C18-angles_to_x-floating-result.patch', 'C18', 'C18.FLOAT-OUT'),
    ('34-C18-x_to_angles-floating-result.patch', 'C18', 'C18.FLOAT-OUT'),
    ('35-C17-djs_maskinterp-floating-result.patch', 'C17', 'C17.FLOAT-OUT'),
    ('36-C17-djs_reject-integer-data.patch', 'C17', 'C17.FLOAT-OUT'),
    ('37-C13-traceset-floating-coefficients.patch', 'C13', 'C13.FLOAT-OUT'),
    ('38-C13-traceset-xy-floating-positions.patch', 'C13', 'C13.FLOAT-OUT'),
    ('39-C19-filter_thru-integer-flux.patch', 'C19', 'C19.FLOAT-OUT'),
    ('40-C09-cholesky_band-floating-factor.patch', 'C09', 'C09.FLOAT-OUT'),
    ('41-C09-cholesky_solve-floating-solution.patch', 'C09', 'C09.FLOAT-OUT'),
    ('42-C06-specobjid-mjd-offset-64-bit.patch', 'C06', 'C06.WIDE'),
    ('43-C02-char-columns-by-exact-base-type.patch', 'C02', 'C02.CHAR-EXACT'),
    ('44-C17-djs_reject-inmask-truth-values.patch', 'C17', 'C17.INMASK-TRUTH'),
    ('45-C16-readspec-topdir-for-files.patch', 'C16', 'C16.PATH-KW'),
    ('46-C16-readspec-loglam-over-padded-width.patch', 'C16', 'C16.LOGLAM-PAD'),
    ('47-C12-is_in_polygon-one-cap-rows.patch', 'C12', 'C12.ONE-CAP'),
    ('48-C02-get_token-blanks-before-closing-brace.patch', 'C02', 'C02.BRACE-TRIM'),
    ('49-C08-bspline-explicit-breakpoints-floating-copy.patch', 'C08', 'C08.COVER'),
    ('50-C08-everyn-at-least-two-breakpoints.patch', 'C08', 'C08.NBKPT'),
    ('51-C11-iterfit-requiren-counts-last-point.patch', 'C11', 'C10.REQUIREN'),
    ('52-C16-number-of-fibers-scalar-slot.patch', 'C16', 'C16.SCALAR-SLOT'),
    ('53-C16-latest-mjd-location-keywords-only.patch', 'C16', 'C16.KW-FORWARD'),
    ('54-C08-placed-float.patch', 'C08', 'C08.COVER'),
    ('55-C17-skymask-signext.patch', 'C17', 'C17.SKY-WIDTH'),
]


def _read(root, rel):
    with open(os.path.join(root, rel), encoding='utf-8') as fh:
        return fh.read()


def cases_for(prop, root):
    cases = []
    for d in sorted(glob.glob(os.path.join(VERIF, 'seeded', '*'))):
        mp = os.path.join(d, 'meta.json')
        if not os.path.exists(mp):
            continue
        meta = json.load(open(mp))
        if meta.get('breaks_property') != prop or meta.get('obsolete'):
            continue
        if not meta.get('expected_detected', meta.get('detected_by_quick_check')):
            continue
        cases.append({'id': 'seeded/' + meta['id'], 'kind': 'break', 'patch': os.path.join(d, 'patch.diff'), 'reverse': False,
                      'rules': meta.get('rules_fired') or []})
    for fn, p, rule in FIXES:
        if p == prop:
            cases.append({'id': 'prefix/' + fn, 'kind': 'break', 'patch': os.path.join(VERIF, 'planned-fixes', fn), 'reverse': True, 'rules': [rule]})
    # behaviour-preserving changes written by independent sub-agents (each confirmed equivalent on its own): silent under EVERY property
    for d in sorted(glob.glob(os.path.join(VERIF, 'refactors', '*'))):
        if os.path.exists(os.path.join(d, 'patch.diff')):
            cases.append({'id': 'refactor/' + os.path.basename(d), 'kind': 'keep', 'patch': os.path.join(d, 'patch.diff'), 'reverse': False})
    from . import mutants
    for m in mutants.CATALOGUE:
        if m['prop'] == prop:
            cases.append(dict(m, id='catalogue/' + m['id']))
    return cases


def build_overlay(case, root):
    if 'patch' in case:
        text = open(case['patch']).read()
        return udiff.apply(text, lambda rel: _read(root, rel), reverse=case.get('reverse', False))
    src = _read(root, case['rel'])
    for old, new in case['edits']:
        if src.count(old) < 1 or (src.count(old) != 1 and not case.get('all')):
            raise udiff.PatchError('edit anchor occurs %d times in %s: %r' % (src.count(old), case['rel'], old[:50]))
        src = src.replace(old, new)
    compile(src, case['rel'], 'exec')
    return {case['rel']: src}


def run_case(args):
    prop, case, root = args
    from .cli import evaluate
    try:
        overlay = build_overlay(case, root)
    except (udiff.PatchError, OSError) as e:
        return case['id'], 'skipped', 'does not apply to the current tree: %s' % e
    except SyntaxError as e:
        return case['id'], 'failed', 'edited module does not compile: %s' % e
    try:
        for rel, s in overlay.items():
            compile(s, rel, 'exec')
        repo = Repo(root, overlay)
        import io
        import contextlib
        buf = io.StringIO()
        with contextlib.redirect_stdout(buf):
            ctx, mod = evaluate(prop, repo)
        new, known = report.split_known(ctx.violations)
        rules = sorted({v.rule for v in new})
    except AnalysisError as e:
        if case['kind'] == 'keep':
            return case['id'], 'failed', 'harmless edit gives ANALYSIS-ERROR: %s' % str(e)[:160]
        return case['id'], 'failed', 'breaking edit gives ANALYSIS-ERROR instead of a violation: %s' % str(e)[:160]
    except SyntaxError as e:
        return case['id'], 'failed', 'edited module does not compile: %s' % e
    if case['kind'] == 'keep':
        if new:
            return case['id'], 'failed', 'harmless edit reported as violation by %s: %s' % (rules, new[0].msg[:120])
        return case['id'], 'silent', ''
    want = case.get('rules') or ([case['expect']] if case.get('expect') else [])
    if not new:
        return case['id'], 'failed', 'breaking edit not reported (expected %s)' % want
    if want and not (set(want) & set(rules)):
        return case['id'], 'failed', 'breaking edit reported by %s, expected one of %s' % (rules, want)
    return case['id'], 'killed', ','.join(rules)


def run_for(prop, repo):
    root = repo.root
    cases = cases_for(prop, root)
    res = {'mutants': 0, 'killed': 0, 'refactors': 0, 'silent': 0, 'skipped': [], 'failed': [], 'cases': []}
    jobs = [(prop, c, root) for c in cases]
    workers = min(16, max(1, len(jobs)))
    out = []
    if len(jobs) > 3:
        with cf.ProcessPoolExecutor(workers) as ex:
            out = list(ex.map(run_case, jobs))
    else:
        out = [run_case(j) for j in jobs]
    kinds = {c['id']: c['kind'] for c in cases}
    for cid, status, detail in out:
        if status == 'skipped':
            res['skipped'].append('%s: %s' % (cid, detail))
            continue
        if kinds[cid] == 'break':
            res['mutants'] += 1
            if status == 'killed':
                res['killed'] += 1
        else:
            res['refactors'] += 1
            if status == 'silent':
                res['silent'] += 1
        if status == 'failed':
            res['failed'].append('%s: %s' % (cid, detail))
        res['cases'].append({'id': cid, 'kind': kinds[cid], 'status': status, 'detail': detail})
    return res

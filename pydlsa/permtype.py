"""Order typestate for argsort / gather / scatter (DESIGN 3.5).

Every array variable carries a *set* of possible order tags (may-analysis over the CFG):

  ('ID',)            aligned with the caller's input, in the caller's order
  ('G', p)           gathered by permutation p (sorted order)
  ('PERM', p)        the permutation p itself (p = X.argsort(), X in caller order)
  ('IDX', t)         an index list / boolean mask over an array whose order tag is t
  ('N',)             order-neutral: fresh allocation, scalar, metadata
  ('T',)             unknown -- compatible with everything, never reported
  ('BAD', why, line) an operation that mixes orders

A report needs a *known* offending tag on some path; unknown never conflicts.
"""

import ast

from .astutil import src, call_name, dotted, walk_local
from .cfg import forward

ID = ('ID',)
N = ('N',)
T = ('T',)

ALLOC = {'zeros', 'ones', 'empty', 'full', 'arange', 'linspace', 'zeros_like', 'ones_like', 'empty_like', 'array', 'eye'}
ELEMENTWISE_METHODS = {'copy', 'astype', 'ravel', 'flatten', 'view', 'clip', 'round', 'conj'}
ELEMENTWISE_FUNCS = {'dot', 'sqrt', 'abs', 'absolute', 'exp', 'log', 'log10', 'sin', 'cos', 'where', 'minimum', 'maximum', 'asarray',
                     'isfinite', 'isnan', 'logical_and', 'logical_or', 'logical_not', 'float64', 'float32', 'interp', 'clip',
                     'atleast_1d', 'sign', 'square', 'power', 'fmod', 'mod', 'floor', 'ceil'}
METADATA_ATTRS = {'shape', 'size', 'dtype', 'ndim', 'nbytes', 'itemsize'}
REDUCERS = {'sum', 'min', 'max', 'mean', 'any', 'all', 'std', 'var', 'median', 'argmin', 'argmax', 'prod', 'len'}


def join_sets(a, b):
    return a | b


def _elementwise(tagsets, node):
    """Tag set of an element-wise combination of operands."""
    out = set()
    # cartesian but small
    def comb(t1, t2):
        if t1[0] == 'BAD':
            return t1
        if t2[0] == 'BAD':
            return t2
        if t1 == N:
            return t2
        if t2 == N:
            return t1
        if t1 == T:
            return t2      # unknown operands are compatible: scalars and look-ups do not disturb a known order
        if t2 == T:
            return t1
        if t1 == t2:
            return t1
        if t1[0] in ('PERM', 'IDX') or t2[0] in ('PERM', 'IDX'):
            return T
        return ('BAD', 'element-wise operation mixes %s and %s in `%s`' % (fmt(t1), fmt(t2), src(node)[:60]),
                getattr(node, 'lineno', None))
    cur = {N}
    for ts in tagsets:
        cur = {comb(a, b) for a in cur for b in ts}
    return frozenset(cur)


def fmt(t):
    if t == ID:
        return 'caller-order'
    if t == N:
        return 'order-neutral'
    if t == T:
        return 'unknown'
    if t[0] == 'G':
        return 'sorted-by-%s' % t[1]
    if t[0] == 'PERM':
        return 'permutation %s' % t[1]
    if t[0] == 'IDX':
        return 'index-into(%s)' % fmt(t[1])
    if t[0] == 'BAD':
        return 'MIXED(%s)' % t[1]
    if t[0] == 'SUB':
        return 'selection-of(%s)' % fmt(t[1])
    if t[0] == 'PSEL':
        return 'selection-of-permutation %s' % t[1]
    return str(t)


class OrderAnalysis:
    def __init__(self, fa, aligned_params, elementwise_calls=(), fresh_calls=(), tuple_aligned_calls=None):
        """fa: FA of the function; aligned_params: parameter names that are arrays in the caller's order;
        elementwise_calls: names of functions/methods whose array result is aligned with their array
        arguments (the repo's own per-point routines)."""
        self.fa = fa
        self.aligned = set(aligned_params)
        self.elementwise_calls = set(elementwise_calls)
        self.fresh_calls = set(fresh_calls)
        self.tuple_aligned = dict(tuple_aligned_calls or {})      # call name -> positions of the result tuple aligned with the args
        self.IN = None

    # ---- expression tags ---------------------------------------------------------------
    def tags(self, e, st, target=None):
        if isinstance(e, ast.Constant):
            return frozenset([N])
        if isinstance(e, ast.Name):
            if e.id in st:
                return st[e.id]
            return frozenset([T])
        if isinstance(e, ast.Attribute):
            if e.attr in METADATA_ATTRS:
                return frozenset([N])
            if e.attr == 'T':
                return self.tags(e.value, st)
            return frozenset([T])
        if isinstance(e, (ast.Tuple, ast.List)):
            return frozenset([T])
        if isinstance(e, ast.UnaryOp):
            return self.tags(e.operand, st)
        if isinstance(e, (ast.BinOp,)):
            return _elementwise([self.tags(e.left, st), self.tags(e.right, st)], e)
        if isinstance(e, ast.BoolOp):
            return _elementwise([self.tags(v, st) for v in e.values], e)
        if isinstance(e, ast.Compare):
            return _elementwise([self.tags(e.left, st)] + [self.tags(c, st) for c in e.comparators], e)
        if isinstance(e, ast.IfExp):
            return self.tags(e.body, st) | self.tags(e.orelse, st)
        if isinstance(e, ast.Subscript):
            return self._subscript(e, st)
        if isinstance(e, ast.Call):
            return self._call(e, st, target)
        return frozenset([T])

    def _call(self, e, st, target):
        nm = call_name(e)
        f = e.func
        if nm == 'argsort':
            base = f.value if isinstance(f, ast.Attribute) and dotted(f.value) not in ('np', 'numpy') else (e.args[0] if e.args else None)
            if base is None:
                return frozenset([T])
            out = set()
            for t in self.tags(base, st):
                if t == ID and target is not None:
                    out.add(('PERM', target))
                elif t[0] == 'BAD':
                    out.add(t)
                else:
                    out.add(T)
            return frozenset(out)
        if nm == 'nonzero':
            base = f.value if isinstance(f, ast.Attribute) else (e.args[0] if e.args else None)
            if base is not None:
                return frozenset(('IDX', t) if t[0] in ('ID', 'G') else (t if t[0] == 'BAD' else T) for t in self.tags(base, st))
        if nm in self.fresh_calls:
            return frozenset([N])
        if nm in ALLOC and isinstance(f, ast.Attribute) and dotted(f.value) in ('np', 'numpy'):
            if nm in ('array', 'zeros_like', 'ones_like', 'empty_like') and e.args:
                if nm == 'array':
                    return self.tags(e.args[0], st) if not isinstance(e.args[0], (ast.List, ast.Tuple)) else frozenset([N])
            return frozenset([N])
        if nm in REDUCERS:
            return frozenset([N])
        if isinstance(f, ast.Attribute) and nm in ELEMENTWISE_METHODS and dotted(f.value) not in ('np', 'numpy'):
            return self.tags(f.value, st)
        if nm in ELEMENTWISE_FUNCS or nm in self.elementwise_calls:
            args = list(e.args) + [k.value for k in e.keywords if k.arg not in ('dtype', 'out', 'axis', 'const', 'order', 'left', 'right')]
            if nm in ('interp', 'dot'):
                args = args[:1]       # result aligned with the abscissae asked for / with the rows of the first factor
            if isinstance(f, ast.Attribute) and nm in self.elementwise_calls and dotted(f.value) not in ('np', 'numpy', 'self'):
                pass
            return _elementwise([self.tags(a, st) for a in args], e) if args else frozenset([T])
        return frozenset([T])

    def _subscript(self, e, st):
        base = self.tags(e.value, st)
        idx = e.slice
        first = idx.elts[0] if isinstance(idx, ast.Tuple) and idx.elts else idx
        if isinstance(e.value, ast.Call) and call_name(e.value) in ('nonzero', 'where') and isinstance(first, ast.Constant):
            return base       # X.nonzero()[0]
        if isinstance(first, ast.Slice):
            if first.lower is None and first.upper is None and first.step is None:
                # [:, k] keeps the row alignment
                return base
            # a contiguous block of an aligned array stays in the same order space
            return frozenset(t if t[0] in ('BAD', 'ID', 'G', 'N', 'SUB') else T for t in base)
        if isinstance(first, ast.Constant):
            return frozenset([N]) if not isinstance(idx, ast.Tuple) else frozenset([T])
        it = self.tags(first, st)
        out = set()
        for b in base:
            for i in it:
                if i[0] in ('ID', 'G'):
                    i = ('IDX', i)            # an aligned (boolean) array used as a mask
                if b[0] == 'BAD':
                    out.add(b)
                elif i[0] == 'BAD':
                    out.add(i)
                elif i[0] == 'PERM':
                    if b == ID:
                        out.add(('G', i[1]))
                    elif b[0] == 'G':
                        out.add(('BAD', '`%s` gathers by %s an array that is already sorted by %s (a second gather is not the inverse permutation)'
                                 % (src(e)[:50], i[1], b[1]), getattr(e, 'lineno', None)))
                    else:
                        out.add(b if b == N else T)
                elif i[0] == 'PSEL':
                    if b == ID:
                        out.add(('SUB', ('G', i[1])))
                    elif b[0] == 'G':
                        out.add(('BAD', '`%s` applies a selection of permutation %s to an array already sorted by %s' % (src(e)[:50], i[1], b[1]),
                                 getattr(e, 'lineno', None)))
                    else:
                        out.add(b if b == N else T)
                elif i[0] == 'IDX':
                    space = i[1]
                    if b[0] in ('ID', 'G') and space[0] in ('ID', 'G') and b != space:
                        out.add(('BAD', '`%s` indexes a %s array with an index list / mask over a %s array' % (src(e)[:50], fmt(b), fmt(space)),
                                 getattr(e, 'lineno', None)))
                    elif b[0] == 'PERM' and space == ('G', b[1]):
                        out.add(('PSEL', b[1]))       # positions in caller order of a selection made in sorted space
                    elif b[0] in ('ID', 'G'):
                        out.add(('SUB', b))
                    else:
                        out.add(T if b != N else N)
                else:
                    out.add(T if b != N else N)
        return frozenset(out)

    # ---- statements ----------------------------------------------------------------------
    def transfer(self, n, st, label):
        if label == 'exc':
            return st
        if n.kind == 'for':
            s = n.stmt
            if label == 'iter':
                out = dict(st)
                for x in ast.walk(s.target):
                    if isinstance(x, ast.Name):
                        out[x.id] = frozenset([T])
                return out
            return st
        if n.kind != 'stmt':
            return st
        s = n.stmt
        out = st
        if isinstance(s, ast.Assign):
            for t in s.targets:
                out = self._assign(t, s.value, out, s)
        elif isinstance(s, ast.AugAssign):
            if isinstance(s.target, ast.Name):
                out = dict(out)
                out[s.target.id] = _elementwise([self.tags(s.target, st), self.tags(s.value, st)], s)
            elif isinstance(s.target, ast.Subscript):
                out = self._assign(s.target, s.value, out, s)
        elif isinstance(s, ast.AnnAssign) and s.value is not None:
            out = self._assign(s.target, s.value, out, s)
        return out

    def _assign(self, t, value, st, stmt):
        out = dict(st)
        if isinstance(t, ast.Name):
            out[t.id] = self.tags(value, st, target=t.id)
            return out
        if isinstance(t, (ast.Tuple, ast.List)):
            pos = ()
            if isinstance(value, ast.Call) and call_name(value) in self.tuple_aligned:
                pos = self.tuple_aligned[call_name(value)]
                args = list(value.args) + [k.value for k in value.keywords if k.arg not in ('lower', 'upper', 'groupbadpix', 'maxiter', 'const')]
                al = _elementwise([self.tags(a, st) for a in args], value) if args else frozenset([T])
            for k, x in enumerate(t.elts):
                if isinstance(x, ast.Name):
                    out[x.id] = al if k in pos else frozenset([T])
            return out
        if isinstance(t, ast.Subscript) and isinstance(t.value, ast.Name):
            name = t.value.id
            cur = st.get(name, frozenset([T]))
            idx = t.slice
            first = idx.elts[0] if isinstance(idx, ast.Tuple) and idx.elts else idx
            vt = self.tags(value, st)
            if isinstance(first, (ast.Slice, ast.Constant)):
                # partial / plain store: the array keeps its tag, neutral arrays take the value's
                if isinstance(first, ast.Slice):
                    out[name] = _elementwise([cur, frozenset(t for t in vt if t[0] != 'SUB') or frozenset([N])], stmt)
                return out
            it = self.tags(first, st)
            new = set()
            for c in cur:
                for i in it:
                    if i[0] in ('ID', 'G'):
                        i = ('IDX', i)
                    for v in vt:
                        if c[0] == 'BAD' or i[0] == 'BAD' or v[0] == 'BAD':
                            new.add(next(x for x in (c, i, v) if x[0] == 'BAD'))
                        elif i[0] == 'PERM':
                            p = i[1]
                            if v == ('G', p) or v == N:
                                new.add(ID)       # a full scatter by a permutation overwrites every element: strong update
                            elif v == ID:
                                new.add(('BAD', '`%s` scatters caller-order values by %s (that is the inverse permutation, not the un-sort)'
                                         % (src(stmt)[:60], p), stmt.lineno))
                            elif v[0] == 'G':
                                new.add(('BAD', '`%s` scatters values sorted by %s through %s' % (src(stmt)[:60], v[1], p), stmt.lineno))
                            else:
                                new.add(T)
                        elif i[0] == 'IDX':
                            space = i[1]
                            if c[0] in ('ID', 'G') and space[0] in ('ID', 'G') and c != space:
                                new.add(('BAD', '`%s` stores into a %s array through an index list over a %s array'
                                         % (src(stmt)[:60], fmt(c), fmt(space)), stmt.lineno))
                            elif c == N and space[0] in ('ID', 'G'):
                                new.add(space)
                            else:
                                new.add(c)
                        else:
                            new.add(c)
            out[name] = frozenset(new)
            return out
        return out

    def run(self):
        cfg = self.fa.cfg
        init = {}
        a = self.fa.node.args
        for arg in a.posonlyargs + a.args + a.kwonlyargs:
            init[arg.arg] = frozenset([ID]) if arg.arg in self.aligned else frozenset([T])

        def join(x, y):
            if x is y:
                return x
            out = dict(x)
            for k, v in y.items():
                out[k] = (out[k] | v) if k in out else (v | frozenset([T]))
            for k in x:
                if k not in y:
                    out[k] = x[k] | frozenset([T])
            return out
        self.IN = forward(cfg, init, self.transfer, join)
        return self

    def tags_at(self, expr, at=None):
        """Tag set of expr evaluated at the CFG node(s) of `at` (default: where expr occurs)."""
        res = set()
        for n in self.fa.cfg.node_of_expr(at if at is not None else expr):
            st = self.IN.get(n.id)
            if st is None:
                continue
            res |= self.tags(expr, st)
        return frozenset(res)

    def all_bad(self):
        """Every BAD tag that appears anywhere (for in-function mixing reports)."""
        out = {}
        for n in self.fa.cfg.nodes:
            st = self.IN.get(n.id)
            if not st:
                continue
            for k, ts in st.items():
                for t in ts:
                    if t[0] == 'BAD':
                        out[(t[1], t[2])] = k
        return out

"""Obligation bookkeeping, VIOLATION / KNOWN-FINDING lines, replay files, evidence JSON."""

import json
import os
import re
import time

from . import AnalysisError
from .astutil import src

VERIF = os.path.dirname(os.path.dirname(os.path.abspath(__file__)))
EVIDENCE_DIR = os.environ.get('PYDLSA_EVIDENCE_DIR') or os.path.join(VERIF, 'evidence')
REPLAY_DIR = os.path.join(EVIDENCE_DIR, 'replay')
KNOWN_FILE = os.path.join(VERIF, 'known_findings.json')

TRUSTED_BASE = [
    "CPython ast module of the repository's own interpreter (/venv/bin/python)",
    "frozen facts about the numpy/scipy/astropy entry points the rules mention (allocation, views, in-place methods, NEP 50 promotion in NumPy 2)",
    "dict / str / int semantics of Python",
    "the pydlsa engine itself (CFG construction, dominators, reaching definitions), exercised by the self-test catalogue in the thorough tier",
]
ASSUMPTIONS = [
    "no monkey-patching, exec/eval, setattr-by-string or metaclass tricks in the analysed modules (loader fails closed on exec/eval in anchored functions)",
    "external libraries do not modify os.environ and do not write into arrays passed to the listed pure entry points",
    "only the non-test package sources under /repo/pydl are analysed; numerical behaviour is NOT decided (see explanation)",
]


def norm_construct(s):
    return re.sub(r'\s+', ' ', s or '').strip()


class Violation:
    def __init__(self, prop, rule, func, node, construct, msg, extra=None):
        self.prop = prop
        self.rule = rule
        self.rel = func.rel if func is not None else (extra or {}).get('file', '?')
        self.function = func.qualname if func is not None else (extra or {}).get('function', '?')
        self.line = getattr(node, 'lineno', None) if node is not None else None
        if self.line is None and func is not None:
            self.line = func.node.lineno
        self.construct = norm_construct(construct if isinstance(construct, str) else src(construct))
        self.msg = msg
        self.extra = extra or {}
        self.digest = func.digest() if func is not None else None

    def key(self):
        return (self.prop, self.rule, self.function, self.construct)

    def as_dict(self):
        d = {'property': self.prop, 'rule': self.rule, 'file': self.rel, 'line': self.line,
             'function': self.function, 'construct': self.construct, 'message': self.msg,
             'tree_digest': self.digest}
        d.update(self.extra)
        return d

    def human(self):
        return '%s:%s %s  %s  %s   [%s]' % (self.rel, self.line, self.function, self.rule, self.msg,
                                            self.construct[:160])


class Ctx:
    """One evaluation of one property's rules against one Repo."""

    def __init__(self, prop, repo, tier='quick'):
        self.prop = prop
        self.repo = repo
        self.tier = tier
        self.obligations = []       # dicts: rule, site, fact, ok
        self.violations = []
        self.functions = {}
        self.rule_counts = {}
        self.notes = {}
        self.cross_reference = []

    # ---- recording -----------------------------------------------------------------
    def cover(self, *funcs):
        for f in funcs:
            if f is None:
                continue
            self.functions[(f.rel, f.qualname)] = {
                'function': f.qualname, 'file': f.rel, 'lines': list(f.span()), 'ast_digest': f.digest()}

    def ok(self, rule, func, node, fact):
        self.cover(func)
        self.rule_counts[rule] = self.rule_counts.get(rule, 0) + 1
        self.obligations.append({'rule': rule, 'site': func.site(node) if func else str(node),
                                 'fact': fact if isinstance(fact, str) else src(fact), 'ok': True})

    def fail(self, rule, func, node, construct, msg, **extra):
        self.cover(func)
        self.rule_counts[rule] = self.rule_counts.get(rule, 0) + 1
        v = Violation(self.prop, rule, func, node, construct, msg, extra)
        self.obligations.append({'rule': rule, 'site': func.site(node) if func else '?',
                                 'fact': msg, 'ok': False})
        self.violations.append(v)
        return v

    def check(self, rule, cond, func, node, fact, msg=None, construct=None, **extra):
        """Record one obligation: discharged when cond, else a violation."""
        if cond:
            self.ok(rule, func, node, fact)
        else:
            self.fail(rule, func, node, construct if construct is not None else (node if node is not None else fact),
                      msg or ('obligation not met: %s' % (fact if isinstance(fact, str) else src(fact))), **extra)
        return bool(cond)

    def need(self, cond, msg):
        if not cond:
            raise AnalysisError('%s: %s' % (self.prop, msg))

    def xref(self, rule, func, node, text):
        """Package-wide sweep hit outside the property's scope: listed, never failing."""
        self.cross_reference.append({'rule': rule, 'site': func.site(node), 'text': text})

    def enforce_floors(self, floors):
        for rule, n in floors.items():
            got = self.rule_counts.get(rule, 0)
            if got < n:
                raise AnalysisError('%s: rule %s matched %d instance(s), fewer than the %d confirmed by hand '
                                    '(anchors drifted or idiom not recognised)' % (self.prop, rule, got, n))


def load_known():
    if not os.path.exists(KNOWN_FILE):
        return []
    with open(KNOWN_FILE) as fh:
        data = json.load(fh)
    return data.get('findings', [])


def split_known(violations):
    """(new, known) by rule + function + normalised construct."""
    known = [k for k in load_known() if k.get('status') == 'known']
    keys = {(k['property'], k['rule'], k['function'], norm_construct(k['construct'])): k for k in known}
    new, old = [], []
    for v in violations:
        if v.key() in keys:
            old.append((v, keys[v.key()]))
        else:
            new.append(v)
    return new, old


def write_replay(v, n):
    os.makedirs(REPLAY_DIR, exist_ok=True)
    path = os.path.join(REPLAY_DIR, '%s-%d.json' % (v.prop, n))
    with open(path, 'w') as fh:
        json.dump(v.as_dict(), fh, indent=1, default=str)
    return path


def write_evidence(prop, tier, ctx, meta, wall, new_violations, known_hits, selftest=None, seed=0):
    os.makedirs(EVIDENCE_DIR, exist_ok=True)
    obligations = ctx.obligations
    distinct = {(o['rule'], o['site'], o['fact']) for o in obligations if o['fact']}
    rules = {}
    for o in obligations:
        r = rules.setdefault(o['rule'], {'instances': 0, 'discharged': 0})
        r['instances'] += 1
        r['discharged'] += 1 if o['ok'] else 0
    for r, fl in meta.get('floors', {}).items():
        rules.setdefault(r, {'instances': 0, 'discharged': 0})['floor'] = fl
    samples = []
    seen_rules = set()
    for o in obligations:       # one sample per rule first, then fill up
        if o['rule'] not in seen_rules:
            seen_rules.add(o['rule'])
            samples.append(o)
    for o in obligations:
        if len(samples) >= 40:
            break
        if o not in samples:
            samples.append(o)
    cov = {
        'explanation': meta.get('explanation', ''),
        'obligations': len(obligations),
        'discharged': sum(1 for o in obligations if o['ok']),
        'evaluations': len(obligations),
        'distinct_nontrivial': len(distinct),
        'rule': 'one obligation per (rule, site) instance extracted from the current source of /repo; '
                'non-trivial = carries a non-empty extracted fact; distinct by (rule, site, fact)',
        'samples': samples,
        'checker_cmd': './check --property %s --tier %s' % (prop, tier),
        'trusted_base': TRUSTED_BASE + meta.get('trusted_base', []),
        'functions': sorted(ctx.functions.values(), key=lambda d: (d['file'], d['lines'][0])),
        'rules': rules,
        'call_sites': ctx.notes.get('call_sites', 0),
        'modules_parsed': len(ctx.repo.modules),
        'tree_digest': ctx.repo.digest(),
        'exhaustive': False,
        'known_findings': [dict(v.as_dict(), what=k.get('what')) for v, k in known_hits],
        'violation_details': [v.as_dict() for v in new_violations],
    }
    for k, v in ctx.notes.items():
        if k not in cov:
            cov[k] = v
    if ctx.cross_reference:
        cov['cross_reference'] = ctx.cross_reference
    if selftest is not None:
        cov['selftest'] = selftest
    ev = {
        'property_id': prop, 'tier': tier, 'seed': seed, 'level': 'other',
        'coverage': cov,
        'assumptions': ASSUMPTIONS + meta.get('assumptions', []),
        'wall_s': round(wall, 3),
        'violations': len(new_violations),
    }
    path = os.path.join(EVIDENCE_DIR, '%s.json' % prop)
    tmp = path + '.tmp'
    with open(tmp, 'w') as fh:
        json.dump(ev, fh, indent=1, default=str)
    os.replace(tmp, path)
    return path


def write_error_evidence(prop, tier, msg, wall, seed=0):
    """An ANALYSIS-ERROR run still rewrites the evidence file, saying that nothing was decided."""
    os.makedirs(EVIDENCE_DIR, exist_ok=True)
    ev = {'property_id': prop, 'tier': tier, 'seed': seed, 'level': 'other',
          'coverage': {'explanation': 'ANALYSIS-ERROR: the checker could not evaluate the property on this tree '
                                      '(nothing is claimed): ' + msg,
                       'obligations': 0, 'discharged': 0, 'evaluations': 0, 'distinct_nontrivial': 0,
                       'samples': [], 'analysis_error': msg},
          'assumptions': ASSUMPTIONS, 'wall_s': round(wall, 3), 'violations': 0}
    with open(os.path.join(EVIDENCE_DIR, '%s.json' % prop), 'w') as fh:
        json.dump(ev, fh, indent=1)

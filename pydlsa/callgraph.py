"""Whole-package call graph over resolved callees (library-sized: built on every run)."""

import ast

from .astutil import walk_local


class CallGraph:
    def __init__(self, repo):
        self.repo = repo
        self.calls = {}      # Func -> list of (call node, callee Func)
        self.callers = {}    # Func -> set of Func
        self.n_calls = 0
        self.n_resolved = 0
        for f in repo.all_funcs():
            out = []
            for n in walk_local(f.node):
                if isinstance(n, ast.Call):
                    self.n_calls += 1
                    g = repo.resolve_call(n, f)
                    if g is not None:
                        self.n_resolved += 1
                        out.append((n, g))
                        self.callers.setdefault(g, set()).add(f)
            self.calls[f] = out

    def callees(self, f):
        return [g for _, g in self.calls.get(f, [])]

    def closure_callers(self, seeds):
        """All functions from which some seed is reachable (seeds included)."""
        out = set(seeds)
        work = list(seeds)
        while work:
            g = work.pop()
            for f in self.callers.get(g, ()):
                if f not in out:
                    out.add(f)
                    work.append(f)
        return out

    def closure_callees(self, seeds):
        out = set(seeds)
        work = list(seeds)
        while work:
            f = work.pop()
            for g in self.callees(f):
                if g not in out:
                    out.add(g)
                    work.append(g)
        return out

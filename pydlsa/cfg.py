"""Statement-level control-flow graph with exceptional edges, dominators, a generic forward
dataflow solver and reaching definitions.

Nodes: one per simple statement, one per test of if/while, one per for-header, one per
with-header, plus ENTRY, EXIT_RETURN, EXIT_RAISE.  `finally` bodies are copied once per
continuation kind (fall-through, exception, return, break, continue) so that path facts stay
exact; unreachable copies are pruned.

May-raise model (DESIGN 3.1): a node may raise iff it contains a call, subscript, attribute
access, arithmetic, a comparison, raise/assert/del/import.  A typed handler receives the edge
*and* the exception also propagates outward; bare / BaseException (and, when
`exception_is_catchall`, Exception) handlers are catch-all.
"""

import ast

from . import AnalysisError
from .astutil import walk_local, dotted

ENTRY, EXIT_RETURN, EXIT_RAISE = 'entry', 'exit_return', 'exit_raise'


class Node:
    __slots__ = ('id', 'kind', 'stmt', 'expr', 'succ', 'pred', 'copy_tag')

    def __init__(self, nid, kind, stmt=None, expr=None, copy_tag=''):
        self.id = nid
        self.kind = kind
        self.stmt = stmt
        self.expr = expr
        self.succ = []      # (node, label)
        self.pred = []      # (node, label)
        self.copy_tag = copy_tag

    @property
    def lineno(self):
        n = self.expr if self.expr is not None else self.stmt
        return getattr(n, 'lineno', None)

    def __repr__(self):
        return '<%s#%d L%s>' % (self.kind, self.id, self.lineno)


class _K:
    """Continuations."""
    __slots__ = ('next', 'brk', 'cont', 'ret', 'exc')

    def __init__(self, next, brk, cont, ret, exc):
        self.next, self.brk, self.cont, self.ret, self.exc = next, brk, cont, ret, exc

    def replace(self, **kw):
        k = _K(self.next, self.brk, self.cont, self.ret, self.exc)
        for a, v in kw.items():
            setattr(k, a, v)
        return k


def _known_nonempty(it):
    if isinstance(it, (ast.Tuple, ast.List)) and it.elts:
        return True
    if isinstance(it, ast.Call) and isinstance(it.func, ast.Name) and it.func.id == 'range' and not it.keywords:
        vals = []
        for a in it.args:
            if isinstance(a, ast.Constant) and isinstance(a.value, int):
                vals.append(a.value)
            else:
                return False
        if len(vals) == 1:
            return vals[0] >= 1
        if len(vals) == 2:
            return vals[1] > vals[0]
    return False


def default_may_raise(node):
    """node: stmt or expr evaluated at one CFG node."""
    if isinstance(node, (ast.Raise, ast.Assert, ast.Delete, ast.Import, ast.ImportFrom)):
        return True
    for n in walk_local(node):
        if isinstance(n, (ast.Call, ast.Subscript, ast.Attribute, ast.BinOp, ast.Compare,
                          ast.UnaryOp, ast.Await, ast.Yield, ast.YieldFrom, ast.Starred,
                          ast.ListComp, ast.DictComp, ast.SetComp, ast.GeneratorExp)):
            if isinstance(n, ast.UnaryOp) and isinstance(n.op, ast.Not):
                continue
            return True
    return False


def _handler_catchall(h, exception_is_catchall):
    if h.type is None:
        return True
    names = []
    t = h.type
    for e in (t.elts if isinstance(t, ast.Tuple) else [t]):
        names.append(dotted(e) or '')
    for nm in names:
        base = nm.split('.')[-1]
        if base == 'BaseException':
            return True
        if base == 'Exception' and exception_is_catchall:
            return True
    return False


class CFG:
    def __init__(self, fn, may_raise=None, exception_is_catchall=True):
        """fn: ast.FunctionDef.  may_raise(stmt_or_expr) -> bool overrides the model for
        individual nodes when it returns a bool (None = use the default)."""
        self.fn = fn
        self.nodes = []
        self._user_may_raise = may_raise
        self._catchall = exception_is_catchall
        self.entry = self._new(ENTRY, fn)
        self.exit_return = self._new(EXIT_RETURN, fn)
        self.exit_raise = self._new(EXIT_RAISE, fn)
        k = _K(self.exit_return, None, None, self.exit_return, self.exit_raise)
        first = self._seq(fn.body, k, '')
        self._edge(self.entry, first, 'next')
        self._prune()
        self.by_ast = {}
        for n in self.nodes:
            key = n.expr if n.expr is not None else n.stmt
            self.by_ast.setdefault(id(key), []).append(n)
            if n.expr is not None:
                self.by_ast.setdefault(id(n.stmt), []).append(n)
        self._dom = None
        self._pdom = None

    # ---- construction --------------------------------------------------------------
    def _new(self, kind, stmt=None, expr=None, tag=''):
        n = Node(len(self.nodes), kind, stmt, expr, tag)
        self.nodes.append(n)
        return n

    def _edge(self, a, b, label):
        if b is None:
            raise AnalysisError('control flow target missing at line %s (break/continue outside loop?)'
                                % a.lineno)
        a.succ.append((b, label))
        b.pred.append((a, label))

    def _raises(self, node):
        if self._user_may_raise is not None:
            r = self._user_may_raise(node)
            if r is not None:
                return r
        return default_may_raise(node)

    def _seq(self, stmts, k, tag):
        nxt = k.next
        for s in reversed(stmts):
            nxt = self._stmt(s, k.replace(next=nxt), tag)
        return nxt

    def _stmt(self, s, k, tag):
        if isinstance(s, ast.If):
            t = self._new('test', s, s.test, tag)
            self._edge(t, self._seq(s.body, k, tag), True)
            self._edge(t, self._seq(s.orelse, k, tag) if s.orelse else k.next, False)
            if self._raises(s.test):
                self._edge(t, k.exc, 'exc')
            return t
        if isinstance(s, ast.While):
            t = self._new('test', s, s.test, tag)
            after = self._seq(s.orelse, k, tag) if s.orelse else k.next
            body = self._seq(s.body, k.replace(next=t, brk=k.next, cont=t), tag)
            const_true = isinstance(s.test, ast.Constant) and bool(s.test.value)
            self._edge(t, body, True)
            if not const_true:
                self._edge(t, after, False)
            if self._raises(s.test):
                self._edge(t, k.exc, 'exc')
            return t
        if isinstance(s, (ast.For, ast.AsyncFor)):
            it = self._new('iterinit', s, s.iter, tag)      # evaluates the iterable once
            h = self._new('for', s, None, tag)               # binds the target / decides exhaustion
            if self._raises(s.iter):
                self._edge(it, k.exc, 'exc')
            after = self._seq(s.orelse, k, tag) if s.orelse else k.next
            body = self._seq(s.body, k.replace(next=h, brk=k.next, cont=h), tag)
            self._edge(h, body, 'iter')
            self._edge(h, after, 'exhaust')
            self._edge(h, k.exc, 'exc')     # next() of an arbitrary iterator may raise
            if _known_nonempty(s.iter):
                # `for k in range(2)` / a non-empty literal is known to execute: the first header
                # cannot take the exhaust edge (DESIGN 3.2)
                h0 = self._new('for', s, None, tag)
                self._edge(it, h0, 'next')
                self._edge(h0, body, 'iter')
            else:
                self._edge(it, h, 'next')
            return it
        if isinstance(s, (ast.With, ast.AsyncWith)):
            w = self._new('with', s, None, tag)
            self._edge(w, self._seq(s.body, k, tag), 'next')
            self._edge(w, k.exc, 'exc')
            return w
        if isinstance(s, ast.Try) or (hasattr(ast, 'TryStar') and isinstance(s, ast.TryStar)):
            return self._try(s, k, tag)
        if isinstance(s, ast.Return):
            n = self._new('stmt', s, None, tag)
            self._edge(n, k.ret, 'return')
            if s.value is not None and self._raises(s.value):
                self._edge(n, k.exc, 'exc')
            return n
        if isinstance(s, ast.Raise):
            n = self._new('stmt', s, None, tag)
            self._edge(n, k.exc, 'exc')
            return n
        if isinstance(s, ast.Break):
            n = self._new('stmt', s, None, tag)
            self._edge(n, k.brk, 'break')
            return n
        if isinstance(s, ast.Continue):
            n = self._new('stmt', s, None, tag)
            self._edge(n, k.cont, 'continue')
            return n
        if isinstance(s, (ast.FunctionDef, ast.AsyncFunctionDef, ast.ClassDef)):
            n = self._new('stmt', s, None, tag)      # a definition: opaque, does not raise
            self._edge(n, k.next, 'next')
            return n
        if isinstance(s, (ast.Assign, ast.AugAssign, ast.AnnAssign, ast.Expr, ast.Delete, ast.Import,
                          ast.ImportFrom, ast.Global, ast.Nonlocal, ast.Pass, ast.Assert)):
            n = self._new('stmt', s, None, tag)
            self._edge(n, k.next, 'next')
            if self._raises(s):
                self._edge(n, k.exc, 'exc')
            return n
        raise AnalysisError('statement kind %s at line %s is not modelled by the CFG builder'
                            % (type(s).__name__, getattr(s, 'lineno', '?')))

    def _try(self, s, k, tag):
        if s.finalbody:
            # one copy of the finally body per continuation kind
            def fin(target, kind):
                if target is None:
                    return None
                return self._seq(s.finalbody, k.replace(next=target), tag + '/fin-' + kind)
            inner = _K(fin(k.next, 'next'), fin(k.brk, 'break'), fin(k.cont, 'continue'),
                       fin(k.ret, 'return'), fin(k.exc, 'exc'))
        else:
            inner = k
        # handlers run with the outer (post-finally) continuations
        catchall = False
        dispatch = self._new('dispatch', s, None, tag)
        for h in s.handlers:
            hn = self._new('except', h, None, tag)
            self._edge(dispatch, hn, 'exc')
            self._edge(hn, self._seq(h.body, inner, tag), 'next')
            if _handler_catchall(h, self._catchall):
                catchall = True
                break
        if not catchall:
            self._edge(dispatch, inner.exc, 'exc')
        after_body = self._seq(s.orelse, inner, tag) if s.orelse else inner.next
        body_k = inner.replace(next=after_body, exc=dispatch if s.handlers else inner.exc)
        if not s.handlers:
            # pure try/finally: no dispatch needed
            return self._seq(s.body, body_k, tag)
        return self._seq(s.body, body_k, tag)

    def _prune(self):
        seen = set()
        stack = [self.entry]
        while stack:
            n = stack.pop()
            if n.id in seen:
                continue
            seen.add(n.id)
            for m, _ in n.succ:
                stack.append(m)
        keep = [n for n in self.nodes if n.id in seen or n in (self.exit_return, self.exit_raise)]
        for n in keep:
            n.pred = [(p, l) for (p, l) in n.pred if p.id in seen]
        self.nodes = keep
        for i, n in enumerate(self.nodes):
            n.id = i

    # ---- queries -------------------------------------------------------------------
    def nodes_of(self, astnode):
        """CFG nodes (all finally-copies) for a statement or test expression."""
        return self.by_ast.get(id(astnode), [])

    def node_of_expr(self, expr):
        """CFG nodes whose statement/test contains the expression."""
        n = expr
        while n is not None:
            if id(n) in self.by_ast:
                # for compound statements only the header node evaluates header expressions
                return self.by_ast[id(n)]
            n = getattr(n, '_parent', None)
        return []

    def dominators(self):
        if self._dom is None:
            self._dom = _dominators(self.nodes, self.entry, lambda n: [p for p, _ in n.pred])
        return self._dom

    def dominates(self, a, b):
        """CFG node a dominates CFG node b."""
        return a.id in self.dominators()[b.id]

    def ast_dominates(self, a_ast, b_ast):
        """Every CFG copy of b is dominated by some copy of a."""
        A = self.nodes_of(a_ast)
        B = self.node_of_expr(b_ast)
        if not A or not B:
            return False
        dom = self.dominators()
        return all(any(a.id in dom[b.id] for a in A) for b in B)

    def edge_dominates(self, test_ast, label, b_ast):
        """Every path from ENTRY to (each copy of) b takes the `label` branch of (some copy of)
        the test.  Computed by deleting those edges and testing reachability."""
        T = self.nodes_of(test_ast)
        T = [t for t in T if t.kind == 'test']
        B = self.node_of_expr(b_ast)
        if not T or not B:
            return False
        banned = set()
        for t in T:
            for m, l in t.succ:
                if l == label or l is label:
                    banned.add((t.id, m.id, str(l)))
        seen = set()
        stack = [self.entry]
        while stack:
            n = stack.pop()
            if n.id in seen:
                continue
            seen.add(n.id)
            for m, l in n.succ:
                if (n.id, m.id, str(l)) in banned:
                    continue
                stack.append(m)
        return all(b.id not in seen for b in B)

    def reachable_from(self, starts, avoid=(), labels_excluded=()):
        """Nodes reachable from `starts` (CFG nodes) without passing through `avoid` nodes."""
        avoid_ids = {n.id for n in avoid}
        seen = set()
        stack = list(starts)
        while stack:
            n = stack.pop()
            if n.id in seen or n.id in avoid_ids:
                continue
            seen.add(n.id)
            for m, l in n.succ:
                if l in labels_excluded:
                    continue
                stack.append(m)
        return seen

    def every_path_passes(self, a_nodes, through_nodes, exits):
        """Every path from any of a_nodes' successors to any node in `exits` passes through one of
        through_nodes."""
        starts = []
        for a in a_nodes:
            starts.extend(m for m, _ in a.succ)
        seen = self.reachable_from(starts, avoid=through_nodes)
        return not any(e.id in seen for e in exits)

    def paths_summary(self):
        return {'nodes': len(self.nodes), 'edges': sum(len(n.succ) for n in self.nodes)}


def _dominators(nodes, entry, preds):
    allids = {n.id for n in nodes}
    dom = {n.id: set(allids) for n in nodes}
    dom[entry.id] = {entry.id}
    order = _rpo(entry)
    changed = True
    while changed:
        changed = False
        for n in order:
            if n is entry:
                continue
            ps = [p for p in preds(n)]
            if not ps:
                new = {n.id}
            else:
                new = set.intersection(*(dom[p.id] for p in ps)) | {n.id}
            if new != dom[n.id]:
                dom[n.id] = new
                changed = True
    return dom


def _rpo(entry):
    seen = set()
    out = []

    stack = [(entry, iter([m for m, _ in entry.succ]))]
    seen.add(entry.id)
    while stack:
        n, it = stack[-1]
        for m in it:
            if m.id not in seen:
                seen.add(m.id)
                stack.append((m, iter([x for x, _ in m.succ])))
                break
        else:
            out.append(n)
            stack.pop()
    out.reverse()
    return out


def forward(cfg, init, transfer, join, eq=None, max_iter=200000):
    """Generic forward dataflow.  transfer(node, in_state, label) -> out_state for the edge with
    that label (called once per outgoing edge; return None to kill the edge).  join(a, b) -> state.
    Returns {node id: in_state}."""
    eq = eq or (lambda a, b: a == b)
    IN = {cfg.entry.id: init}
    work = [cfg.entry]
    it = 0
    while work:
        it += 1
        if it > max_iter:
            raise AnalysisError('dataflow did not converge')
        n = work.pop()
        s = IN[n.id]
        for m, label in n.succ:
            out = transfer(n, s, label)
            if out is None:
                continue
            if m.id not in IN:
                IN[m.id] = out
                work.append(m)
            else:
                j = join(IN[m.id], out)
                if not eq(j, IN[m.id]):
                    IN[m.id] = j
                    work.append(m)
    return IN


# ---- reaching definitions ------------------------------------------------------------

def _targets(t):
    if isinstance(t, ast.Name):
        yield t.id, t
    elif isinstance(t, (ast.Tuple, ast.List)):
        for e in t.elts:
            yield from _targets(e)
    elif isinstance(t, ast.Starred):
        yield from _targets(t.value)


def defs_of_node(n):
    """(name, defining ast node, value-or-None) bound at CFG node n (strong definitions only:
    subscript/attribute stores do not rebind a name)."""
    s = n.stmt
    out = []
    if n.kind == ENTRY:
        a = s.args
        for arg in a.posonlyargs + a.args + a.kwonlyargs + ([a.vararg] if a.vararg else []) + \
                ([a.kwarg] if a.kwarg else []):
            out.append((arg.arg, arg, None))
    elif n.kind == 'stmt':
        if isinstance(s, ast.Assign):
            for t in s.targets:
                if isinstance(t, ast.Name):
                    out.append((t.id, s, s.value))
                else:
                    for nm, _ in _targets(t):
                        out.append((nm, s, None))
        elif isinstance(s, ast.AugAssign):
            if isinstance(s.target, ast.Name):
                out.append((s.target.id, s, None))
        elif isinstance(s, ast.AnnAssign):
            if isinstance(s.target, ast.Name) and s.value is not None:
                out.append((s.target.id, s, s.value))
        elif isinstance(s, (ast.Import, ast.ImportFrom)):
            for a in s.names:
                out.append(((a.asname or a.name).split('.')[0], s, None))
        elif isinstance(s, (ast.FunctionDef, ast.AsyncFunctionDef, ast.ClassDef)):
            out.append((s.name, s, None))
        # walrus targets
        for e in walk_local(s):
            if isinstance(e, ast.NamedExpr) and isinstance(e.target, ast.Name):
                out.append((e.target.id, e, e.value))
    elif n.kind == 'for':
        for nm, _ in _targets(s.target):
            out.append((nm, s, None))
    elif n.kind == 'with':
        for item in s.items:
            if item.optional_vars is not None:
                for nm, _ in _targets(item.optional_vars):
                    out.append((nm, s, None))
    elif n.kind == 'except':
        if s.name:
            out.append((s.name, s, None))
    elif n.kind == 'test':
        for e in walk_local(n.expr):
            if isinstance(e, ast.NamedExpr) and isinstance(e.target, ast.Name):
                out.append((e.target.id, e, e.value))
    return out


class ReachingDefs:
    """state: {name: frozenset of def keys}; def key = id(ast def node); self.defs[key] =
    (name, defnode, value)."""

    def __init__(self, cfg):
        self.cfg = cfg
        self.defs = {}
        self.node_defs = {}
        for n in cfg.nodes:
            ds = defs_of_node(n)
            self.node_defs[n.id] = ds
            for nm, d, v in ds:
                self.defs[(nm, id(d))] = (nm, d, v)

        def transfer(n, s, label):
            ds = self.node_defs[n.id]
            if not ds or label == 'exc' or (n.kind == 'for' and label == 'exhaust'):
                # an exception leaves before the binding takes effect; an exhausted for-loop
                # does not rebind its target
                return s
            out = dict(s)
            for nm, d, v in ds:
                out[nm] = frozenset([(nm, id(d))])
            return out

        def join(a, b):
            if a is b:
                return a
            out = dict(a)
            for k, v in b.items():
                out[k] = (out[k] | v) if k in out else (v | frozenset([(k, None)]))
            for k in a:
                if k not in b:
                    out[k] = a[k] | frozenset([(k, None)])
            return out
        self.IN = forward(cfg, {}, transfer, join)

    def reaching(self, name, at_ast):
        """Definitions of `name` that reach the CFG node(s) evaluating `at_ast`:
        list of (defnode or None, value or None); None defnode = possibly undefined / global."""
        res = {}
        for n in self.cfg.node_of_expr(at_ast):
            st = self.IN.get(n.id)
            if st is None:
                continue
            for key in st.get(name, frozenset([(name, None)])):
                if key[1] is None:
                    res[key] = (None, None)
                else:
                    _, d, v = self.defs[key]
                    res[key] = (d, v)
        return list(res.values())

    def single_value(self, name_node):
        """If exactly one definition of this Name reaches its use and it is a plain
        `name = expr`, return expr; else None."""
        r = self.reaching(name_node.id, name_node)
        r = [x for x in r if x[0] is not None]      # 'possibly unbound' is not a definition
        if len(r) == 1 and r[0][0] is not None and r[0][1] is not None:
            return r[0][1]
        return None

    def values(self, name_node):
        """All reaching (defnode, value) pairs for a Name use."""
        return self.reaching(name_node.id, name_node)

"""Per-function analysis bundle: normalised body, CFG, reaching definitions, guard extraction."""

import ast

from .astutil import walk_local, dotted, src
from .cfg import CFG, ReachingDefs
from .normalize import normalized


class Guard:
    """`if <test>: ... raise X(...)` -- the taken arm ends in raise."""
    __slots__ = ('stmt', 'test', 'exc', 'negated', 'raise_stmt')

    def __init__(self, stmt, test, exc, negated, raise_stmt):
        self.stmt = stmt          # the ast.If
        self.test = test
        self.exc = exc            # exception class name (last dotted component) or None for bare raise
        self.negated = negated    # True when the raise sits in the else arm
        self.raise_stmt = raise_stmt


def _raises(stmts):
    """The Raise that unconditionally ends this statement list, if any."""
    if not stmts:
        return None
    last = stmts[-1]
    if isinstance(last, ast.Raise):
        return last
    return None


def exc_name(r):
    if r.exc is None:
        return None
    e = r.exc.func if isinstance(r.exc, ast.Call) else r.exc
    d = dotted(e)
    return d.split('.')[-1] if d else None


class FA:
    def __init__(self, func, normalize=True, may_raise=None, exception_is_catchall=True):
        self.orig = func
        self.func = normalized(func) if normalize else func
        self.node = self.func.node
        self.cfg = CFG(self.node, may_raise=may_raise, exception_is_catchall=exception_is_catchall)
        self.rd = ReachingDefs(self.cfg)

    # ---- names -------------------------------------------------------------------
    def resolve(self, name_node):
        """Defining expression when exactly one plain assignment reaches this use."""
        if not isinstance(name_node, ast.Name):
            return None
        return self.rd.single_value(name_node)

    def deep(self, e, limit=8):
        """Follow single-definition names."""
        while isinstance(e, ast.Name) and limit > 0:
            d = self.resolve(e)
            if d is None:
                break
            e = d
            limit -= 1
        return e

    def defs(self, name_node):
        return self.rd.values(name_node)

    def is_param(self, name_node):
        """True when the only definition reaching this use is the parameter itself."""
        r = self.rd.values(name_node)
        return len(r) == 1 and isinstance(r[0][0], ast.arg)

    def same_value(self, a, b):
        """Two uses of the same name see the same set of reaching definitions."""
        if not (isinstance(a, ast.Name) and isinstance(b, ast.Name) and a.id == b.id):
            return False
        ka = {id(d) for d, _ in self.rd.values(a)}
        kb = {id(d) for d, _ in self.rd.values(b)}
        return ka == kb

    # ---- guards --------------------------------------------------------------------
    def guards(self):
        out = []
        for n in walk_local(self.node):
            if isinstance(n, ast.If):
                r = _raises(n.body)
                if r is not None:
                    out.append(Guard(n, n.test, exc_name(r), False, r))
                r2 = _raises(n.orelse)
                if r2 is not None:
                    out.append(Guard(n, n.test, exc_name(r2), True, r2))
        return out

    def guard_dominates(self, g, expr):
        """Every path to expr passes the non-raising branch of the guard."""
        return self.cfg.edge_dominates(g.stmt, g.negated, expr)

    def dominates(self, stmt, expr):
        return self.cfg.ast_dominates(stmt, expr)

    def returns(self):
        return [n for n in walk_local(self.node) if isinstance(n, ast.Return)]

    def stmts(self, kind=None):
        for n in walk_local(self.node):
            if isinstance(n, ast.stmt) and n is not self.node and (kind is None or isinstance(n, kind)):
                yield n

    def site(self, node=None):
        return self.func.site(node)


def expand(expr, fa, depth=4, calls=False, stop=()):
    """A copy of expr in which every name that has exactly one reaching plain definition is replaced by that definition (recursively):
    `found = key in table; if found:` reads as `if key in table:`.  The copy is not part of the analysed tree; use it for matching only."""
    from .astutil import clone

    def rec(e, d):
        if d <= 0:
            return e
        if isinstance(e, ast.Name) and isinstance(e.ctx, ast.Load):
            if e.id in stop:
                return e
            v = fa.resolve(e)
            if v is not None and ((isinstance(v, ast.Call) and isinstance(v.func, ast.Name) and v.func.id in ('list', 'dict', 'set') and not v.args)
                                  or (isinstance(v, (ast.List, ast.Dict, ast.Set)) and not getattr(v, 'elts', getattr(v, 'keys', None)))):
                return e                # an accumulator: the name stands for what is collected in it, not for the empty container
            if v is not None and isinstance(v, ast.Call) and isinstance(v.func, ast.Attribute) and v.func.attr in (
                    'zeros', 'ones', 'empty', 'full', 'zeros_like', 'ones_like', 'empty_like', 'full_like'):
                return e                # a work array filled in later: likewise
            if v is not None and calls:
                return rec(v, d - 1)
            if v is not None and not isinstance(v, (ast.Call,)) or (v is not None and isinstance(v, ast.Call) and isinstance(v.func, ast.Attribute)
                                                                 and v.func.attr in ('upper', 'lower', 'strip')):
                return rec(v, d - 1)
            return e
        out = clone(e) if d == depth else e
        for fld, val in ast.iter_fields(e):
            if isinstance(val, ast.AST):
                new = rec(val, d)
                if new is not val:
                    if out is e:
                        out = clone(e)
                    setattr(out, fld, new)
            elif isinstance(val, list):
                lst = None
                for i, x in enumerate(val):
                    if isinstance(x, ast.AST):
                        new = rec(x, d)
                        if new is not x:
                            if lst is None:
                                lst = list(val)
                            lst[i] = new
                if lst is not None:
                    if out is e:
                        out = clone(e)
                    setattr(out, fld, lst)
        return out
    return rec(expr, depth)

"""Role discovery: rename the locals of a function to canonical role names before name-keyed rules look at it.

Several rules name a local variable of the analysed function (`thisfiber`, `legarr`, `newmask`, ...).  Renaming such a local
is a behaviour-preserving edit, so the rules must not depend on the spelling.  A role table says how each role is *defined*
(a regular expression over the normalised source of the defining expression, in which roles found earlier already carry their
canonical names, and parameters keep theirs).  If exactly one local matches a role it is renamed to the role name in a clone of
the function; everything else is left alone, so an unmatched role simply falls back to the present spelling.
"""

import ast
import re

from .astutil import clone, link_parents, src, walk_local
from .loader import Func


def _locals_defined(fn):
    """{name: [value source, ...]} for plain assignments (Name targets, tuple targets get the whole value)."""
    out = {}
    for st in walk_local(fn):
        if isinstance(st, ast.Assign):
            for t in st.targets:
                if isinstance(t, ast.Name):
                    out.setdefault(t.id, []).append(src(st.value))
                elif isinstance(t, (ast.Tuple, ast.List)):
                    for i, e in enumerate(t.elts):
                        if isinstance(e, ast.Name):
                            out.setdefault(e.id, []).append('<item %d of> %s' % (i, src(st.value)))
    return out


def _rename(fn, old, new):
    for n in ast.walk(fn):
        if isinstance(n, ast.Name) and n.id == old:
            n.id = new
        elif isinstance(n, ast.arg) and n.arg == old:
            n.arg = new


def canonicalize(func, table):
    """table: [(role name, regex over a defining expression[, 'first'|'any'])].  Returns a Func whose node is a renamed clone
    (same positions), plus the mapping {role: original name}."""
    node = clone(func.node)
    mapping = {}
    params = {a.arg for a in node.args.posonlyargs + node.args.args + node.args.kwonlyargs}
    for entry in table:
        role, pattern = entry[0], entry[1]
        which = entry[2] if len(entry) > 2 else 'any'
        defs = _locals_defined(node)
        rx = re.compile(pattern)
        hits = []
        also = entry[3] if len(entry) > 3 else None
        for name, values in defs.items():
            if name in params:
                continue
            vals = values[:1] if which == 'first' else values
            if any(rx.fullmatch(v.replace('\n', ' ')) for v in vals):
                if also is not None:
                    rx2 = re.compile(also.replace('{name}', re.escape(name)))
                    text = src(node)
                    if not rx2.search(text):
                        continue
                hits.append(name)
        if len(hits) != 1:
            continue
        name = hits[0]
        mapping[role] = name
        if name == role:
            continue
        if role in defs or role in params:
            continue            # the canonical name is taken by something else: leave the spelling
        _rename(node, name, role)
    link_parents(node)
    node._parent = getattr(func.node, '_parent', None)
    nf = Func(func.module, func.qualname, node, func.cls)
    for x in ast.walk(node):
        x._func = nf
    return nf, mapping


# ---------------------------------------------------------------------------------------------------------------
# Role tables.  Patterns are over ast.unparse text; earlier roles are already renamed when a later pattern is tried.
NAME = r'[A-Za-z_][A-Za-z_0-9]*'

ROLE_TABLES = {
    ('pydl/pydlspec2d/spec1d.py', 'readspec'): [
        ('pmjdindex', r'\(.*==.*\)\.nonzero\(\)\[0\]'),
        ('thisfiber', r'fibervec\[pmjdindex\]'),
        ('spplate_data', r'dict\(\)', 'first'),
        ('loglam0', r'c0 \+ c1 \* np\.arange\(npix.*\)|' + NAME + r' \+ ' + NAME + r' \* np\.arange\(' + NAME + r', dtype=\'d\'\)', 'first'),
        ('loglam', r'np\.(resize|tile|broadcast_to)\(loglam0, .*\)'),
    ],
    ('pydl/pydlutils/trace.py', 'func_fit'): [
        ('legarr', r'function_map\[function_name\]\(.*\)'),
        ('fixed', r'\(~ia\[0:ncfit\]\)\.nonzero\(\)\[0\]'),
        ('nonfix', r'ia\[0:ncfit\]\.nonzero\(\)\[0\]'),
        ('finalarr', r'legarr\[nonfix, :\]', 'first'),
        ('extra2', r'finalarr \* np\.outer\(.*\)'),
        ('alpha', r'np\.dot\(finalarr, extra2\.T\)'),
        ('ysub', r'y - ' + NAME, 'first'),
        ('beta', r'np\.dot\(ysub \* .*, finalarr\.T\)'),
        ('yfix', r'np\.zeros\(x\.shape, dtype=x\.dtype\)|np\.dot\(legarr\.T, inputans.*\)'),
    ],
    ('pydl/goddard/astro.py', 'gcirc'): [
        ('sindis', r'np\.sqrt\(.*\)'),
        ('dis', r'2(\.0)? \* np\.arcsin\(sindis\)'),
    ],
    ('pydl/pydlutils/math.py', 'djs_reject'): [
        ('badness', r'np\.zeros\(outmask\.shape, dtype=data\.dtype\)'),
        ('newmask', r'badness == 0', 'first', r'{name} (&=|= {name} &) inmask'),
        ('diff', r'data - model'),
    ],
    ('pydl/pydlutils/bspline.py', 'iterfit'): [
        ('xsort', r'xdata\.argsort\(\)|np\.argsort\(xdata\)'),
        ('maskwork', r'\(outmask & \(invvar > 0\)\)\[xsort\]', 'first'),
        ('xwork', r'xdata\[xsort\]'),
        ('ywork', r'ydata\[xsort\]'),
        ('invwork', r'invvar\[xsort\]'),
    ],
    ('pydl/goddard/astro.py', 'airtovac'): [
        ('sigma2', r'\(10000\.0 / ' + NAME + r'\) \*\* 2'),
        ('fact', r'1\.0 \+ 0\.05792105 / \(238\.0185 - sigma2\) \+ .*'),
    ],
    ('pydl/goddard/astro.py', 'vactoair'): [
        ('sigma2', r'\(10000\.0 / ' + NAME + r'\) \*\* 2'),
        ('fact', r'1\.0 \+ 0\.05792105 / \(238\.0185 - sigma2\) \+ .*'),
    ],
    ('pydl/pydlspec2d/spec1d.py', 'pca_solve'): [
        ('synwvec', r'np\.ones\(\(npix,\), dtype=\'d\'\)'),
    ],
    ('pydl/pydlutils/spheregroup.py', 'spherematch'): [
        ('gotten1', r'np\.zeros\(ra1\.size, dtype=\'i4\'\)'),
        ('gotten2', r'np\.zeros\(ra2\.size, dtype=\'i4\'\)'),
    ],
}


# ---------------------------------------------------------------------------------------------------------------
# Automatic role recovery.
#
# Many rules name locals of the analysed function as they are spelled today.  To make every such rule insensitive to a
# renaming of locals, each local gets a *name-free signature*: the sequence of its binding records (assignment value, loop
# iterable, ... ) unparsed with every local name replaced by a placeholder.  `role_ref.json` (generated by tools/gen_roles.py
# from the tree the rules were written against) stores, per anchored function, the spelling each signature had.  At load
# time a local whose signature is found in the reference is renamed back to that spelling -- in a clone, positions kept.
# A local whose signature changed is left alone, so real edits are seen as they are.  The reference is an aid for undoing
# renames; it is not a rule and never causes a report.

import json
import os

PLACEHOLDER = '\u00a7'


def _local_names(fn):
    params = {a.arg for a in fn.args.posonlyargs + fn.args.args + fn.args.kwonlyargs}
    if fn.args.vararg:
        params.add(fn.args.vararg.arg)
    if fn.args.kwarg:
        params.add(fn.args.kwarg.arg)
    glob = set()
    names = []
    for n in ast.walk(fn):
        if isinstance(n, (ast.Global, ast.Nonlocal)):
            glob |= set(n.names)
    for n in _ordered_walk(fn):
        if isinstance(n, ast.Name) and isinstance(n.ctx, ast.Store) and n.id not in names:
            names.append(n.id)
        elif isinstance(n, ast.ExceptHandler) and n.name and n.name not in names:
            names.append(n.name)
    return [x for x in names if x not in params and x not in glob]


def _ordered_walk(node):
    """Pre-order walk in source order, not descending into nested function/class definitions."""
    yield node
    for c in ast.iter_child_nodes(node):
        if isinstance(c, (ast.FunctionDef, ast.AsyncFunctionDef, ast.ClassDef, ast.Lambda)):
            continue
        yield from _ordered_walk(c)


def _ph(e, locs):
    c = clone(e)
    for n in ast.walk(c):
        if isinstance(n, ast.Name) and n.id in locs:
            n.id = PLACEHOLDER
    try:
        return ast.unparse(c)
    except Exception:
        return '?'


def signatures(fn):
    """[(local name, signature string)] in order of first binding."""
    names = _local_names(fn)
    locs = set(names)
    rec = {n: [] for n in names}

    def bind(t, tag, value_src, path=''):
        if isinstance(t, ast.Name):
            if t.id in rec:
                rec[t.id].append('%s%s %s' % (tag, path, value_src))
        elif isinstance(t, (ast.Tuple, ast.List)):
            for i, e in enumerate(t.elts):
                bind(e, tag, value_src, path + '.%d' % i)
        elif isinstance(t, ast.Starred):
            bind(t.value, tag, value_src, path + '*')
    for n in _ordered_walk(fn):
        if isinstance(n, ast.Assign):
            v = _ph(n.value, locs)
            for t in n.targets:
                bind(t, '=', v)
        elif isinstance(n, ast.AugAssign):
            bind(n.target, 'aug' + type(n.op).__name__, _ph(n.value, locs))
        elif isinstance(n, ast.AnnAssign) and n.value is not None:
            bind(n.target, '=', _ph(n.value, locs))
        elif isinstance(n, (ast.For, ast.AsyncFor)):
            bind(n.target, 'for', _ph(n.iter, locs))
        elif isinstance(n, ast.comprehension):
            bind(n.target, 'comp', _ph(n.iter, locs))
        elif isinstance(n, (ast.With, ast.AsyncWith)):
            for it in n.items:
                if it.optional_vars is not None:
                    bind(it.optional_vars, 'with', _ph(it.context_expr, locs))
        elif isinstance(n, ast.ExceptHandler) and n.name in rec:
            rec[n.name].append('except %s' % (_ph(n.type, locs) if n.type is not None else ''))
        elif isinstance(n, (ast.Import, ast.ImportFrom)):
            for a in n.names:
                nm = (a.asname or a.name).split('.')[0]
                if nm in rec:
                    rec[nm].append('import %s' % a.name)
        elif isinstance(n, ast.NamedExpr):
            bind(n.target, ':=', _ph(n.value, locs))
    return [(n, ' | '.join(rec[n])) for n in names]


_REF = None


def reference():
    global _REF
    if _REF is None:
        path = os.path.join(os.path.dirname(os.path.abspath(__file__)), 'role_ref.json')
        try:
            with open(path) as fh:
                _REF = json.load(fh)
        except OSError:
            _REF = {}
    return _REF


def recover_names(func):
    """Rename locals of `func` back to the reference spelling where their signature matches.  Returns {current: reference}."""
    ref = reference().get('%s:%s' % (func.rel, func.qualname))
    if not ref:
        return {}
    cur = signatures(func.node)
    by_sig_ref = {}
    for name, sig in ref:
        by_sig_ref.setdefault(sig, []).append(name)
    by_sig_cur = {}
    for name, sig in cur:
        by_sig_cur.setdefault(sig, []).append(name)
    mapping = {}
    for sig, cnames in by_sig_cur.items():
        rnames = by_sig_ref.get(sig)
        if rnames and len(rnames) == len(cnames):
            for c, r in zip(cnames, rnames):
                if c != r:
                    mapping[c] = r
    if not mapping:
        return {}
    # a reference name that is currently used by a local which is *not* being renamed away would collide: skip those
    cur_names = {n for n, _ in cur}
    params = {a.arg for a in func.node.args.posonlyargs + func.node.args.args + func.node.args.kwonlyargs}
    safe = {}
    for c, r in mapping.items():
        if r in params:
            continue
        if r in cur_names and r not in mapping:
            continue
        safe[c] = r
    if not safe:
        return {}
    node = clone(func.node)
    for n in ast.walk(node):
        if isinstance(n, (ast.FunctionDef, ast.AsyncFunctionDef, ast.ClassDef, ast.Lambda)) and n is not node:
            continue
        if isinstance(n, ast.Name) and n.id in safe:
            n.id = safe[n.id]
        elif isinstance(n, ast.ExceptHandler) and n.name in safe:
            n.name = safe[n.name]
    link_parents(node)
    node._parent = getattr(func.node, '_parent', None)
    func.node = node
    for x in ast.walk(node):
        x._func = func
    return safe


# ---- operand order recovery ------------------------------------------------------------------------------------
COMMUTATIVE = (ast.Mult, ast.BitOr, ast.BitAnd)


def _commutative_sites(fn):
    """Commutative binary operators and symmetric comparisons, innermost first."""
    out = []

    def rec(n):
        for c in ast.iter_child_nodes(n):
            if isinstance(c, (ast.FunctionDef, ast.AsyncFunctionDef, ast.ClassDef, ast.Lambda)):
                continue
            rec(c)
        if isinstance(n, ast.BinOp) and isinstance(n.op, COMMUTATIVE):
            out.append(n)
        elif isinstance(n, ast.Compare) and len(n.ops) == 1 and isinstance(n.ops[0], (ast.Eq, ast.NotEq)):
            out.append(n)
    rec(fn)
    return out


def commutative_texts(fn):
    locs = set(_local_names(fn))
    return sorted({_ph(n, locs) for n in _commutative_sites(fn)})


def _swapped(n):
    c = clone(n)
    if isinstance(c, ast.BinOp):
        c.left, c.right = c.right, c.left
    else:
        c.left, c.comparators[0] = c.comparators[0], c.left
    return c


def recover_order(func):
    """Swap back the operands of commutative operators / symmetric comparisons whose swapped spelling (and not the present one)
    occurs in the reference for this function.  Works on func.node in place (func.node must already be a private clone or is cloned here)."""
    ref = reference().get('%s:%s#commutative' % (func.rel, func.qualname))
    if not ref:
        return 0
    ref = set(ref)
    node = clone(func.node)
    locs = set(_local_names(node))
    n_swaps = 0
    for site in _commutative_sites(node):
        cur = _ph(site, locs)
        if cur in ref:
            continue
        alt = _swapped(site)
        if _ph(alt, locs) in ref:
            if isinstance(site, ast.BinOp):
                site.left, site.right = site.right, site.left
            else:
                site.left, site.comparators[0] = site.comparators[0], site.left
            n_swaps += 1
    if n_swaps:
        link_parents(node)
        node._parent = getattr(func.node, '_parent', None)
        func.node = node
        for x in ast.walk(node):
            x._func = func
    return n_swaps


def callee_info(repo, f):
    """call node -> (positional parameter names of the package callee, 1 when `self` is bound implicitly) or None."""
    _trees = []

    def trees():
        if not _trees:
            _trees.append(f.node)
            try:
                entry = reference().get('%s:%s#src' % (f.rel, f.qualname))
                if entry:
                    _trees.append(reference_node(entry))
            except Exception:
                pass
        return _trees

    def info(call):
        try:
            g = repo.resolve_call(call, f)
        except Exception:
            return None
        if g is None and isinstance(call.func, ast.Attribute) and isinstance(call.func.value, ast.Name) and call.func.value.id not in ('self', 'cls'):
            # obj.method(..) where obj is bound once, to an instance of a class of the package: obj = Class(..)
            obj = call.func.value.id
            # the call may sit in the current spelling of the function or in its reference spelling (locals may be named differently)
            for tree in trees():
                binds = [st for st in ast.walk(tree) if isinstance(st, ast.Assign) and any(isinstance(t, ast.Name) and t.id == obj for t in st.targets)]
                nstores = sum(1 for x in ast.walk(tree) if isinstance(x, ast.Name) and x.id == obj and isinstance(x.ctx, (ast.Store, ast.Del)))
                if len(binds) == 1 and nstores == 1 and obj not in f.params and isinstance(binds[0].value, ast.Call) and isinstance(binds[0].value.func, ast.Name):
                    r = repo.resolve_symbol(f.module, binds[0].value.func.id)
                    if isinstance(r, tuple):
                        g = r[0].funcs.get(r[1].name + '.' + call.func.attr)
                        if g is not None:
                            break
        if g is None:
            return None
        a = g.node.args
        if a.vararg is not None or a.posonlyargs:
            return None
        params = [x.arg for x in a.args]
        offset = 0
        if g.cls is not None:
            deco = {getattr(d, 'id', getattr(d, 'attr', None)) for d in g.node.decorator_list}
            if 'staticmethod' in deco:
                offset = 0
            elif isinstance(call.func, ast.Attribute) and isinstance(call.func.value, ast.Name) and call.func.value.id == g.cls.name \
                    and 'classmethod' not in deco:
                offset = 0
            else:
                offset = 1
        return params, offset, g.node
    # one-expression properties of the function's own class: self.<name> reads as that expression
    props = {}
    if f.cls is not None:
        for st in f.cls.body:
            if isinstance(st, ast.FunctionDef) and any(isinstance(d, ast.Name) and d.id == 'property' for d in st.decorator_list) \
                    and len(st.decorator_list) == 1 and st.name != f.name:
                body = [x for x in st.body if not (isinstance(x, ast.Expr) and isinstance(x.value, ast.Constant))]
                if len(body) == 1 and isinstance(body[0], ast.Return) and body[0].value is not None and len(st.args.args) == 1:
                    v = body[0].value
                    names = {x.id for x in ast.walk(v) if isinstance(x, ast.Name)}
                    if names <= {'self', 'np', 'None', 'True', 'False', 'int', 'float', 'len'} and not any(
                            isinstance(x, ast.Attribute) and isinstance(x.value, ast.Name) and x.value.id == 'self' and x.attr == st.name for x in ast.walk(v)):
                        # setters make it more than a computed attribute
                        if not any(isinstance(o, ast.FunctionDef) and o.name == st.name and o is not st for o in f.cls.body):
                            props[st.name] = v
    info.props = props
    return info


def reference_node(entry):
    """The reference spelling of a function as an AST with the reference tree's line numbers (entry = [lineno, text])."""
    import textwrap
    from .loader import _canonical_idioms
    lineno, text = entry
    if text[:1] in ' \t':                        # methods are stored with their indentation
        tree = ast.parse('if 1:\n' + text)
        _canonical_idioms(tree)
        node = tree.body[0].body[0]
        ast.increment_lineno(node, lineno - 2)
    else:
        tree = ast.parse(text)
        _canonical_idioms(tree)
        node = tree.body[0]
        ast.increment_lineno(node, lineno - 1)
    return node


def module_consts(repo, f):
    """Module-level NAME = <number|string> constants visible to f."""
    from .astutil import try_fold
    from . import normal

    class Consts(dict):
        pass
    consts = Consts()
    consts.exprs = {}
    defs_ = {st.name for st in f.module.tree.body if isinstance(st, (ast.FunctionDef, ast.ClassDef))}
    # constants defined from other constants (MASK = (1 << SHIFT) - 1) fold once those are known
    for _round in range(3):
        for nm, v in f.module.assigns.items():
            if nm not in consts:
                k = try_fold(v, env=dict(consts))
                if isinstance(k, (int, float, str)) and not isinstance(k, bool):
                    consts[nm] = k
    for nm, v in f.module.assigns.items():
        k = consts.get(nm)
        if isinstance(k, (int, float, str)) and not isinstance(k, bool):
            consts[nm] = k
        elif normal._pure_expr(v) and not any(isinstance(x, ast.Name) and x.id not in ('np', 're', 'numpy') and x.id not in f.module.assigns
                                               and x.id not in f.module.imports and x.id not in defs_ for x in ast.walk(v)):
            consts.exprs[nm] = v
    return consts


def inlined_current(repo, f, node=None):
    """The function with helpers that the reference does not have inlined at statement level."""
    from . import normal
    ref_all = reference()

    def resolve_node(call):
        try:
            g = repo.resolve_call(call, f)
        except Exception:
            return None
        if g is None:
            return None
        g.node._key = '%s:%s' % (g.rel, g.qualname)
        g.node._bound_self = None
        if g.cls is None and {getattr(d, 'id', getattr(d, 'attr', None)) for d in g.node.decorator_list} == {'contextmanager'}:
            plain = clone(g.node)
            plain.decorator_list = []
            plain._key = g.node._key
            plain._bound_self = None
            plain._contextmanager = True
            return plain
        if g.cls is not None:
            deco = {getattr(d, 'id', getattr(d, 'attr', None)) for d in g.node.decorator_list}
            if deco == {'staticmethod'}:
                # a static helper: no receiver to bind; read it as a plain function (the decorator is not behaviour of the body)
                plain = clone(g.node)
                plain.decorator_list = []
                plain._key = g.node._key
                plain._bound_self = None
                return plain
            if deco:
                return None
            if isinstance(call.func, ast.Attribute) and isinstance(call.func.value, ast.Name) and call.func.value.id == 'self':
                g.node._bound_self = ast.Name(id='self', ctx=ast.Load())
            else:
                return None
        return g.node

    def is_new(gnode):
        return getattr(gnode, '_key', None) is not None and (gnode._key + '#src') not in ref_all
    return normal.inline_new_helpers(node if node is not None else f.node, resolve_node, is_new)


def localise_new_module_defs(repo, f, node):
    """Module-level `NAME = <pure expression>` definitions that the reference module does not have (a literal or a pattern hoisted out of
    the function) are bound at the top of the function instead, where the rules - and the recovery of reference names - can see them."""
    from . import normal
    ref_names = reference().get('%s#module_assigns' % f.rel)
    if ref_names is None:
        return node
    ref_names = set(ref_names)
    local = {x.id for x in ast.walk(node) if isinstance(x, ast.Name) and isinstance(x.ctx, (ast.Store, ast.Del))}
    local |= {a.arg for a in node.args.posonlyargs + node.args.args + node.args.kwonlyargs}
    used = []
    for x in ast.walk(node):
        if isinstance(x, ast.Name) and isinstance(x.ctx, ast.Load) and x.id in f.module.assigns and x.id not in ref_names and x.id not in local \
                and x.id not in used and normal._pure_expr(f.module.assigns[x.id]) \
                and not isinstance(f.module.assigns[x.id], (ast.Dict, ast.Set)) \
                and not (isinstance(f.module.assigns[x.id], (ast.Tuple, ast.List)) and isinstance(getattr(x, '_parent', None), ast.For)
                         and x._parent.iter is x):        # tables are read by the loop unroller where they are
            used.append(x.id)
    # definitions may refer to one another
    order = []
    todo = list(used)
    seen = set()
    while todo:
        nm = todo.pop(0)
        if nm in seen:
            continue
        seen.add(nm)
        order.append(nm)
        for y in ast.walk(f.module.assigns[nm]):
            if isinstance(y, ast.Name) and y.id in f.module.assigns and y.id not in ref_names and y.id not in local and y.id not in seen:
                todo.append(y.id)
    if not order:
        return node
    new = clone(node)
    # a new module-level NAME that is a plain number / string (possibly computed from others) reads as that literal wherever it is used
    consts = module_consts(repo, f)
    literal = {nm: consts[nm] for nm in order if nm in consts and not any(isinstance(y, ast.Call) for y in ast.walk(f.module.assigns[nm]))}
    if literal:
        class L(ast.NodeTransformer):
            def visit_Name(self, n):
                if isinstance(n.ctx, ast.Load) and n.id in literal:
                    return ast.copy_location(ast.Constant(value=literal[n.id]), n)
                return n
        new = L().visit(new)
        ast.fix_missing_locations(new)
        order = [nm for nm in order if nm not in literal]
        if not order:
            return new
    pos = 1 if (new.body and isinstance(new.body[0], ast.Expr) and isinstance(new.body[0].value, ast.Constant) and isinstance(new.body[0].value.value, str)) else 0
    for nm in order:            # dependencies were appended after their users: insert in reverse so that they come first
        st = ast.Assign(targets=[ast.Name(id=nm, ctx=ast.Store())], value=clone(f.module.assigns[nm]))
        ast.copy_location(st, new.body[pos] if pos < len(new.body) else new)
        ast.fix_missing_locations(st)
        new.body.insert(pos, st)
    return new


def _substitute_reference(repo, f, entry):
    """If the function is a respelling of the reference (equal normal forms, pydlsa/normal.py) analyse the reference spelling
    in its place.  Returns True when substituted."""
    if not entry:
        return False
    from . import normal
    try:
        rnode = reference_node(entry)
        if not isinstance(rnode, (ast.FunctionDef, ast.AsyncFunctionDef)):
            return False
        info = callee_info(repo, f)
        consts = module_consts(repo, f)
        cur = inlined_current(repo, f)
        if normal.nf_key(cur, info, consts) != normal.nf_key(rnode, info, consts):
            cur = normal.plain_argument_temps(cur)
            cur = localise_new_module_defs(repo, f, cur)
            if cur is not f.node:
                # not a pure respelling, but a block of it now lives in a helper the reference does not have: the rules look at the
                # function with that helper inlined (same behaviour), not at a call they cannot see through
                link_parents(cur)
                cur._parent = getattr(f.node, '_parent', None)
                f.node = cur
                for x in ast.walk(cur):
                    x._func = f
                f.roles = dict(getattr(f, 'roles', {}) or {}, new_helpers_inlined=True)
            return False
    except (SyntaxError, RecursionError):
        return False
    def docnode(fn):
        b = fn.body
        return b[0] if b and isinstance(b[0], ast.Expr) and isinstance(b[0].value, ast.Constant) and isinstance(b[0].value.value, str) else None
    dc, dr = docnode(f.node), docnode(rnode)
    if dr is not None:
        rnode.body = rnode.body[1:]
    if dc is not None:
        rnode.body = [dc] + rnode.body          # the function's own docstring stays (C06.DOC reads it)
    link_parents(rnode)
    rnode._parent = getattr(f.node, '_parent', None)
    f.node = rnode
    for x in ast.walk(rnode):
        x._func = f
    f.roles = dict(getattr(f, 'roles', {}) or {}, respelling_of_reference=True)
    return True


def _evict(repo, m):
    """A module whose functions are about to be rewritten must not be shared through the loader's cache."""
    from . import loader
    key = getattr(m, '_cache_key', None)
    if key is not None:
        loader._MODULE_CACHE.pop(key, None)


def apply_tables(repo):
    """Canonicalise, in place, the functions of `repo`: first undo renames of locals through the reference signatures, then
    apply the hand-written role tables (called by the loader)."""
    ref = reference()
    import hashlib
    for key in sorted({k.split('#')[0] for k in ref if ':' in k}):
        rel, q = key.split(':', 1)
        m = repo.modules.get(rel)
        if m is not None and q in m.funcs:
            f = m.funcs[q]
            dg = ref.get(key + '#digest')
            if dg is not None and dg == hashlib.sha256(ast.dump(f.node, include_attributes=False).encode()).hexdigest()[:16]:
                continue          # identical to the reference: nothing to undo
            _evict(repo, m)
            if _substitute_reference(repo, f, ref.get(key + '#src')):
                continue
            n_sw = recover_order(f)
            back = recover_names(f)
            if back or n_sw:
                f.roles = dict(getattr(f, 'roles', {}) or {}, **{'recovered': back, 'operand_swaps_undone': n_sw})
    # functions the reference does not have and that no function calls any more after inlining: their body is judged where it was
    # inlined, not as a free-standing function whose parameters could be anything
    for rel, m in repo.modules.items():
        new = [f for q, f in m.funcs.items() if ('%s:%s#src' % (rel, q)) not in ref and '<locals>' not in q and (rel + '#module_assigns') in ref]
        if not new:
            continue
        called = set()
        for g in m.funcs.values():
            for c in ast.walk(g.node):
                if isinstance(c, ast.Call):
                    nm = c.func.attr if isinstance(c.func, ast.Attribute) else (c.func.id if isinstance(c.func, ast.Name) else None)
                    if nm and g.name != nm:
                        called.add(nm)
        for f in new:
            if f.name not in called:
                f.roles = dict(getattr(f, 'roles', {}) or {}, inlined_helper=True)
    for (rel, q), table in ROLE_TABLES.items():
        m = repo.modules.get(rel)
        if m is None or q not in m.funcs:
            continue
        f = m.funcs[q]
        dg = ref.get('%s:%s#digest' % (rel, q))
        if dg is not None and dg == hashlib.sha256(ast.dump(f.node, include_attributes=False).encode()).hexdigest()[:16]:
            continue          # reference spelling: the table would rename nothing
        _evict(repo, m)
        nf, mapping = canonicalize(f, table)
        f.node = nf.node
        for x in ast.walk(f.node):
            x._func = f
        f.roles = mapping

"""Polynomial / affine normal forms of arithmetic ASTs.

A Poly is {monomial: Fraction} with monomial = tuple of sorted (atom, power) pairs; atoms are
strings chosen by the caller (canonical symbols, not local names)."""

import ast
from fractions import Fraction

from .astutil import src, call_name


class NotPoly(Exception):
    pass


class Poly:
    __slots__ = ('t',)

    def __init__(self, terms=None):
        self.t = {m: c for m, c in (terms or {}).items() if c != 0}

    @staticmethod
    def const(c):
        return Poly({(): Fraction(c)})

    @staticmethod
    def atom(name):
        return Poly({((name, 1),): Fraction(1)})

    def __add__(self, o):
        t = dict(self.t)
        for m, c in o.t.items():
            t[m] = t.get(m, 0) + c
        return Poly(t)

    def __neg__(self):
        return Poly({m: -c for m, c in self.t.items()})

    def __sub__(self, o):
        return self + (-o)

    def __mul__(self, o):
        t = {}
        for m1, c1 in self.t.items():
            for m2, c2 in o.t.items():
                d = dict(m1)
                for a, p in m2:
                    d[a] = d.get(a, 0) + p
                m = tuple(sorted((a, p) for a, p in d.items() if p))
                t[m] = t.get(m, 0) + c1 * c2
        return Poly(t)

    def __pow__(self, n):
        r = Poly.const(1)
        for _ in range(n):
            r = r * self
        return r

    def scale(self, c):
        return Poly({m: v * Fraction(c) for m, v in self.t.items()})

    def is_const(self):
        return all(m == () for m in self.t)

    def const_value(self):
        return self.t.get((), Fraction(0))

    def coeff(self, *atoms):
        """Coefficient of the monomial made of the given atoms (each power 1)."""
        m = tuple(sorted((a, 1) for a in atoms))
        return self.t.get(m, Fraction(0))

    def atoms(self):
        return {a for m in self.t for a, _ in m}

    def degree(self):
        return max((sum(p for _, p in m) for m in self.t), default=0)

    def subst(self, mapping):
        """Substitute atoms by Polys."""
        out = Poly()
        for m, c in self.t.items():
            term = Poly.const(c)
            for a, p in m:
                term = term * ((mapping[a] ** p) if a in mapping else Poly({((a, p),): Fraction(1)}))
            out = out + term
        return out

    def reduce_trig(self, pairs):
        """Apply sin^2 = 1 - cos^2 for each (sin_atom, cos_atom) pair until no sin power >= 2."""
        cur = self
        for s, c in pairs:
            changed = True
            while changed:
                changed = False
                out = Poly()
                for m, coef in cur.t.items():
                    d = dict(m)
                    if d.get(s, 0) >= 2:
                        changed = True
                        d[s] -= 2
                        base = tuple(sorted((a, p) for a, p in d.items() if p))
                        d2 = dict(base)
                        d2[c] = d2.get(c, 0) + 2
                        out = out + Poly({base: coef}) - Poly({tuple(sorted(d2.items())): coef})
                    else:
                        out = out + Poly({m: coef})
                cur = out
        return cur

    def __eq__(self, o):
        return isinstance(o, Poly) and self.t == o.t

    def __hash__(self):
        return hash(tuple(sorted(self.t.items())))

    def __repr__(self):
        if not self.t:
            return '0'
        parts = []
        for m, c in sorted(self.t.items()):
            mono = '*'.join(a if p == 1 else '%s^%d' % (a, p) for a, p in m)
            cs = str(c)
            parts.append(cs if not mono else (mono if c == 1 else '%s*%s' % (cs, mono)))
        return ' + '.join(parts)


def poly_of(e, atom=None, resolve=None, depth=0):
    """Normal form of expression e.  atom(node) -> symbol string or None for opaque leaves
    (calls, subscripts, attributes, names); resolve(name_node) -> defining expr or None."""
    if depth > 40:
        raise NotPoly('too deep')
    if isinstance(e, ast.Constant) and isinstance(e.value, (int, float)) and not isinstance(e.value, bool):
        return Poly.const(Fraction(e.value) if isinstance(e.value, int) else Fraction(str(e.value)))
    if isinstance(e, ast.UnaryOp) and isinstance(e.op, ast.USub):
        return -poly_of(e.operand, atom, resolve, depth + 1)
    if isinstance(e, ast.UnaryOp) and isinstance(e.op, ast.UAdd):
        return poly_of(e.operand, atom, resolve, depth + 1)
    if isinstance(e, ast.BinOp):
        if isinstance(e.op, (ast.Add, ast.Sub, ast.Mult)):
            a = poly_of(e.left, atom, resolve, depth + 1)
            b = poly_of(e.right, atom, resolve, depth + 1)
            return a + b if isinstance(e.op, ast.Add) else (a - b if isinstance(e.op, ast.Sub) else a * b)
        if isinstance(e.op, ast.Pow):
            b = poly_of(e.right, atom, resolve, depth + 1)
            if b.is_const() and b.const_value().denominator == 1 and 0 <= b.const_value() <= 64:
                a = poly_of(e.left, atom, resolve, depth + 1)
                if a.is_const():
                    return Poly.const(a.const_value() ** int(b.const_value()))
                if b.const_value() <= 8:
                    return a ** int(b.const_value())
            raise NotPoly(src(e))
        if isinstance(e.op, ast.Div):
            b = poly_of(e.right, atom, resolve, depth + 1)
            if b.is_const() and b.const_value() != 0:
                return poly_of(e.left, atom, resolve, depth + 1).scale(1 / b.const_value())
            raise NotPoly(src(e))
        if isinstance(e.op, ast.LShift):
            b = poly_of(e.right, atom, resolve, depth + 1)
            if b.is_const() and b.const_value().denominator == 1 and 0 <= b.const_value() < 128:
                return poly_of(e.left, atom, resolve, depth + 1).scale(2 ** int(b.const_value()))
            raise NotPoly(src(e))
    if isinstance(e, ast.Name) and resolve is not None:
        d = resolve(e)
        if d is not None:
            return poly_of(d, atom, resolve, depth + 1)
    if atom is not None:
        a = atom(e)
        if isinstance(a, Poly):
            return a
        if a is not None:
            return Poly.atom(a)
    if isinstance(e, ast.Name):
        return Poly.atom(e.id)
    raise NotPoly(src(e))

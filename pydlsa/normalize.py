"""Behaviour-preserving normalisations applied before a rule looks at a function, so that
table-driven spellings of the same logic are judged like the straight-line spelling:

* `for a, b in <literal table>` loops (tuple/list literal, or a name bound once to such a literal
  in the function or at module level) without break/continue are unrolled with the targets
  substituted by the element expressions.  Element expressions must be side-effect free
  (names, constants, arithmetic, attribute access) and the names they mention must not be
  rebound between the table and the loop.
"""

import ast

from .astutil import clone, link_parents, walk_local
from .loader import Func


def _pure(e):
    for n in ast.walk(e):
        if isinstance(n, (ast.Call, ast.Await, ast.Yield, ast.YieldFrom, ast.NamedExpr, ast.Lambda,
                          ast.ListComp, ast.SetComp, ast.DictComp, ast.GeneratorExp)):
            return False
    return True


def _assigned_names(stmts):
    out = set()
    for st in stmts:
        for n in ast.walk(st):
            if isinstance(n, ast.Name) and isinstance(n.ctx, (ast.Store, ast.Del)):
                out.add(n.id)
    return out


class _Sub(ast.NodeTransformer):
    def __init__(self, mapping):
        self.mapping = mapping

    def visit_Name(self, n):
        if n.id in self.mapping and isinstance(n.ctx, ast.Load):
            new = clone(self.mapping[n.id])
            for x in ast.walk(new):
                if hasattr(x, 'lineno'):
                    x.lineno = n.lineno
                    x.end_lineno = getattr(n, 'end_lineno', n.lineno)
                    x.col_offset = n.col_offset
                    x.end_col_offset = getattr(n, 'end_col_offset', n.col_offset)
            return new
        return n


def _table_rows(table, ntargets, pure=None):
    _pure = pure or globals()['_pure']
    if not isinstance(table, (ast.Tuple, ast.List)) or not table.elts:
        return None
    rows = []
    for e in table.elts:
        if ntargets == 1:
            if not _pure(e):
                return None
            rows.append([e])
        else:
            if not isinstance(e, (ast.Tuple, ast.List)) or len(e.elts) != ntargets:
                return None
            if not all(_pure(x) for x in e.elts):
                return None
            rows.append(list(e.elts))
    return rows


def _const_container(e):
    return all(isinstance(n, (ast.Dict, ast.Tuple, ast.List, ast.Constant, ast.BinOp, ast.UnaryOp, ast.operator, ast.unaryop, ast.expr_context))
               for n in ast.walk(e))


def _module_dict(name, module, fn):
    if module is None or name not in module.assigns or name in _assigned_names([fn]):
        return None
    d = module.assigns[name]
    if isinstance(d, ast.Dict) and _const_container(d) and all(k is not None for k in d.keys):
        return d
    return None


def _local_dict(name, fn):
    """The constant dict literal a local name is bound to, when that is its only binding and nothing changes the dict afterwards."""
    found = None
    plain = {}
    for n in ast.walk(fn):
        if isinstance(n, ast.Assign) and len(n.targets) == 1 and isinstance(n.targets[0], ast.Name):
            plain[id(n.targets[0])] = n.value
    for n in ast.walk(fn):
        if isinstance(n, ast.Name) and n.id == name and isinstance(n.ctx, (ast.Store, ast.Del)):
            if found is not None or id(n) not in plain:
                return None
            found = plain[id(n)]
        elif isinstance(n, (ast.Subscript, ast.Attribute)) and isinstance(n.ctx, (ast.Store, ast.Del)) and isinstance(n.value, ast.Name) and n.value.id == name:
            return None
        elif isinstance(n, ast.Call) and isinstance(n.func, ast.Attribute) and isinstance(n.func.value, ast.Name) and n.func.value.id == name \
                and n.func.attr not in ('keys', 'values', 'items', 'get'):
            return None
        elif isinstance(n, ast.arg) and n.arg == name:
            return None
        elif isinstance(n, (ast.Global, ast.Nonlocal)) and name in n.names:
            return None
    if isinstance(found, ast.Dict) and found.keys and _const_container(found) and all(k is not None for k in found.keys):
        return found
    return None


def _dict_rows(it, ntargets, module, fn):
    """rows for `for k in D`, `for k in D.keys()`, `for v in D.values()`, `for k, v in D.items()` with D a module-level constant dict."""
    how = 'keys'
    base = it
    if isinstance(it, ast.Call) and isinstance(it.func, ast.Attribute) and it.func.attr in ('keys', 'values', 'items') and not it.args:
        how = it.func.attr
        base = it.func.value
    if not isinstance(base, ast.Name):
        return None
    d = _module_dict(base.id, module, fn)
    if d is None:
        d = _local_dict(base.id, fn)
    if d is None:
        return None
    if how == 'keys' and ntargets == 1:
        return [[k] for k in d.keys]
    if how == 'values' and ntargets == 1:
        return [[v] for v in d.values]
    if how == 'items' and ntargets == 2:
        return [[k, v] for k, v in zip(d.keys, d.values)]
    return None


class _Fold(ast.NodeTransformer):
    """Constant folding that unrolling makes possible: comparisons and conditional expressions on constants, lookups of constant
    keys in module-level constant dicts / tuples."""

    def __init__(self, module, fn):
        self.module = module
        self.fn = fn
        self.changed = False

    def visit_Compare(self, n):
        self.generic_visit(n)
        if len(n.ops) == 1 and isinstance(n.left, ast.Constant) and isinstance(n.comparators[0], ast.Constant) \
                and isinstance(n.ops[0], (ast.Eq, ast.NotEq, ast.In, ast.NotIn)):
            a, b = n.left.value, n.comparators[0].value
            try:
                v = {ast.Eq: a == b, ast.NotEq: a != b}.get(type(n.ops[0]))
                if v is None:
                    v = (a in b) if isinstance(n.ops[0], ast.In) else (a not in b)
            except TypeError:
                return n
            self.changed = True
            return ast.copy_location(ast.Constant(value=bool(v)), n)
        return n

    def visit_IfExp(self, n):
        self.generic_visit(n)
        if isinstance(n.test, ast.Constant):
            self.changed = True
            return n.body if n.test.value else n.orelse
        return n

    def visit_Subscript(self, n):
        self.generic_visit(n)
        if isinstance(n.ctx, ast.Load) and isinstance(n.value, ast.Name) and isinstance(n.slice, ast.Constant):
            d = _module_dict(n.value.id, self.module, self.fn)
            if d is None:
                d = _local_dict(n.value.id, self.fn)
            if d is not None:
                for k, v in zip(d.keys, d.values):
                    if isinstance(k, ast.Constant) and k.value == n.slice.value and type(k.value) is type(n.slice.value):
                        self.changed = True
                        return ast.copy_location(clone(v), n)
        return n


def _split_tuple_assign(stmts):
    out = []
    changed = False
    for st in stmts:
        for fld in ('body', 'orelse', 'finalbody'):
            v = getattr(st, fld, None)
            if isinstance(v, list) and v and isinstance(v[0], ast.stmt) and not isinstance(st, (ast.FunctionDef, ast.ClassDef)):
                nv, ch = _split_tuple_assign(v)
                setattr(st, fld, nv)
                changed |= ch
        if isinstance(st, ast.Assign) and len(st.targets) == 1 and isinstance(st.targets[0], (ast.Tuple, ast.List)) \
                and isinstance(st.value, (ast.Tuple, ast.List)) and len(st.targets[0].elts) == len(st.value.elts) \
                and all(isinstance(t, ast.Name) for t in st.targets[0].elts) and all(_pure(e) for e in st.value.elts) \
                and not ({t.id for t in st.targets[0].elts} & {x.id for e in st.value.elts for x in ast.walk(e) if isinstance(x, ast.Name)}):
            for t, e in zip(st.targets[0].elts, st.value.elts):
                out.append(ast.copy_location(ast.Assign(targets=[t], value=e), st))
            changed = True
        else:
            out.append(st)
    return out, changed


def _scalarise_local_dicts(fn):
    """A local dict that is only ever created as a literal with constant keys (or empty) and subscripted with constant keys is a
    record of variables: D['k'] is read as the name D__k."""
    cands = {}
    for st in walk_local(fn):
        if isinstance(st, ast.Assign) and len(st.targets) == 1 and isinstance(st.targets[0], ast.Name):
            v = st.value
            lit = isinstance(v, ast.Dict) and all(isinstance(k, ast.Constant) and isinstance(k.value, str) for k in v.keys)
            empty = isinstance(v, ast.Call) and isinstance(v.func, ast.Name) and v.func.id == 'dict' and not v.args and not v.keywords
            if lit or empty:
                cands.setdefault(st.targets[0].id, []).append(st)
    params = {a.arg for a in fn.args.posonlyargs + fn.args.args + fn.args.kwonlyargs}
    ok = {}
    for name, defs in cands.items():
        if len(defs) != 1 or name in params:
            continue
        good = True
        for n in ast.walk(fn):
            if isinstance(n, ast.Name) and n.id == name and n is not defs[0].targets[0]:
                par = getattr(n, '_parent', None)
                if not (isinstance(par, ast.Subscript) and par.value is n and isinstance(par.slice, ast.Constant) and isinstance(par.slice.value, str)):
                    good = False
                    break
        if good:
            ok[name] = defs[0]
    if not ok:
        return False

    class R(ast.NodeTransformer):
        def visit_Subscript(self, n):
            self.generic_visit(n)
            if isinstance(n.value, ast.Name) and n.value.id in ok and isinstance(n.slice, ast.Constant):
                return ast.copy_location(ast.Name(id='%s__%s' % (n.value.id, n.slice.value), ctx=n.ctx), n)
            return n

    def rewrite(stmts):
        out = []
        for st in stmts:
            if any(st is d for d in ok.values()):
                name = st.targets[0].id
                if isinstance(st.value, ast.Dict):
                    for k, v in zip(st.value.keys, st.value.values):
                        out.append(ast.copy_location(ast.Assign(targets=[ast.Name(id='%s__%s' % (name, k.value), ctx=ast.Store())], value=v), st))
                continue
            for fld in ('body', 'orelse', 'finalbody'):
                v = getattr(st, fld, None)
                if isinstance(v, list) and v and isinstance(v[0], ast.stmt) and not isinstance(st, (ast.FunctionDef, ast.ClassDef)):
                    setattr(st, fld, rewrite(v) or [ast.Pass()])
            for h in getattr(st, 'handlers', []) or []:
                h.body = rewrite(h.body) or [ast.Pass()]
            out.append(st)
        return out
    link_parents(fn)
    fn.body = rewrite(fn.body)
    R().visit(fn)
    # copy propagation for the fields just created: D__k = <name> with neither side assigned again reads as <name>
    stores = {}
    for n in ast.walk(fn):
        if isinstance(n, ast.Name) and isinstance(n.ctx, (ast.Store, ast.Del)):
            stores[n.id] = stores.get(n.id, 0) + 1
    params_ = {a.arg for a in fn.args.posonlyargs + fn.args.args + fn.args.kwonlyargs}
    copies = {}
    for st in fn.body:
        if isinstance(st, ast.Assign) and len(st.targets) == 1 and isinstance(st.targets[0], ast.Name) and '__' in st.targets[0].id \
                and st.targets[0].id.split('__')[0] in ok and isinstance(st.value, ast.Name) and stores.get(st.targets[0].id) == 1:
            src_name = st.value.id
            later = [x for x in ast.walk(fn) if isinstance(x, ast.Name) and x.id == src_name and isinstance(x.ctx, (ast.Store, ast.Del))
                     and getattr(x, 'lineno', 0) >= st.lineno]
            if not later:
                copies[st.targets[0].id] = (src_name, st)
    if copies:
        class C(ast.NodeTransformer):
            def visit_Name(self, n):
                if n.id in copies and isinstance(n.ctx, ast.Load):
                    return ast.copy_location(ast.Name(id=copies[n.id][0], ctx=ast.Load()), n)
                return n
        C().visit(fn)
        drop = {id(v[1]) for v in copies.values()}
        fn.body = [st for st in fn.body if id(st) not in drop]
    return True


def _list_then_unpack(fn):
    """xs = list(); ...; xs.append(e1); ...; xs.append(ek); ...; a1, .., ak = xs      (all at the top level of one block, xs used
    nowhere else)      ->      a1 = e1; ...; ak = ek.     The targets must not occur between the first append and the unpacking."""
    changed = False
    for owner in ast.walk(fn):
        for fld in ('body', 'orelse', 'finalbody'):
            body = getattr(owner, fld, None)
            if not (isinstance(body, list) and body and isinstance(body[0], ast.stmt)) or isinstance(owner, ast.Lambda):
                continue
            for i, st in enumerate(body):
                if not (isinstance(st, ast.Assign) and len(st.targets) == 1 and isinstance(st.targets[0], ast.Name)
                        and ((isinstance(st.value, ast.Call) and isinstance(st.value.func, ast.Name) and st.value.func.id == 'list' and not st.value.args
                              and not st.value.keywords) or (isinstance(st.value, ast.List) and not st.value.elts))):
                    continue
                xs = st.targets[0].id
                apps = []
                unpack = None
                okay = True
                for j in range(i + 1, len(body)):
                    b = body[j]
                    if isinstance(b, ast.Expr) and isinstance(b.value, ast.Call) and isinstance(b.value.func, ast.Attribute) and b.value.func.attr == 'append' \
                            and isinstance(b.value.func.value, ast.Name) and b.value.func.value.id == xs and len(b.value.args) == 1 and not b.value.keywords \
                            and not any(isinstance(x, ast.Name) and x.id == xs for x in ast.walk(b.value.args[0])):
                        apps.append(j)
                        continue
                    if isinstance(b, ast.Assign) and len(b.targets) == 1 and isinstance(b.targets[0], (ast.Tuple, ast.List)) and isinstance(b.value, ast.Name) \
                            and b.value.id == xs and all(isinstance(e, ast.Name) for e in b.targets[0].elts):
                        unpack = j
                        break
                    if any(isinstance(x, ast.Name) and x.id == xs for x in ast.walk(b)):
                        okay = False
                        break
                if not okay or unpack is None or not apps or len(apps) != len(body[unpack].targets[0].elts):
                    continue
                total = sum(1 for x in ast.walk(fn) if isinstance(x, ast.Name) and x.id == xs)
                if total != 2 + len(apps):
                    continue
                names = [e.id for e in body[unpack].targets[0].elts]
                if len(set(names)) != len(names):
                    continue
                span = body[apps[0]:unpack]
                if any(isinstance(x, ast.Name) and x.id in names for b in span for x in ast.walk(b)):
                    continue
                for nm, j in zip(names, apps):
                    new = ast.Assign(targets=[ast.Name(id=nm, ctx=ast.Store())], value=body[j].value.args[0])
                    ast.copy_location(new, body[j])
                    ast.fix_missing_locations(new)
                    body[j] = new
                del body[unpack]
                del body[i]
                changed = True
                break
    return changed


def partial_eval(fn, module):
    """After unrolling: fold what became constant, split literal tuple assignments, scalarise dict-of-variables.  In place."""
    link_parents(fn)
    n = 0
    for _ in range(4):
        f = _Fold(module, fn)
        f.visit(fn)
        fn.body, ch = _split_tuple_assign(fn.body)
        link_parents(fn)
        sc = _scalarise_local_dicts(fn)
        link_parents(fn)
        if _list_then_unpack(fn):
            sc = True
            link_parents(fn)
        if not (f.changed or ch or sc):
            break
        n += 1
    return n


def unroll_table_loops(fn_node, module=None, max_rows=64, pure=None):
    """Returns (new function node, number of loops unrolled)."""
    fn = clone(fn_node)
    count = [0]

    def process(stmts):
        out = []
        for i, st in enumerate(stmts):
            for fld in ('body', 'orelse', 'finalbody'):
                v = getattr(st, fld, None)
                if isinstance(v, list) and v and isinstance(v[0], ast.stmt) and not isinstance(st, (ast.FunctionDef, ast.ClassDef)):
                    setattr(st, fld, process(v))
            for h in getattr(st, 'handlers', []) or []:
                h.body = process(h.body)
            if isinstance(st, ast.For) and not st.orelse:
                rep = try_unroll(st, out)
                if rep is not None:
                    out.extend(rep)
                    count[0] += 1
                    continue
            out.append(st)
        return out

    def try_unroll(st, before):
        if isinstance(st.target, ast.Name):
            targets = [st.target.id]
        elif isinstance(st.target, (ast.Tuple, ast.List)) and all(isinstance(e, ast.Name) for e in st.target.elts):
            targets = [e.id for e in st.target.elts]
        else:
            return None
        table = st.iter
        between = []
        # for k, v in enumerate((a, b, c)):  the rows are (0, a), (1, b), (2, c)
        if isinstance(table, ast.Call) and isinstance(table.func, ast.Name) and table.func.id == 'enumerate' and len(table.args) == 1 and not table.keywords \
                and len(targets) == 2:
            inner = table.args[0]
            if isinstance(inner, ast.Name):
                for j in range(len(before) - 1, -1, -1):
                    b = before[j]
                    if isinstance(b, ast.Assign) and len(b.targets) == 1 and isinstance(b.targets[0], ast.Name) and b.targets[0].id == inner.id:
                        if not (_assigned_names(before[j + 1:]) & {inner.id}):
                            between = before[j + 1:]
                            inner = b.value
                        break
            if isinstance(inner, (ast.Tuple, ast.List)) and inner.elts and not any(isinstance(e, ast.Starred) for e in inner.elts):
                table = ast.Tuple(elts=[ast.Tuple(elts=[ast.Constant(value=k), e], ctx=ast.Load()) for k, e in enumerate(inner.elts)], ctx=ast.Load())
        drows = _dict_rows(st.iter, len(targets), module, fn)
        if drows is not None:
            table = ast.Tuple(elts=[(r[0] if len(r) == 1 else ast.Tuple(elts=list(r), ctx=ast.Load())) for r in drows], ctx=ast.Load())
        if isinstance(table, ast.Name):
            # single binding in this statement list before the loop ...
            found = None
            for j in range(len(before) - 1, -1, -1):
                b = before[j]
                if isinstance(b, ast.Assign) and len(b.targets) == 1 and isinstance(b.targets[0], ast.Name) \
                        and b.targets[0].id == table.id:
                    found = b.value
                    between = before[j + 1:]
                    break
                if table.id in _assigned_names([b]):
                    return None
            if found is None and module is not None and table.id in module.assigns \
                    and table.id not in _assigned_names([fn]):
                found = module.assigns[table.id]
                # module-level tables must be all-constant
                if not all(isinstance(n, (ast.Tuple, ast.List, ast.Constant, ast.BinOp, ast.UnaryOp, ast.operator,
                                          ast.unaryop, ast.expr_context)) for n in ast.walk(found)):
                    return None
            if found is None:
                return None
            table = found
        rows = _table_rows(table, len(targets), pure)
        if rows is None:
            rows = _dict_rows(st.iter, len(targets), module, fn)
        if rows is None or len(rows) > max_rows:
            return None
        for n in ast.walk(st):
            if isinstance(n, (ast.Break, ast.Continue)):
                return None
        body_assigned = _assigned_names(st.body)
        if any(t in body_assigned for t in targets):
            return None
        used = set()
        for r in rows:
            for e in r:
                used |= {n.id for n in ast.walk(e) if isinstance(n, ast.Name)}
        if used & (_assigned_names(between) | body_assigned):
            return None
        if pure is not None:
            # rows with calls: the body must not change anything a row reads (assignment through, mutating call)
            from .normal import _mutated_names
            holder = ast.Module(body=list(st.body) + list(between), type_ignores=[])
            mut, _ = _mutated_names(holder)
            if used & mut:
                return None
        new = []
        for r in rows:
            mapping = dict(zip(targets, r))
            for b in st.body:
                nb = _Sub(mapping).visit(clone(b))
                new.append(nb)
        return new

    fn.body = process(fn.body)
    if count[0]:
        partial_eval(fn, module)
    ast.fix_missing_locations(fn)
    link_parents(fn)
    return fn, count[0]


_cache = {}


def normalized(func):
    """Func whose node has table loops unrolled (same module/qualname; positions kept)."""
    key = id(func.node)
    if key in _cache and _cache[key][0] is func.node:
        return _cache[key][1]
    node, n = unroll_table_loops(func.node, func.module)
    if n == 0:
        nf = func
    else:
        nf = Func(func.module, func.qualname, node, func.cls)
        for x in ast.walk(node):
            x._func = nf
        node._parent = getattr(func.node, '_parent', None)
    _cache[key] = (func.node, nf)
    return nf


def normalize_in_place(func):
    """Unroll the table loops of func.node and keep the result as func.node (same Func object)."""
    func._normalized = True
    node, n = unroll_table_loops(func.node, func.module)
    if n:
        node._parent = getattr(func.node, '_parent', None)
        func.node = node
        for x in ast.walk(node):
            x._func = func
    return n

"""Behaviour-preserving normalisations applied before a rule looks at a function, so that
table-driven spellings of the same logic are judged like the straight-line spelling:

* `for a, b in <literal table>` loops (tuple/list literal, or a name bound once to such a literal
  in the function or at module level) without break/continue are unrolled with the targets
  substituted by the element expressions.  Element expressions must be side-effect free
  (names, constants, arithmetic, attribute access) and the names they mention must not be
  rebound between the table and the loop.
"""

import ast

from .astutil import clone, link_parents, walk_local
from .loader import Func


def _pure(e):
    for n in ast.walk(e):
        if isinstance(n, (ast.Call, ast.Await, ast.Yield, ast.YieldFrom, ast.NamedExpr, ast.Lambda,
                          ast.ListComp, ast.SetComp, ast.DictComp, ast.GeneratorExp)):
            return False
    return True


def _assigned_names(stmts):
    out = set()
    for st in stmts:
        for n in ast.walk(st):
            if isinstance(n, ast.Name) and isinstance(n.ctx, (ast.Store, ast.Del)):
                out.add(n.id)
    return out


class _Sub(ast.NodeTransformer):
    def __init__(self, mapping):
        self.mapping = mapping

    def visit_Name(self, n):
        if n.id in self.mapping and isinstance(n.ctx, ast.Load):
            new = clone(self.mapping[n.id])
            for x in ast.walk(new):
                if hasattr(x, 'lineno'):
                    x.lineno = n.lineno
                    x.end_lineno = getattr(n, 'end_lineno', n.lineno)
                    x.col_offset = n.col_offset
                    x.end_col_offset = getattr(n, 'end_col_offset', n.col_offset)
            return new
        return n


def _table_rows(table, ntargets):
    if not isinstance(table, (ast.Tuple, ast.List)) or not table.elts:
        return None
    rows = []
    for e in table.elts:
        if ntargets == 1:
            if not _pure(e):
                return None
            rows.append([e])
        else:
            if not isinstance(e, (ast.Tuple, ast.List)) or len(e.elts) != ntargets:
                return None
            if not all(_pure(x) for x in e.elts):
                return None
            rows.append(list(e.elts))
    return rows


def unroll_table_loops(fn_node, module=None, max_rows=64):
    """Returns (new function node, number of loops unrolled)."""
    fn = clone(fn_node)
    count = [0]

    def process(stmts):
        out = []
        for i, st in enumerate(stmts):
            for fld in ('body', 'orelse', 'finalbody'):
                v = getattr(st, fld, None)
                if isinstance(v, list) and v and isinstance(v[0], ast.stmt) and not isinstance(st, (ast.FunctionDef, ast.ClassDef)):
                    setattr(st, fld, process(v))
            for h in getattr(st, 'handlers', []) or []:
                h.body = process(h.body)
            if isinstance(st, ast.For) and not st.orelse:
                rep = try_unroll(st, out)
                if rep is not None:
                    out.extend(rep)
                    count[0] += 1
                    continue
            out.append(st)
        return out

    def try_unroll(st, before):
        if isinstance(st.target, ast.Name):
            targets = [st.target.id]
        elif isinstance(st.target, (ast.Tuple, ast.List)) and all(isinstance(e, ast.Name) for e in st.target.elts):
            targets = [e.id for e in st.target.elts]
        else:
            return None
        table = st.iter
        between = []
        if isinstance(table, ast.Name):
            # single binding in this statement list before the loop ...
            found = None
            for j in range(len(before) - 1, -1, -1):
                b = before[j]
                if isinstance(b, ast.Assign) and len(b.targets) == 1 and isinstance(b.targets[0], ast.Name) \
                        and b.targets[0].id == table.id:
                    found = b.value
                    between = before[j + 1:]
                    break
                if table.id in _assigned_names([b]):
                    return None
            if found is None and module is not None and table.id in module.assigns \
                    and table.id not in _assigned_names([fn]):
                found = module.assigns[table.id]
                # module-level tables must be all-constant
                if not all(isinstance(n, (ast.Tuple, ast.List, ast.Constant, ast.BinOp, ast.UnaryOp, ast.operator,
                                          ast.unaryop, ast.expr_context)) for n in ast.walk(found)):
                    return None
            if found is None:
                return None
            table = found
        rows = _table_rows(table, len(targets))
        if rows is None or len(rows) > max_rows:
            return None
        for n in ast.walk(st):
            if isinstance(n, (ast.Break, ast.Continue)):
                return None
        body_assigned = _assigned_names(st.body)
        if any(t in body_assigned for t in targets):
            return None
        used = set()
        for r in rows:
            for e in r:
                used |= {n.id for n in ast.walk(e) if isinstance(n, ast.Name)}
        if used & (_assigned_names(between) | body_assigned):
            return None
        new = []
        for r in rows:
            mapping = dict(zip(targets, r))
            for b in st.body:
                nb = _Sub(mapping).visit(clone(b))
                new.append(nb)
        return new

    fn.body = process(fn.body)
    ast.fix_missing_locations(fn)
    link_parents(fn)
    return fn, count[0]


_cache = {}


def normalized(func):
    """Func whose node has table loops unrolled (same module/qualname; positions kept)."""
    key = id(func.node)
    if key in _cache and _cache[key][0] is func.node:
        return _cache[key][1]
    node, n = unroll_table_loops(func.node, func.module)
    if n == 0:
        nf = func
    else:
        nf = Func(func.module, func.qualname, node, func.cls)
        for x in ast.walk(node):
            x._func = nf
        node._parent = getattr(func.node, '_parent', None)
    _cache[key] = (func.node, nf)
    return nf


def normalize_in_place(func):
    """Unroll the table loops of func.node and keep the result as func.node (same Func object)."""
    func._normalized = True
    node, n = unroll_table_loops(func.node, func.module)
    if n:
        node._parent = getattr(func.node, '_parent', None)
        func.node = node
        for x in ast.walk(node):
            x._func = func
    return n

"""Normal form of a function modulo behaviour-preserving respellings.

Purpose: many rules recognise the repository's present idiom.  A maintainer's harmless respelling of an anchored function
(renamed locals, `b > a` for `a < b`, an inlined or extracted temporary, `if not c: B else: A`, a keyword argument passed
positionally, ...) must not change a verdict.  Instead of teaching every rule every spelling, the loader asks one question:
*is this function, after normalisation, identical to the reference spelling the rules were written against?*  If so the
reference spelling is analysed in its place.  Each normalisation below preserves meaning under the assumption stated with
it; a function that differs from the reference in any other way keeps its own spelling and is analysed as it is, so a real
change is never hidden.

Expression level (E1)
  a > b, a >= b            -> b < a, b <= a                 (reflected comparison)
  not a == b / is / in     -> a != b / is not / not in      (single comparison, not orderings: NaN)
  dtype='d'|'f8'           -> dtype=np.float64  (likewise i4, i8, u8, f4, i2)
  np.where(c)[0], np.nonzero(c)[0]   -> c.nonzero()[0]
  x[0:n]                   -> x[:n]
  range(0, n)              -> range(n)
  f(a, b) on a callee of the package -> f(p=a, q=b)         (bound through the callee's own parameter list)
Signature: annotations dropped; a trailing parameter with a constant default that the body never reads is dropped.
Constants: a module-level `NAME = <number|string>` and a local bound once to a literal expression read as their value;
  arithmetic on literals is folded (2**14 -> 16384).
Statement level (S)
  `name = <constant>` dropped when the name is never read; pass dropped; else: pass dropped; return None -> return
  if not c: A else: B      -> if c: B else: A              (also: if a != b / is not / not in ... else -> the positive test)
  if c: ...<return|raise|continue|break> else: B   -> if c: ...; B      (else after a terminal branch)
  if a: (only) if b: X     -> if a and b: X
  a, b = x, y              -> a = x; b = y        when x, y read neither a nor b
  v = e; S(v)              -> S(e)                v bound once, read once, in the next statement (assignment, return,
                                                  expression statement, if-test, for-iterable) and not under a lambda /
                                                  comprehension: e is assumed free of side effects that S could observe
  a = b                    -> uses of a read b    both bound once (or b an unmodified parameter), copy at function top level
Helpers that the reference does not have (a block moved into a new private function) are inlined at statement level first.
Then locals are numbered in order of first binding (alpha-renaming), and finally (E2) the operands of `*`, `&`, `|`,
`==`, `!=` and the keywords of every call are sorted (commutative on numbers and arrays; keyword evaluation order assumed
unobservable).
"""

import ast

from .astutil import clone

MIRROR = {ast.Gt: ast.Lt, ast.GtE: ast.LtE}
INVERT = {ast.Eq: ast.NotEq, ast.NotEq: ast.Eq, ast.Is: ast.IsNot, ast.IsNot: ast.Is, ast.In: ast.NotIn, ast.NotIn: ast.In}
DTYPES = {'d': 'float64', 'f8': 'float64', 'i4': 'int32', 'i8': 'int64', 'u8': 'uint64', 'f4': 'float32', 'i2': 'int16'}
COMMUTATIVE = (ast.Mult, ast.BitOr, ast.BitAnd)
SCOPES = (ast.FunctionDef, ast.AsyncFunctionDef, ast.ClassDef, ast.Lambda)
TERMINAL = (ast.Return, ast.Raise, ast.Continue, ast.Break)


class _E1(ast.NodeTransformer):
    def __init__(self, callee_info):
        self.callee_info = callee_info

    def visit_Compare(self, n):
        self.generic_visit(n)
        if len(n.ops) == 1 and type(n.ops[0]) in MIRROR:
            n.left, n.comparators[0] = n.comparators[0], n.left
            n.ops = [MIRROR[type(n.ops[0])]()]
        return n

    def visit_UnaryOp(self, n):
        self.generic_visit(n)
        if isinstance(n.op, ast.Not) and isinstance(n.operand, ast.Compare) and len(n.operand.ops) == 1 \
                and type(n.operand.ops[0]) in INVERT:
            c = n.operand
            c.ops = [INVERT[type(c.ops[0])]()]
            return c
        return n

    def visit_BoolOp(self, n):
        self.generic_visit(n)
        vals = []
        for v in n.values:
            if isinstance(v, ast.BoolOp) and type(v.op) is type(n.op):
                vals.extend(v.values)
            else:
                vals.append(v)
        n.values = vals
        return n

    def visit_keyword(self, n):
        self.generic_visit(n)
        if n.arg == 'dtype' and isinstance(n.value, ast.Constant) and n.value.value in DTYPES:
            n.value = ast.Attribute(value=ast.Name(id='np', ctx=ast.Load()), attr=DTYPES[n.value.value], ctx=ast.Load())
        return n

    def visit_Slice(self, n):
        self.generic_visit(n)
        if isinstance(n.lower, ast.Constant) and type(n.lower.value) is int and n.lower.value == 0:
            n.lower = None
        return n

    def visit_Subscript(self, n):
        self.generic_visit(n)
        if isinstance(n.slice, ast.Constant) and type(n.slice.value) is int and n.slice.value == 0 and isinstance(n.value, ast.Call):
            call = n.value
            f = call.func
            if isinstance(f, ast.Attribute) and isinstance(f.value, ast.Name) and f.value.id in ('np', 'numpy') \
                    and f.attr in ('where', 'nonzero') and len(call.args) == 1 and not call.keywords:
                n.value = ast.Call(func=ast.Attribute(value=call.args[0], attr='nonzero', ctx=ast.Load()), args=[], keywords=[])
        return n

    def visit_Call(self, n):
        info = self.callee_info(n) if self.callee_info is not None else None
        self.generic_visit(n)
        if isinstance(n.func, ast.Name) and n.func.id == 'range' and len(n.args) == 2 and not n.keywords \
                and isinstance(n.args[0], ast.Constant) and type(n.args[0].value) is int and n.args[0].value == 0:
            n.args = n.args[1:]
        if info is not None and n.args and not any(isinstance(a, ast.Starred) for a in n.args) \
                and not any(k.arg is None for k in n.keywords):
            params, offset = info
            if len(n.args) + offset <= len(params):
                names = params[offset:offset + len(n.args)]
                if not (set(names) & {k.arg for k in n.keywords}):
                    n.keywords = [ast.keyword(arg=p, value=a) for p, a in zip(names, n.args)] + n.keywords
                    n.args = []
        return n


def _count(fn, name):
    return sum(1 for x in ast.walk(fn) if isinstance(x, ast.Name) and x.id == name)


def _names(n):
    return {x.id for x in ast.walk(n) if isinstance(x, ast.Name)}


def _block_fields(n):
    for fld in ('body', 'orelse', 'finalbody'):
        v = getattr(n, fld, None)
        if isinstance(v, list) and (not v or isinstance(v[0], ast.stmt)) and not isinstance(n, ast.Lambda) and not isinstance(n, ast.IfExp):
            yield fld
    # handlers are nodes with their own body


def _stmt_pass(node):
    """One bottom-up pass of the statement-level rewrites over every block under node.  Returns True when something changed."""
    changed = False
    for child in ast.iter_child_nodes(node):
        if isinstance(child, SCOPES):
            continue
        if _stmt_pass(child):
            changed = True
    if isinstance(node, ast.Return) and isinstance(node.value, ast.Constant) and node.value.value is None:
        node.value = None
        changed = True
    if isinstance(node, (ast.If, ast.For, ast.While, ast.AsyncFor)) and len(node.orelse) == 1 and isinstance(node.orelse[0], ast.Pass):
        node.orelse = []
        changed = True
    if isinstance(node, ast.If):
        if node.orelse and len(node.body) == 1 and isinstance(node.body[0], ast.Pass):
            node.test = _negate(node.test)
            node.body, node.orelse = node.orelse, []
            changed = True
        # polarity is canonical only where it is not already fixed by "the terminal branch goes first" (block level below)
        free = bool(node.orelse) and not isinstance(node.body[-1], TERMINAL) and not isinstance(node.orelse[-1], TERMINAL)
        if free and isinstance(node.test, ast.UnaryOp) and isinstance(node.test.op, ast.Not):
            node.test = node.test.operand
            node.body, node.orelse = node.orelse, node.body
            changed = True
        if free and isinstance(node.test, ast.Compare) and len(node.test.ops) == 1 \
                and isinstance(node.test.ops[0], (ast.NotEq, ast.IsNot, ast.NotIn)):
            node.test.ops = [INVERT[type(node.test.ops[0])]()]
            node.body, node.orelse = node.orelse, node.body
            changed = True
        if not node.orelse and len(node.body) == 1 and isinstance(node.body[0], ast.If) and not node.body[0].orelse:
            inner = node.body[0]
            vals = (node.test.values if isinstance(node.test, ast.BoolOp) and isinstance(node.test.op, ast.And) else [node.test]) + \
                   (inner.test.values if isinstance(inner.test, ast.BoolOp) and isinstance(inner.test.op, ast.And) else [inner.test])
            node.test = ast.BoolOp(op=ast.And(), values=vals)
            node.body = inner.body
            changed = True
    for fld in list(_block_fields(node)) if not isinstance(node, ast.expr) else []:
        body = getattr(node, fld)
        if not isinstance(body, list):
            continue
        new = []
        i = 0
        blk_changed = False
        while i < len(body):
            st = body[i]
            if isinstance(st, ast.Pass) and len(body) > 1:
                blk_changed = True
                i += 1
                continue
            if isinstance(st, ast.If) and st.orelse and st.body and isinstance(st.body[-1], TERMINAL):
                # else after a terminal branch: the else block is the rest of this block
                body[i + 1:i + 1] = st.orelse
                st.orelse = []
                blk_changed = True
                continue                      # look at the same statement again (now without else)
            if isinstance(st, ast.If) and not st.orelse and isinstance(st.body[-1], TERMINAL) and i + 1 < len(body) \
                    and isinstance(body[-1], TERMINAL) and _size_key(body[i + 1:]) < _size_key(st.body):
                # both continuations are terminal: the smaller one is the guarded one
                rest = body[i + 1:]
                st.test = _negate(st.test)
                body[i + 1:] = st.body
                st.body = rest
                blk_changed = True
                new.append(st)
                i += 1
                continue
            if isinstance(st, ast.If) and st.orelse and isinstance(st.orelse[-1], TERMINAL) and not isinstance(st.body[-1], TERMINAL) \
                    and not (len(st.orelse) == 1 and isinstance(st.orelse[0], ast.If)):
                # the terminal branch goes first
                st.test = _negate(st.test)
                tail = st.body
                st.body = st.orelse
                st.orelse = []
                new.append(st)
                new.extend(tail)
                blk_changed = True
                i += 1
                continue
            if isinstance(st, ast.Assign) and len(st.targets) == 1 and isinstance(st.targets[0], ast.Tuple) and isinstance(st.value, ast.Tuple) \
                    and len(st.targets[0].elts) == len(st.value.elts) and all(isinstance(e, ast.Name) for e in st.targets[0].elts) \
                    and not (_names(st.value) & {e.id for e in st.targets[0].elts}):
                for t, v in zip(st.targets[0].elts, st.value.elts):
                    new.append(ast.Assign(targets=[t], value=v, lineno=st.lineno, col_offset=st.col_offset))
                blk_changed = True
                i += 1
                continue
            new.append(st)
            i += 1
        if blk_changed:
            if not new:
                new = [ast.Pass()]
            setattr(node, fld, new)
            changed = True
    return changed


def _negate(test):
    if isinstance(test, ast.UnaryOp) and isinstance(test.op, ast.Not):
        return test.operand
    return ast.UnaryOp(op=ast.Not(), operand=test)


def _size_key(stmts):
    return (sum(1 for s in stmts for _ in ast.walk(s)), ''.join(ast.dump(s) for s in stmts))


def _single_use_site(nxt, v):
    """The expression slot of statement nxt in which v may be inlined: the whole simple statement, an if-test, a for-iterable."""
    if isinstance(nxt, (ast.Assign, ast.AugAssign, ast.Return, ast.Expr, ast.AnnAssign)):
        return nxt
    if isinstance(nxt, ast.If):
        return nxt.test
    if isinstance(nxt, (ast.For, ast.AsyncFor)):
        return nxt.iter
    return None


def _replace(root, old, new):
    for n in ast.walk(root):
        for f, val in ast.iter_fields(n):
            if val is old:
                setattr(n, f, new)
                return True
            if isinstance(val, list):
                for i, x in enumerate(val):
                    if x is old:
                        val[i] = new
                        return True
    return False


def _inline_pass(fn):
    changed = False
    params = {a.arg for a in fn.args.posonlyargs + fn.args.args + fn.args.kwonlyargs}

    def blocks(n):
        for c in ast.iter_child_nodes(n):
            if isinstance(c, SCOPES):
                continue
            yield from blocks(c)
        if not isinstance(n, ast.expr):
            for fld in _block_fields(n):
                yield n, fld
    for owner, fld in list(blocks(fn)):
        body = getattr(owner, fld)
        i = 0
        while i + 1 < len(body):
            st = body[i]
            if isinstance(st, ast.Assign) and len(st.targets) == 1 and isinstance(st.targets[0], ast.Name):
                v = st.targets[0].id
                nxt = body[i + 1]
                slot = _single_use_site(nxt, v)
                if slot is not None and v not in params and _count(fn, v) == 2:
                    where = slot if isinstance(nxt, (ast.If, ast.For, ast.AsyncFor)) else nxt
                    uses = [x for x in ast.walk(where) if isinstance(x, ast.Name) and x.id == v and isinstance(x.ctx, ast.Load)]
                    shielded = False
                    if len(uses) == 1:
                        for x in ast.walk(where):
                            if isinstance(x, (ast.Lambda, ast.ListComp, ast.GeneratorExp, ast.DictComp, ast.SetComp)) \
                                    and any(y is uses[0] for y in ast.walk(x)):
                                shielded = True
                    if len(uses) == 1 and not shielded:
                        if where is slot and isinstance(nxt, ast.If) and slot is uses[0]:
                            nxt.test = st.value
                        elif where is slot and isinstance(nxt, (ast.For, ast.AsyncFor)) and slot is uses[0]:
                            nxt.iter = st.value
                        else:
                            _replace(where, uses[0], st.value)
                        del body[i]
                        changed = True
                        continue
            i += 1
    return changed


def _locals(fn):
    params = {a.arg for a in fn.args.posonlyargs + fn.args.args + fn.args.kwonlyargs}
    if fn.args.vararg:
        params.add(fn.args.vararg.arg)
    if fn.args.kwarg:
        params.add(fn.args.kwarg.arg)
    glob = {x for n in ast.walk(fn) if isinstance(n, (ast.Global, ast.Nonlocal)) for x in n.names}
    order = []

    def rec(n):
        for c in ast.iter_child_nodes(n):
            if isinstance(c, SCOPES):
                continue
            # evaluation order: value before targets would be more faithful, but any fixed order serves
            rec(c)
        if isinstance(n, ast.Name) and isinstance(n.ctx, ast.Store) and n.id not in order:
            order.append(n.id)
        elif isinstance(n, ast.ExceptHandler) and n.name and n.name not in order:
            order.append(n.name)
    rec(fn)
    return [x for x in order if x not in params and x not in glob]


def _alpha(fn):
    mapping = {v: '§%d' % i for i, v in enumerate(_locals(fn))}
    for n in ast.walk(fn):
        if isinstance(n, ast.Name) and n.id in mapping:
            n.id = mapping[n.id]
        elif isinstance(n, ast.ExceptHandler) and n.name in mapping:
            n.name = mapping[n.name]
    return mapping


class _E2(ast.NodeTransformer):
    def visit_BinOp(self, n):
        self.generic_visit(n)
        if isinstance(n.op, COMMUTATIVE):
            a, b = ast.dump(n.left), ast.dump(n.right)
            if b < a:
                n.left, n.right = n.right, n.left
        return n

    def visit_Compare(self, n):
        self.generic_visit(n)
        if len(n.ops) == 1 and isinstance(n.ops[0], (ast.Eq, ast.NotEq)):
            a, b = ast.dump(n.left), ast.dump(n.comparators[0])
            if b < a:
                n.left, n.comparators[0] = n.comparators[0], n.left
        return n

    def visit_Call(self, n):
        self.generic_visit(n)
        if n.keywords and all(k.arg is not None for k in n.keywords):
            n.keywords = sorted(n.keywords, key=lambda k: k.arg)
        return n


def _strip_signature(c):
    """Annotations carry no behaviour; a trailing parameter with a default that the body never reads does not either."""
    c.returns = None
    for a in c.args.posonlyargs + c.args.args + c.args.kwonlyargs + ([c.args.vararg] if c.args.vararg else []) + ([c.args.kwarg] if c.args.kwarg else []):
        a.annotation = None
    used = {x.id for st in c.body for x in ast.walk(st) if isinstance(x, ast.Name)}
    while c.args.args and c.args.defaults and c.args.args[-1].arg not in used and len(c.args.defaults) >= 1 \
            and isinstance(c.args.defaults[-1], ast.Constant) and c.args.kwarg is None and c.args.vararg is None and not c.args.kwonlyargs:
        c.args.args.pop()
        c.args.defaults.pop()
    for st in ast.walk(c):
        if isinstance(st, ast.AnnAssign) and st.value is not None and st.simple:
            pass
    return c


def _dead_constant_stores(fn):
    """`_dbg = 0` where the name is never read anywhere in the function: no effect."""
    reads = {x.id for x in ast.walk(fn) if isinstance(x, ast.Name) and isinstance(x.ctx, ast.Load)}
    glob = {x for n in ast.walk(fn) if isinstance(n, (ast.Global, ast.Nonlocal)) for x in n.names}
    changed = False
    for n in ast.walk(fn):
        for fld in ('body', 'orelse', 'finalbody'):
            v = getattr(n, fld, None)
            if isinstance(v, list) and v and isinstance(v[0], ast.stmt) and not isinstance(n, ast.Lambda):
                kept = [st for st in v if not (isinstance(st, ast.Assign) and len(st.targets) == 1 and isinstance(st.targets[0], ast.Name)
                                               and st.targets[0].id not in reads and st.targets[0].id not in glob
                                               and isinstance(st.value, ast.Constant))]
                if len(kept) != len(v):
                    setattr(n, fld, kept or [ast.Pass()])
                    changed = True
    return changed


def _const_prop(fn, consts):
    """Named constants read as their value: module-level `NAME = <number|string>` (consts) and locals bound exactly once to a
    constant expression made of literals."""
    from .astutil import try_fold
    params = {a.arg for a in fn.args.posonlyargs + fn.args.args + fn.args.kwonlyargs}
    if fn.args.vararg:
        params.add(fn.args.vararg.arg)
    if fn.args.kwarg:
        params.add(fn.args.kwarg.arg)
    stores = {}
    for n in ast.walk(fn):
        if isinstance(n, ast.Name) and isinstance(n.ctx, (ast.Store, ast.Del)):
            stores[n.id] = stores.get(n.id, 0) + 1
        elif isinstance(n, (ast.Global, ast.Nonlocal)):
            for x in n.names:
                stores[x] = stores.get(x, 0) + 2
    local_consts = {}
    for st in fn.body:
        if isinstance(st, ast.Assign) and len(st.targets) == 1 and isinstance(st.targets[0], ast.Name) and stores.get(st.targets[0].id) == 1 \
                and st.targets[0].id not in params:
            v = st.value
            if all(isinstance(x, (ast.Constant, ast.BinOp, ast.UnaryOp, ast.operator, ast.unaryop, ast.expr_context)) for x in ast.walk(v)):
                k = try_fold(v)
                if isinstance(k, (int, float, str)) and not isinstance(k, bool):
                    local_consts[st.targets[0].id] = (k, st)
    mapping = {}
    for name, v in (consts or {}).items():
        if name not in stores and name not in params:
            mapping[name] = v
    for name, (k, st) in local_consts.items():
        mapping[name] = k
    if not mapping:
        return False

    class P(ast.NodeTransformer):
        def visit_Name(self, n):
            if isinstance(n.ctx, ast.Load) and n.id in mapping:
                return ast.copy_location(ast.Constant(value=mapping[n.id]), n)
            return n
    P().visit(fn)
    drop = {id(st) for k, st in local_consts.values()}
    fn.body = [st for st in fn.body if id(st) not in drop] or [ast.Pass()]
    return True


class _FoldConst(ast.NodeTransformer):
    """2**14 -> 16384, -1*3 -> -3: arithmetic on literals only."""
    def visit_BinOp(self, n):
        self.generic_visit(n)
        if isinstance(n.left, ast.Constant) and isinstance(n.right, ast.Constant) and not isinstance(n.left.value, (str, bytes, bool)) \
                and not isinstance(n.right.value, (str, bytes, bool)) and isinstance(n.left.value, (int, float)) and isinstance(n.right.value, (int, float)):
            from .astutil import try_fold
            k = try_fold(n)
            if isinstance(k, (int, float)) and not isinstance(k, bool) and abs(k) < 2 ** 80:
                return ast.copy_location(ast.Constant(value=k), n)
        return n

    def visit_UnaryOp(self, n):
        self.generic_visit(n)
        if isinstance(n.op, ast.USub) and isinstance(n.operand, ast.Constant) and isinstance(n.operand.value, (int, float)) and not isinstance(n.operand.value, bool):
            return ast.copy_location(ast.Constant(value=-n.operand.value), n)
        return n


def _copy_prop(fn):
    """`a = b` with both names bound exactly once (or b a parameter that is never re-bound): a reads as b."""
    params = {x.arg for x in fn.args.posonlyargs + fn.args.args + fn.args.kwonlyargs}
    stores = {}
    for n in ast.walk(fn):
        if isinstance(n, ast.Name) and isinstance(n.ctx, (ast.Store, ast.Del)):
            stores[n.id] = stores.get(n.id, 0) + 1
        elif isinstance(n, (ast.Global, ast.Nonlocal)):
            for x in n.names:
                stores[x] = stores.get(x, 0) + 2
        elif isinstance(n, ast.arg):
            pass
    changed = False
    for owner in ast.walk(fn):
        for fld in ('body', 'orelse', 'finalbody'):
            body = getattr(owner, fld, None)
            if not (isinstance(body, list) and body and isinstance(body[0], ast.stmt)) or isinstance(owner, ast.Lambda):
                continue
            for st in list(body):
                if isinstance(st, ast.Assign) and len(st.targets) == 1 and isinstance(st.targets[0], ast.Name) and isinstance(st.value, ast.Name):
                    a, b = st.targets[0].id, st.value.id
                    if a == b or a in params or stores.get(a) != 1:
                        continue
                    if not ((b in params and stores.get(b, 0) == 0) or stores.get(b) == 1):
                        continue
                    # the copy must dominate its uses: only top-level statements of the function body are considered
                    if owner is not fn:
                        continue
                    for x in ast.walk(fn):
                        if isinstance(x, ast.Name) and x.id == a and isinstance(x.ctx, ast.Load):
                            x.id = b
                    body.remove(st)
                    changed = True
            if not body:
                body.append(ast.Pass())
    return changed


def inline_new_helpers(fn, resolve, is_new, depth=2):
    """Statement-level inlining of calls to package helpers that do not exist in the reference (a block that was moved into a new
    private function).  resolve(call) -> FunctionDef node of the callee or None; is_new(node) -> True when the reference has no
    function of that name.  Only helpers with plain positional parameters, no nested scopes, no global state and a single return as
    their last statement (or none) are inlined, at call sites of the forms `T = h(..)`, `return h(..)`, `h(..)`."""
    counter = [0]

    def inlinable(g):
        a = g.args
        if a.vararg or a.kwarg or a.kwonlyargs or a.posonlyargs or g.decorator_list:
            return False
        body = list(g.body)
        if body and isinstance(body[0], ast.Expr) and isinstance(body[0].value, ast.Constant) and isinstance(body[0].value.value, str):
            body = body[1:]
        if not body:
            return False
        for n in ast.walk(g):
            if n is not g and isinstance(n, SCOPES + (ast.Global, ast.Nonlocal, ast.Yield, ast.YieldFrom, ast.Await)):
                return False
        rets = [n for n in ast.walk(g) if isinstance(n, ast.Return)]
        if len(rets) > 1 or (rets and rets[0] is not body[-1]):
            return False
        return True

    def expand(call, g, how, target):
        counter[0] += 1
        tag = '_h%d_' % counter[0]
        a = g.args
        params = [x.arg for x in a.args]
        pos_args = list(call.args)
        if getattr(g, '_bound_self', None) is not None:
            pos_args = [g._bound_self] + pos_args
        if any(isinstance(x, ast.Starred) for x in pos_args) or any(k.arg is None for k in call.keywords) or len(pos_args) > len(params):
            return None
        binding = dict(zip(params, pos_args))
        for k in call.keywords:
            if k.arg not in params or k.arg in binding:
                return None
            binding[k.arg] = k.value
        defaults = dict(zip(params[len(params) - len(a.defaults):], a.defaults))
        for p_ in params:
            if p_ not in binding:
                if p_ not in defaults:
                    return None
                binding[p_] = defaults[p_]
        body = [clone(st) for st in g.body]
        if body and isinstance(body[0], ast.Expr) and isinstance(body[0].value, ast.Constant) and isinstance(body[0].value.value, str):
            body = body[1:]
        locs = set(params) | {n.id for st in body for n in ast.walk(st) if isinstance(n, ast.Name) and isinstance(n.ctx, (ast.Store, ast.Del))}
        for st in body:
            for n in ast.walk(st):
                if isinstance(n, ast.Name) and n.id in locs:
                    n.id = tag + n.id
                elif isinstance(n, ast.ExceptHandler) and n.name in locs:
                    n.name = tag + n.name
        # a parameter that the helper never re-binds and whose argument is a plain reference (names, attributes, subscripts, constants)
        # is substituted directly; anything else is bound once, like the call would
        rebound = {n.id for st in body for n in ast.walk(st) if isinstance(n, ast.Name) and isinstance(n.ctx, (ast.Store, ast.Del))}
        out = []
        direct = {}
        for p_ in params:
            arg = binding[p_]
            plain = all(isinstance(x, (ast.Name, ast.Attribute, ast.Subscript, ast.Constant, ast.expr_context, ast.Tuple, ast.Slice, ast.UnaryOp, ast.USub))
                        for x in ast.walk(arg))
            if plain and (tag + p_) not in rebound:
                direct[tag + p_] = arg
            else:
                out.append(ast.Assign(targets=[ast.Name(id=tag + p_, ctx=ast.Store())], value=clone(arg)))
        if direct:
            class D(ast.NodeTransformer):
                def visit_Name(self, n):
                    if n.id in direct and isinstance(n.ctx, ast.Load):
                        return ast.copy_location(clone(direct[n.id]), n)
                    return n
            body = [D().visit(st) for st in body]
        last = body[-1] if body else None
        if isinstance(last, ast.Return):
            body = body[:-1]
            val = last.value if last.value is not None else ast.Constant(value=None)
            if how == 'assign':
                tail = [ast.Assign(targets=[clone(t) for t in target], value=val)]
            elif how == 'aug':
                tail = [ast.AugAssign(target=clone(target[0]), op=target[1], value=val)]
            elif how == 'return':
                tail = [ast.Return(value=val)]
            else:
                tail = [ast.Expr(value=val)] if not isinstance(val, (ast.Name, ast.Constant, ast.Tuple)) else []
        else:
            if how == 'aug':
                return None
            if how == 'assign':
                tail = [ast.Assign(targets=[clone(t) for t in target], value=ast.Constant(value=None))]
            elif how == 'return':
                tail = [ast.Return(value=None)]
            else:
                tail = []
        return out + body + tail

    def process(stmts, d):
        out = []
        changed = False
        for st in stmts:
            for fld in ('body', 'orelse', 'finalbody'):
                v = getattr(st, fld, None)
                if isinstance(v, list) and v and isinstance(v[0], ast.stmt) and not isinstance(st, SCOPES):
                    nv, ch = process(v, d)
                    setattr(st, fld, nv)
                    changed |= ch
            for h in getattr(st, 'handlers', []) or []:
                h.body, ch = process(h.body, d)
                changed |= ch
            call, how, target = None, None, None
            if isinstance(st, ast.Assign) and isinstance(st.value, ast.Call):
                call, how, target = st.value, 'assign', st.targets
            elif isinstance(st, ast.Return) and isinstance(st.value, ast.Call):
                call, how = st.value, 'return'
            elif isinstance(st, ast.AugAssign) and isinstance(st.value, ast.Call):
                call, how, target = st.value, 'aug', (st.target, st.op)
            elif isinstance(st, ast.Expr) and isinstance(st.value, ast.Call):
                call, how = st.value, 'expr'
            rep = None
            if call is not None and d > 0:
                g = resolve(call)
                if g is not None and is_new(g) and inlinable(g):
                    rep = expand(call, g, how, target)
            if rep is not None:
                rep2, _ = process(rep, d - 1)
                for r_ in rep2:
                    ast.copy_location(r_, st)
                    ast.fix_missing_locations(r_)
                out.extend(rep2)
                changed = True
            else:
                out.append(st)
        return out, changed
    c = clone(fn)
    c.body, ch = process(c.body, depth)
    return c if ch else fn


def normal_form(fn, callee_info=None, consts=None):
    """A normalised private copy of the function definition node fn.  consts: {module-level NAME: python constant}."""
    c = clone(fn)
    c.decorator_list = list(c.decorator_list)
    _strip_signature(c)
    _dead_constant_stores(c)
    _const_prop(c, consts)
    c = _FoldConst().visit(c)
    if c.body and isinstance(c.body[0], ast.Expr) and isinstance(c.body[0].value, ast.Constant) and isinstance(c.body[0].value.value, str):
        # indentation of a docstring is not content
        c.body[0].value.value = '\n'.join(l.strip() for l in c.body[0].value.value.strip().split('\n'))
    for _ in range(6):
        before = ast.dump(c)
        c = _E1(callee_info).visit(c)
        while _stmt_pass(c):
            pass
        while _inline_pass(c):
            pass
        _copy_prop(c)
        if ast.dump(c) == before:
            break
    _alpha(c)
    c = _E2().visit(c)
    return c


def nf_key(fn, callee_info=None, consts=None):
    c = normal_form(fn, callee_info, consts)
    return ast.dump(c, include_attributes=False)

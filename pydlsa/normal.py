"""Normal form of a function modulo behaviour-preserving respellings.

Purpose: many rules recognise the repository's present idiom.  A maintainer's harmless respelling of an anchored function
(renamed locals, `b > a` for `a < b`, an inlined or extracted temporary, `if not c: B else: A`, a keyword argument passed
positionally, ...) must not change a verdict.  Instead of teaching every rule every spelling, the loader asks one question:
*is this function, after normalisation, identical to the reference spelling the rules were written against?*  If so the
reference spelling is analysed in its place.  Each normalisation below preserves meaning under the assumption stated with
it; a function that differs from the reference in any other way keeps its own spelling and is analysed as it is, so a real
change is never hidden.

Expression level (E1)
  a > b, a >= b            -> b < a, b <= a                 (reflected comparison)
  not a == b / is / in     -> a != b / is not / not in      (single comparison, not orderings: NaN)
  dtype='d'|'f8'           -> dtype=np.float64  (likewise i4, i8, u8, f4, i2)
  np.where(c)[0], np.nonzero(c)[0]   -> c.nonzero()[0]
  x[0:n]                   -> x[:n]
  range(0, n)              -> range(n)
  f(a, b) on a callee of the package -> f(p=a, q=b)         (bound through the callee's own parameter list)
Signature: annotations dropped; a trailing parameter with a constant default that the body never reads is dropped.
Constants: a module-level `NAME = <number|string>` and a local bound once to a literal expression read as their value;
  arithmetic on literals is folded (2**14 -> 16384).
Statement level (S)
  `name = <constant>` dropped when the name is never read; pass dropped; else: pass dropped; return None -> return
  if not c: A else: B      -> if c: B else: A              (also: if a != b / is not / not in ... else -> the positive test)
  if c: ...<return|raise|continue|break> else: B   -> if c: ...; B      (else after a terminal branch)
  if a: (only) if b: X     -> if a and b: X
  a, b = x, y              -> a = x; b = y        when x, y read neither a nor b
  v = e; S(v)              -> S(e)                v bound once, read once, in the next statement (assignment, return,
                                                  expression statement, if-test, for-iterable) and not under a lambda /
                                                  comprehension: e is assumed free of side effects that S could observe
  a = b                    -> uses of a read b    both bound once (or b an unmodified parameter), copy at function top level
Helpers that the reference does not have (a block moved into a new private function) are inlined at statement level first.
  if c: x = a else: x = b  -> x = a if c else b
  if T: continue; REST     -> if not T: REST      (loop bodies)
  xs = []; for t in it: [if c:] xs.append(e)      -> xs = [e for t in it if c]
  t = <pure expr over stable names>; ... t ...    -> the expression itself (also for module-level NAME = <pure expr>, e.g. a compiled pattern);
                                                     pure = no calls but side-effect-free builtins, str / array query methods, np.*, re.*;
                                                     stable = never re-bound, assigned through, or receiver of a mutating call in the function
NumPy spellings: dtype given as string or type; np.zeros(n, 'i4'); 1-tuple shapes; np.full(shape, int) ; np.bitwise_and / a & b;
  np.sum(x, axis=k) / x.sum(k); x.transpose() / x.T; np.degrees / np.rad2deg.  Message arguments of raise / warn / log calls are ignored.
Then locals are numbered in order of first binding (alpha-renaming), and finally (E2) the operands of `*`, `&`, `|`,
`==`, `!=` and the keywords of every call are sorted (commutative on numbers and arrays; keyword evaluation order assumed
unobservable).
"""

import ast
import re

from .astutil import clone

MIRROR = {ast.Gt: ast.Lt, ast.GtE: ast.LtE}
INVERT = {ast.Eq: ast.NotEq, ast.NotEq: ast.Eq, ast.Is: ast.IsNot, ast.IsNot: ast.Is, ast.In: ast.NotIn, ast.NotIn: ast.In}
DTYPES = {'d': 'float64', 'f8': 'float64', 'i4': 'int32', 'i8': 'int64', 'u8': 'uint64', 'f4': 'float32', 'i2': 'int16'}
COMMUTATIVE = (ast.Mult, ast.BitOr, ast.BitAnd)
SCOPES = (ast.FunctionDef, ast.AsyncFunctionDef, ast.ClassDef, ast.Lambda)
TERMINAL = (ast.Return, ast.Raise, ast.Continue, ast.Break)


NP_ALIASES = {'degrees': 'rad2deg', 'radians': 'deg2rad', 'absolute': 'abs', 'float_': 'float64', 'bool8': 'bool_', 'concatenate': 'concatenate'}
DTYPE_NAMES = {'d': 'float64', 'f8': 'float64', 'float64': 'float64', 'double': 'float64', 'float': 'float64',
               'f': 'float32', 'f4': 'float32', 'float32': 'float32',
               'i4': 'int32', 'int32': 'int32', 'i8': 'int64', 'int64': 'int64', 'i2': 'int16', 'int16': 'int16',
               'u8': 'uint64', 'uint64': 'uint64', 'u4': 'uint32', 'uint32': 'uint32', 'u2': 'uint16', 'uint16': 'uint16',
               'bool': 'bool_', '?': 'bool_', 'bool_': 'bool_', 'b1': 'bool_'}


def _dtype_canon(e):
    """'d' / 'f8' / np.float64 / float -> np.float64 and so on (the same dtype object in every spelling)."""
    name = None
    if isinstance(e, ast.Constant) and isinstance(e.value, str):
        name = DTYPE_NAMES.get(e.value.lstrip('<=|'))
    elif isinstance(e, ast.Name) and e.id in ('float', 'bool'):
        name = DTYPE_NAMES[e.id]
    elif isinstance(e, ast.Attribute) and isinstance(e.value, ast.Name) and e.value.id in ('np', 'numpy') and e.attr in DTYPE_NAMES:
        name = DTYPE_NAMES[e.attr]
    if name is None:
        return e
    return ast.copy_location(ast.Attribute(value=ast.Name(id='np', ctx=ast.Load()), attr=name, ctx=ast.Load()), e)


ASTROPY_LEADING = {'Angle': ('angle', 'unit'), 'Longitude': ('angle', 'unit'), 'Latitude': ('angle', 'unit'), 'Quantity': ('value', 'unit')}
# leading positional parameters of numpy routines the package uses (numpy reference; unchanged since 1.x)
NP_LEADING = {'zeros': ('shape',), 'ones': ('shape',), 'empty': ('shape',), 'full': ('shape', 'fill_value'), 'zeros_like': ('a',), 'ones_like': ('a',),
              'empty_like': ('prototype',), 'where': ('condition', 'x', 'y'), 'clip': ('a', 'a_min', 'a_max'), 'interp': ('x', 'xp', 'fp'),
              'tile': ('A', 'reps'), 'outer': ('a', 'b'), 'dot': ('a', 'b'), 'array': ('object',), 'asarray': ('a',), 'sum': ('a',), 'cumsum': ('a',),
              'argsort': ('a',), 'sort': ('a',), 'unique': ('ar',), 'insert': ('arr', 'obj', 'values'), 'append': ('arr', 'values'),
              'concatenate': ('arrays',), 'searchsorted': ('a', 'v'), 'nonzero': ('a',), 'isfinite': ('x',), 'sqrt': ('x',), 'abs': ('x',),
              'absolute': ('x',), 'cos': ('x',), 'sin': ('x',), 'deg2rad': ('x',), 'rad2deg': ('x',), 'radians': ('x',), 'degrees': ('x',),
              'arccos': ('x',), 'arcsin': ('x',), 'arctan2': ('x1', 'x2'), 'fmod': ('x1', 'x2'), 'minimum': ('x1', 'x2'), 'maximum': ('x1', 'x2'),
              'floor': ('x',), 'ceil': ('x',), 'log10': ('x',), 'exp': ('x',), 'median': ('a',), 'mean': ('a',), 'result_type': ()}


class _E1(ast.NodeTransformer):
    def __init__(self, callee_info, kwarg=None):
        self.callee_info = callee_info
        self.kwarg = kwarg           # name of the function's **kwargs parameter: certainly a dict

    def visit_Compare(self, n):
        self.generic_visit(n)
        # a < b < c  ==  a < b and b < c   (b evaluated once; b has no effects)
        if len(n.ops) > 1 and all(_pure_expr(c) for c in n.comparators[:-1]):
            parts = []
            left = n.left
            for op, right in zip(n.ops, n.comparators):
                parts.append(self.visit_Compare(ast.copy_location(ast.Compare(left=clone(left), ops=[op], comparators=[clone(right)]), n)))
                left = right
            return self.visit_BoolOp(ast.copy_location(ast.BoolOp(op=ast.And(), values=parts), n))
        # (A if c else None) is not None  ->  c ;  ... is None  ->  not c      (A is an object that is certainly not None)
        if len(n.ops) == 1 and isinstance(n.ops[0], (ast.Is, ast.IsNot)) and isinstance(n.comparators[0], ast.Constant) and n.comparators[0].value is None \
                and isinstance(n.left, ast.IfExp):
            ie = n.left

            def some(e):
                return (isinstance(e, ast.Call) and isinstance(e.func, ast.Name) and e.func.id in ('slice', 'list', 'dict', 'tuple', 'set', 'range')) or \
                    isinstance(e, (ast.List, ast.Tuple, ast.Dict, ast.Set)) or (isinstance(e, ast.Constant) and e.value is not None)

            def none(e):
                return isinstance(e, ast.Constant) and e.value is None
            if some(ie.body) and none(ie.orelse) and _pure_expr(ie.body):
                return ie.test if isinstance(n.ops[0], ast.IsNot) else self.visit(ast.copy_location(ast.UnaryOp(op=ast.Not(), operand=ie.test), n))
            if none(ie.body) and some(ie.orelse) and _pure_expr(ie.orelse):
                return ie.test if isinstance(n.ops[0], ast.Is) else self.visit(ast.copy_location(ast.UnaryOp(op=ast.Not(), operand=ie.test), n))
        # len(x) is a non-negative integer: len(x) > 0, 0 < len(x), len(x) >= 1  ==  len(x) != 0 ;  len(x) < 1, len(x) <= 0  ==  len(x) == 0
        if len(n.ops) == 1:
            a, b, op = n.left, n.comparators[0], n.ops[0]

            def is_len(e):
                return isinstance(e, ast.Call) and isinstance(e.func, ast.Name) and e.func.id == 'len' and len(e.args) == 1

            def const(e):
                return e.value if isinstance(e, ast.Constant) and type(e.value) is int else None
            if is_len(b) and const(a) is not None:
                a, b = b, a
                op = {ast.Lt: ast.Gt, ast.Gt: ast.Lt, ast.LtE: ast.GtE, ast.GtE: ast.LtE}.get(type(op), type(op))()
            if is_len(a) and const(b) is not None:
                k = const(b)
                new = None
                if (isinstance(op, ast.Gt) and k == 0) or (isinstance(op, ast.GtE) and k == 1) or (isinstance(op, ast.NotEq) and k == 0):
                    new = ast.NotEq()
                elif (isinstance(op, ast.Lt) and k == 1) or (isinstance(op, ast.LtE) and k == 0) or (isinstance(op, ast.Eq) and k == 0):
                    new = ast.Eq()
                if new is not None:
                    n.left, n.comparators, n.ops = a, [ast.Constant(value=0)], [new]
                    return n
        if len(n.ops) == 1 and type(n.ops[0]) in MIRROR:
            n.left, n.comparators[0] = n.comparators[0], n.left
            n.ops = [MIRROR[type(n.ops[0])]()]
        return n

    def visit_BinOp(self, n):
        self.generic_visit(n)
        # ~a | ~b  ->  ~(a & b) ;  ~a & ~b  ->  ~(a | b)      (bitwise identities, for integers and boolean arrays alike)
        if isinstance(n.op, (ast.BitOr, ast.BitAnd)) and all(isinstance(x, ast.UnaryOp) and isinstance(x.op, ast.Invert) for x in (n.left, n.right)):
            inner = ast.BinOp(left=n.left.operand, op=ast.BitAnd() if isinstance(n.op, ast.BitOr) else ast.BitOr(), right=n.right.operand)
            return ast.copy_location(ast.UnaryOp(op=ast.Invert(), operand=ast.copy_location(inner, n)), n)
        # x * x is x ** 2 (numpy squares by multiplying; exact for integers and correctly rounded for floats either way)
        if isinstance(n.op, ast.Mult) and ast.dump(n.left) == ast.dump(n.right) and \
                not any(isinstance(x, (ast.Call, ast.NamedExpr, ast.Await, ast.Yield, ast.YieldFrom)) for x in ast.walk(n.left)):
            return ast.copy_location(ast.BinOp(left=n.left, op=ast.Pow(), right=ast.Constant(value=2)), n)
        return n

    def visit_UnaryOp(self, n):
        self.generic_visit(n)
        # De Morgan: not (A or B) == not A and not B   (same short-circuit order)
        if isinstance(n.op, ast.Not) and isinstance(n.operand, ast.BoolOp):
            dual = ast.And() if isinstance(n.operand.op, ast.Or) else ast.Or()
            vals = [self.visit_UnaryOp(ast.UnaryOp(op=ast.Not(), operand=v)) for v in n.operand.values]
            return ast.copy_location(ast.BoolOp(op=dual, values=vals), n)
        if isinstance(n.op, ast.Not) and isinstance(n.operand, ast.UnaryOp) and isinstance(n.operand.op, ast.Not) and False:
            return n.operand.operand
        if isinstance(n.op, ast.Not) and isinstance(n.operand, ast.Compare) and len(n.operand.ops) == 1 \
                and type(n.operand.ops[0]) in INVERT:
            c = n.operand
            c.ops = [INVERT[type(c.ops[0])]()]
            return c
        return n

    def visit_BoolOp(self, n):
        self.generic_visit(n)
        vals = []
        for v in n.values:
            if isinstance(v, ast.BoolOp) and type(v.op) is type(n.op):
                vals.extend(v.values)
            else:
                vals.append(v)
        n.values = vals
        return n

    def visit_keyword(self, n):
        self.generic_visit(n)
        if n.arg == 'dtype':
            n.value = _dtype_canon(n.value)
        return n

    def visit_Attribute(self, n):
        self.generic_visit(n)
        # X.nonzero()[0].size  ->  len(X.nonzero()[0])      (a one-dimensional index array: its size is its length)
        if n.attr == 'size' and isinstance(n.ctx, ast.Load) and isinstance(n.value, ast.Subscript) and isinstance(n.value.slice, ast.Constant) \
                and n.value.slice.value == 0 and isinstance(n.value.value, ast.Call) and isinstance(n.value.value.func, ast.Attribute) \
                and n.value.value.func.attr == 'nonzero' and not n.value.value.args:
            return ast.copy_location(ast.Call(func=ast.Name(id='len', ctx=ast.Load()), args=[n.value], keywords=[]), n)
        # self.<property> reads as the expression the property returns (one-expression properties of the same class)
        props = getattr(self.callee_info, 'props', None) if self.callee_info is not None else None
        if props and isinstance(n.ctx, ast.Load) and isinstance(n.value, ast.Name) and n.value.id == 'self' and n.attr in props:
            return ast.copy_location(clone(props[n.attr]), n)
        # q.to(unit).value  ->  q.to_value(unit)      (astropy.units.Quantity: documented as the same number)
        if n.attr == 'value' and isinstance(n.ctx, ast.Load) and isinstance(n.value, ast.Call) and isinstance(n.value.func, ast.Attribute) \
                and n.value.func.attr == 'to' and len(n.value.args) == 1 and not n.value.keywords:
            return ast.copy_location(ast.Call(func=ast.Attribute(value=n.value.func.value, attr='to_value', ctx=ast.Load()), args=n.value.args, keywords=[]), n)
        if isinstance(n.value, ast.Name) and n.value.id in ('np', 'numpy') and n.attr in NP_ALIASES:
            n.attr = NP_ALIASES[n.attr]
        return n

    def visit_ListComp(self, n):
        self.generic_visit(n)
        # [E(v) for v in (a, b, c)]  ->  [E(a), E(b), E(c)]      (one generator over a display of names / literals, no condition)
        if len(n.generators) == 1 and not n.generators[0].ifs and not n.generators[0].is_async and isinstance(n.generators[0].iter, (ast.Tuple, ast.List)) \
                and 1 <= len(n.generators[0].iter.elts) <= 8 and isinstance(n.generators[0].target, ast.Name) \
                and all(isinstance(e, (ast.Name, ast.Constant)) for e in n.generators[0].iter.elts):
            v = n.generators[0].target.id
            if not any(isinstance(x, (ast.Lambda, ast.ListComp, ast.GeneratorExp, ast.SetComp, ast.DictComp)) for x in ast.walk(n.elt)):
                out = []
                for e in n.generators[0].iter.elts:
                    class S(ast.NodeTransformer):
                        def visit_Name(self, m, e=e):
                            return clone(e) if m.id == v and isinstance(m.ctx, ast.Load) else m
                    out.append(S().visit(clone(n.elt)))
                return ast.copy_location(ast.List(elts=out, ctx=ast.Load()), n)
        g0 = n.generators[0] if len(n.generators) == 1 else None
        # [K for _ in range(n)]  ->  [K] * n      (K a literal: the same immutable object n times either way)
        if g0 is not None and not g0.ifs and not g0.is_async and isinstance(n.elt, ast.Constant) and isinstance(g0.target, ast.Name) \
                and isinstance(g0.iter, ast.Call) and isinstance(g0.iter.func, ast.Name) and g0.iter.func.id == 'range' and len(g0.iter.args) == 1 \
                and not g0.iter.keywords:
            return ast.copy_location(ast.BinOp(left=ast.List(elts=[n.elt], ctx=ast.Load()), op=ast.Mult(), right=g0.iter.args[0]), n)
        # [E(u, v) for u, v in ((a, 1), (b, 2))]  ->  [E(a, 1), E(b, 2)]
        if g0 is not None and not g0.ifs and not g0.is_async and isinstance(g0.iter, (ast.Tuple, ast.List)) and 1 <= len(g0.iter.elts) <= 8 \
                and isinstance(g0.target, ast.Tuple) and all(isinstance(t, ast.Name) for t in g0.target.elts) \
                and all(isinstance(r, (ast.Tuple, ast.List)) and len(r.elts) == len(g0.target.elts)
                        and all(isinstance(e, (ast.Name, ast.Constant)) for e in r.elts) for r in g0.iter.elts) \
                and not any(isinstance(x, (ast.Lambda, ast.ListComp, ast.GeneratorExp, ast.SetComp, ast.DictComp)) for x in ast.walk(n.elt)):
            out = []
            for r in g0.iter.elts:
                bind = {t.id: e for t, e in zip(g0.target.elts, r.elts)}

                class S2(ast.NodeTransformer):
                    def visit_Name(self, m, bind=bind):
                        return clone(bind[m.id]) if m.id in bind and isinstance(m.ctx, ast.Load) else m
                out.append(S2().visit(clone(n.elt)))
            return ast.copy_location(ast.List(elts=out, ctx=ast.Load()), n)
        return n

    def visit_IfExp(self, n):
        self.generic_visit(n)
        # a if not c else b  ->  b if c else a      (negative tests: not, not in, is not, !=)
        t = n.test
        if isinstance(t, ast.UnaryOp) and isinstance(t.op, ast.Not):
            n.test, n.body, n.orelse = t.operand, n.orelse, n.body
        elif isinstance(t, ast.Compare) and len(t.ops) == 1 and isinstance(t.ops[0], (ast.NotIn, ast.IsNot, ast.NotEq)):
            t.ops = [{ast.NotIn: ast.In, ast.IsNot: ast.Is, ast.NotEq: ast.Eq}[type(t.ops[0])]()]
            n.body, n.orelse = n.orelse, n.body
        # f(a) if c else f(b)  ->  f(a if c else b)      (same callee, one differing positional argument, no keywords)
        a, b = n.body, n.orelse
        if isinstance(a, ast.Call) and isinstance(b, ast.Call) and ast.dump(a.func) == ast.dump(b.func) and len(a.args) == len(b.args) == 1 \
                and not a.keywords and not b.keywords and _pure_expr(a) and _pure_expr(b):
            inner = ast.IfExp(test=n.test, body=a.args[0], orelse=b.args[0])
            return ast.copy_location(ast.Call(func=a.func, args=[inner], keywords=[]), n)
        return n

    def visit_Raise(self, n):
        self.generic_visit(n)
        # the text of a message is not behaviour any property speaks about
        if isinstance(n.exc, ast.Call):
            n.exc.args = []
            n.exc.keywords = []
        return n

    def visit_Slice(self, n):
        self.generic_visit(n)
        if isinstance(n.lower, ast.Constant) and type(n.lower.value) is int and n.lower.value == 0:
            n.lower = None
        return n

    def visit_Subscript(self, n):
        self.generic_visit(n)
        # x[slice(a, b)]  ->  x[a:b]      (the builtin slice object is what the colon notation builds)

        def as_slice(e):
            if isinstance(e, ast.Call) and isinstance(e.func, ast.Name) and e.func.id == 'slice' and 1 <= len(e.args) <= 3 and not e.keywords:
                def nn(x):
                    return None if isinstance(x, ast.Constant) and x.value is None else x
                a = list(e.args)
                if len(a) == 1:
                    lo, hi, stp = None, nn(a[0]), None
                else:
                    lo, hi, stp = nn(a[0]), nn(a[1]), nn(a[2]) if len(a) == 3 else None
                return self.visit_Slice(ast.copy_location(ast.Slice(lower=lo, upper=hi, step=stp), e))
            return None
        if isinstance(n.slice, ast.Tuple):
            if any(as_slice(e) is not None for e in n.slice.elts):
                n.slice.elts = [as_slice(e) or e for e in n.slice.elts]
            # A[i, :]  ->  A[i]      (trailing full slices select everything that is left)
            elts = list(n.slice.elts)
            while len(elts) > 1 and isinstance(elts[-1], ast.Slice) and elts[-1].lower is None and elts[-1].upper is None and elts[-1].step is None \
                    and not any(isinstance(e, ast.Constant) and e.value in (None, Ellipsis) for e in elts):
                elts.pop()
            if len(elts) != len(n.slice.elts):
                n.slice = elts[0] if len(elts) == 1 else ast.Tuple(elts=elts, ctx=ast.Load())
        elif as_slice(n.slice) is not None:
            n.slice = as_slice(n.slice)
        # [a, b, c][1] -> b ; [a, b, c][1:] -> [b, c]      (a display of effect-free elements, constant bounds)
        if isinstance(n.value, (ast.List, ast.Tuple)) and isinstance(n.ctx, ast.Load) and n.value.elts \
                and not any(isinstance(e, ast.Starred) for e in n.value.elts) and all(_pure_expr(e) for e in n.value.elts):
            k = n.slice
            if isinstance(k, ast.UnaryOp) and isinstance(k.op, ast.USub) and isinstance(k.operand, ast.Constant) and type(k.operand.value) is int:
                k = ast.Constant(value=-k.operand.value)
            if isinstance(k, ast.Constant) and type(k.value) is int and -len(n.value.elts) <= k.value < len(n.value.elts):
                return n.value.elts[k.value]
            if isinstance(k, ast.Slice) and k.step is None and all(b is None or (isinstance(b, ast.Constant) and type(b.value) is int) for b in (k.lower, k.upper)):
                lo = k.lower.value if k.lower is not None else None
                hi = k.upper.value if k.upper is not None else None
                return ast.copy_location(type(n.value)(elts=n.value.elts[lo:hi], ctx=ast.Load()), n)
        if isinstance(n.slice, ast.Constant) and type(n.slice.value) is int and n.slice.value == 0 and isinstance(n.value, ast.Call):
            call = n.value
            f = call.func
            if isinstance(f, ast.Attribute) and isinstance(f.value, ast.Name) and f.value.id in ('np', 'numpy') \
                    and f.attr in ('where', 'nonzero') and len(call.args) == 1 and not call.keywords:
                n.value = ast.Call(func=ast.Attribute(value=call.args[0], attr='nonzero', ctx=ast.Load()), args=[], keywords=[])
        return n

    def visit_Call(self, n):
        info = self.callee_info(n) if self.callee_info is not None else None
        self.generic_visit(n)
        f = n.func
        # boolean flags of numpy routines spelled 0 / 1
        for k in n.keywords:
            if k.arg in ('rowvar', 'keepdims', 'bias', 'endpoint', 'full_matrices', 'compute_uv', 'edge_truncate') and isinstance(k.value, ast.Constant) \
                    and type(k.value.value) is int and k.value.value in (0, 1):
                k.value = ast.copy_location(ast.Constant(value=bool(k.value.value)), k.value)
        if isinstance(f, ast.Name) and f.id in ('dict', 'list', 'tuple') and not n.args and not n.keywords:
            return ast.copy_location({'dict': ast.Dict(keys=[], values=[]), 'list': ast.List(elts=[], ctx=ast.Load()),
                                      'tuple': ast.Tuple(elts=[], ctx=ast.Load())}[f.id], n)
        # max([.. for ..]) is max(.. for ..): a reducer that consumes its whole argument once sees the same elements in the same order
        if len(n.args) == 1 and not n.keywords and isinstance(n.args[0], ast.ListComp) and (
                (isinstance(f, ast.Name) and f.id in ('max', 'min', 'sum', 'sorted', 'tuple', 'list', 'set', 'frozenset')) or
                (isinstance(f, ast.Attribute) and f.attr == 'join' and isinstance(f.value, ast.Constant))):
            lc = n.args[0]
            n.args = [ast.copy_location(ast.GeneratorExp(elt=lc.elt, generators=lc.generators), lc)]
        # (f if c else g)(args)  ->  f(args) if c else g(args)      (args without effects)
        if isinstance(f, ast.IfExp) and all(_pure_expr(a) for a in n.args) and all(_pure_expr(k.value) for k in n.keywords):
            a_ = ast.Call(func=f.body, args=[clone(x) for x in n.args], keywords=[ast.keyword(arg=k.arg, value=clone(k.value)) for k in n.keywords])
            b_ = ast.Call(func=f.orelse, args=n.args, keywords=n.keywords)
            return ast.fix_missing_locations(ast.copy_location(ast.IfExp(test=f.test, body=self.visit_Call(a_), orelse=self.visit_Call(b_)), n))
        # a package function that only returns a literal (default_skyversion() -> 2) reads as that literal
        if info is not None and len(info) > 2 and info[2] is not None and not n.args and not n.keywords:
            body = [st for st in info[2].body if not (isinstance(st, ast.Expr) and isinstance(st.value, ast.Constant))]
            if len(body) == 1 and isinstance(body[0], ast.Return) and isinstance(body[0].value, ast.Constant) and not info[2].args.args:
                return ast.copy_location(ast.Constant(value=body[0].value.value), n)
        if info is not None:
            info = info[:2]
        # int(a if c else 3)  ->  int(a) if c else 3      (the conversion of a literal of that very type is the literal)
        if isinstance(f, ast.Name) and f.id in ('int', 'float', 'str', 'bool') and len(n.args) == 1 and not n.keywords and isinstance(n.args[0], ast.IfExp):
            ty = {'int': int, 'float': float, 'str': str, 'bool': bool}[f.id]
            ie = n.args[0]
            if isinstance(ie.orelse, ast.Constant) and type(ie.orelse.value) is ty:
                return ast.copy_location(ast.IfExp(test=ie.test, body=ast.Call(func=f, args=[ie.body], keywords=[]), orelse=ie.orelse), n)
            if isinstance(ie.body, ast.Constant) and type(ie.body.value) is ty:
                return ast.copy_location(ast.IfExp(test=ie.test, body=ie.body, orelse=ast.Call(func=f, args=[ie.orelse], keywords=[])), n)
        # kwargs.get(K, V)  ->  kwargs[K] if K in kwargs else V      (kwargs is the ** parameter, a dict; K and V literals or names)
        if self.kwarg and isinstance(f, ast.Attribute) and f.attr == 'get' and isinstance(f.value, ast.Name) and f.value.id == self.kwarg \
                and 1 <= len(n.args) <= 2 and not n.keywords and isinstance(n.args[0], ast.Constant) \
                and (len(n.args) == 1 or isinstance(n.args[1], (ast.Constant, ast.Name))):
            dflt = n.args[1] if len(n.args) == 2 else ast.Constant(value=None)
            new = ast.IfExp(test=ast.Compare(left=clone(n.args[0]), ops=[ast.In()], comparators=[ast.Name(id=self.kwarg, ctx=ast.Load())]),
                            body=ast.Subscript(value=ast.Name(id=self.kwarg, ctx=ast.Load()), slice=n.args[0], ctx=ast.Load()), orelse=dflt)
            return ast.fix_missing_locations(ast.copy_location(new, n))
        # messages of warnings and log records
        if (isinstance(f, ast.Name) and f.id in ('warn',)) or (isinstance(f, ast.Attribute) and (
                (f.attr in ('debug', 'info', 'warning', 'error', 'critical', 'exception') and isinstance(f.value, ast.Name) and f.value.id in ('log', 'logger', 'logging'))
                or (f.attr == 'warn' and isinstance(f.value, ast.Name) and f.value.id == 'warnings'))):
            n.args = n.args[1:] if n.args else []
            n.args = [a for a in n.args]
            return n
        # isinstance(x, (T,)) == isinstance(x, T)
        if isinstance(f, ast.Name) and f.id == 'isinstance' and len(n.args) == 2 and isinstance(n.args[1], ast.Tuple) and len(n.args[1].elts) == 1:
            n.args[1] = n.args[1].elts[0]
        # astropy constructors with documented leading parameters: Angle(angle, unit), Quantity(value, unit)
        cname = f.attr if isinstance(f, ast.Attribute) else f.id if isinstance(f, ast.Name) else None
        if cname in ASTROPY_LEADING and n.keywords and all(k.arg is not None for k in n.keywords) and not any(isinstance(a, ast.Starred) for a in n.args) \
                and all(_pure_expr(a) for a in n.args) and all(_pure_expr(k.value) for k in n.keywords):
            sig = ASTROPY_LEADING[cname]
            kw = {k.arg: k for k in n.keywords}
            args = list(n.args)
            while len(args) < len(sig) and sig[len(args)] in kw:
                args.append(kw.pop(sig[len(args)]).value)
            if len(args) != len(n.args):
                n.args = args
                n.keywords = [k for k in n.keywords if k.arg in kw]
        if isinstance(f, ast.Attribute) and isinstance(f.value, ast.Name) and f.value.id in ('np', 'numpy'):
            # np.zeros(shape=n, dtype=D) == np.zeros(n, dtype=D): leading parameters of well-known numpy routines given by keyword are
            # read positionally (documented, stable signatures; the arguments must be effect-free since their order changes)
            sig = NP_LEADING.get(f.attr)
            if sig and n.keywords and all(k.arg is not None for k in n.keywords) and not any(isinstance(a, ast.Starred) for a in n.args) \
                    and all(_pure_expr(a) for a in n.args) and all(_pure_expr(k.value) for k in n.keywords):
                kw = {k.arg: k for k in n.keywords}
                args = list(n.args)
                while len(args) < len(sig) and sig[len(args)] in kw:
                    args.append(kw.pop(sig[len(args)]).value)
                if len(args) != len(n.args):
                    n.args = args
                    n.keywords = [k for k in n.keywords if k.arg in kw]
            # np.where(a < b, a, b) == np.minimum(a, b), np.where(a < b, b, a) == np.maximum(a, b) for INDEX arithmetic (integers: no NaN
            # to tell them apart); recognised by an operand that is syntactically an index (nonzero(), len(), .size, arange, argsort ..)
            if f.attr == 'where' and len(n.args) == 3 and not n.keywords and isinstance(n.args[0], ast.Compare) and len(n.args[0].ops) == 1 \
                    and isinstance(n.args[0].ops[0], (ast.Lt, ast.LtE, ast.Gt, ast.GtE)):
                cmp_ = n.args[0]
                a_, b_ = cmp_.left, cmp_.comparators[0]
                if isinstance(cmp_.ops[0], (ast.Gt, ast.GtE)):
                    a_, b_ = b_, a_
                da, db, dx, dy = ast.dump(a_), ast.dump(b_), ast.dump(n.args[1]), ast.dump(n.args[2])
                txt = ast.unparse(n)
                indexy = any(w in txt for w in ('.nonzero()', 'len(', '.size', '.shape', 'arange(', 'argsort(', 'searchsorted('))
                if indexy and _pure_expr(a_) and _pure_expr(b_) and {da, db} == {dx, dy} and da != db:
                    which = 'minimum' if dx == da else 'maximum'
                    return ast.copy_location(ast.Call(func=ast.Attribute(value=f.value, attr=which, ctx=ast.Load()), args=[a_, b_], keywords=[]), n)
            # np.result_type(x.dtype, 'float32') == np.result_type(x.dtype, np.float32)
            if f.attr in ('result_type', 'promote_types'):
                n.args = [_dtype_canon(a) if isinstance(a, ast.Constant) and isinstance(a.value, str) else a for a in n.args]
            # np.zeros(shape, 'i4') == np.zeros(shape, dtype='i4')
            if f.attr in ('zeros', 'ones', 'empty') and len(n.args) == 2 and not any(k.arg == 'dtype' for k in n.keywords):
                n.keywords = [ast.keyword(arg='dtype', value=_dtype_canon(n.args[1]))] + n.keywords
                n.args = n.args[:1]
            # scalar shape == 1-tuple shape
            if f.attr in ('zeros', 'ones', 'empty', 'full') and n.args and isinstance(n.args[0], ast.Tuple) and len(n.args[0].elts) == 1:
                n.args[0] = n.args[0].elts[0]
            # np.full(shape, v, dtype=D) == np.zeros(shape, dtype=D) + v   for an integer literal v, or a floating D
            if f.attr == 'full' and len(n.args) >= 2:
                dt = [k.value for k in n.keywords if k.arg == 'dtype'] or (n.args[2:3])
                v = n.args[1]
                vi = isinstance(v, ast.Constant) and type(v.value) is int or (isinstance(v, ast.UnaryOp) and isinstance(v.operand, ast.Constant) and type(v.operand.value) is int)
                if dt and (vi or (isinstance(dt[0], ast.Attribute) and dt[0].attr.startswith('float'))):
                    z = ast.Call(func=ast.Attribute(value=ast.Name(id='np', ctx=ast.Load()), attr='zeros', ctx=ast.Load()), args=[n.args[0]],
                                 keywords=[ast.keyword(arg='dtype', value=_dtype_canon(dt[0]))])
                    neg = None
                    if isinstance(v, ast.UnaryOp) and isinstance(v.op, ast.USub) and isinstance(v.operand, ast.Constant):
                        neg = v.operand
                    elif isinstance(v, ast.Constant) and type(v.value) in (int, float) and v.value < 0:
                        neg = ast.Constant(value=-v.value)
                    if neg is not None:
                        dc = _dtype_canon(dt[0])
                        if isinstance(dc, ast.Attribute) and (dc.attr.startswith('int') or dc.attr.startswith('float')):
                            return ast.copy_location(ast.BinOp(left=z, op=ast.Sub(), right=neg), n)
                    return ast.copy_location(ast.BinOp(left=z, op=ast.Add(), right=v), n)
            if f.attr in ('array', 'asarray') and n.args and isinstance(n.args[0], ast.Tuple):
                n.args[0] = ast.copy_location(ast.List(elts=n.args[0].elts, ctx=ast.Load()), n.args[0])
            # operator forms
            if f.attr in ('bitwise_and', 'bitwise_or', 'bitwise_xor', 'not_equal', 'equal', 'logical_not') and not n.keywords:
                if f.attr == 'logical_not' and len(n.args) == 1:
                    pass
                elif len(n.args) == 2:
                    if f.attr in ('not_equal', 'equal'):
                        return ast.copy_location(ast.Compare(left=n.args[0], ops=[ast.NotEq() if f.attr == 'not_equal' else ast.Eq()], comparators=[n.args[1]]), n)
                    op = {'bitwise_and': ast.BitAnd, 'bitwise_or': ast.BitOr, 'bitwise_xor': ast.BitXor}[f.attr]()
                    return ast.copy_location(ast.BinOp(left=n.args[0], op=op, right=n.args[1]), n)
            # function form of array methods: np.sum(x, axis=k) == x.sum(k), np.transpose(x) == x.T, np.argsort(x) == x.argsort()
            if f.attr in ('sum', 'mean', 'min', 'max', 'any', 'all', 'argsort', 'cumsum', 'nonzero', 'std', 'var', 'prod', 'argmax', 'argmin', 'cumprod') and n.args:
                recv = n.args[0]
                n = ast.copy_location(ast.Call(func=ast.Attribute(value=recv, attr=f.attr, ctx=ast.Load()), args=n.args[1:], keywords=n.keywords), n)
                f = n.func
            elif f.attr == 'transpose' and len(n.args) == 1 and not n.keywords:
                return ast.copy_location(ast.Attribute(value=n.args[0], attr='T', ctx=ast.Load()), n)
        # re.compile(P).sub(r, s) == re.sub(P, r, s)   (no flags)
        if isinstance(f, ast.Attribute) and f.attr in ('sub', 'subn', 'findall', 'finditer', 'split', 'search', 'match', 'fullmatch') \
                and isinstance(f.value, ast.Call) and isinstance(f.value.func, ast.Attribute) and f.value.func.attr == 'compile' \
                and isinstance(f.value.func.value, ast.Name) and f.value.func.value.id == 're' and len(f.value.args) == 1 and not f.value.keywords:
            n = ast.copy_location(ast.Call(func=ast.Attribute(value=ast.Name(id='re', ctx=ast.Load()), attr=f.attr, ctx=ast.Load()),
                                           args=[f.value.args[0]] + n.args, keywords=n.keywords), n)
            f = n.func
        # re.split(P, s, maxsplit=1) == re.split(P, s, 1)
        if isinstance(f, ast.Attribute) and isinstance(f.value, ast.Name) and f.value.id == 're' and f.attr == 'split' and len(n.args) == 2 \
                and len(n.keywords) == 1 and n.keywords[0].arg == 'maxsplit':
            n.args.append(n.keywords[0].value)
            n.keywords = []
        # x.transpose() == x.T ; x.sum(axis=k) == x.sum(k)
        if isinstance(f, ast.Attribute) and f.attr == 'transpose' and not n.args and not n.keywords:
            return ast.copy_location(ast.Attribute(value=f.value, attr='T', ctx=ast.Load()), n)
        if isinstance(f, ast.Attribute) and f.attr in ('sum', 'mean', 'min', 'max', 'any', 'all', 'cumsum', 'argsort', 'std', 'var', 'prod', 'argmax',
                                                       'argmin', 'cumprod') and not n.args \
                and len(n.keywords) == 1 and n.keywords[0].arg == 'axis':
            n.args = [n.keywords[0].value]
            n.keywords = []
        if isinstance(f, ast.Attribute) and f.attr == 'astype' and len(n.args) == 1:
            n.args[0] = _dtype_canon(n.args[0])
        if isinstance(n.func, ast.Name) and n.func.id == 'range' and len(n.args) == 2 and not n.keywords \
                and isinstance(n.args[0], ast.Constant) and type(n.args[0].value) is int and n.args[0].value == 0:
            n.args = n.args[1:]
        if info is not None and n.args and not any(isinstance(a, ast.Starred) for a in n.args) \
                and not any(k.arg is None for k in n.keywords):
            params, offset = info
            if len(n.args) + offset <= len(params):
                names = params[offset:offset + len(n.args)]
                if not (set(names) & {k.arg for k in n.keywords}):
                    n.keywords = [ast.keyword(arg=p, value=a) for p, a in zip(names, n.args)] + n.keywords
                    n.args = []
        return n


def _count(fn, name):
    return sum(1 for x in ast.walk(fn) if isinstance(x, ast.Name) and x.id == name)


def _names(n):
    return {x.id for x in ast.walk(n) if isinstance(x, ast.Name)}


def _block_fields(n):
    for fld in ('body', 'orelse', 'finalbody'):
        v = getattr(n, fld, None)
        if isinstance(v, list) and (not v or isinstance(v[0], ast.stmt)) and not isinstance(n, ast.Lambda) and not isinstance(n, ast.IfExp):
            yield fld
    # handlers are nodes with their own body


def try_const(e):
    """A numeric literal, possibly signed."""
    if isinstance(e, ast.UnaryOp) and isinstance(e.op, (ast.USub, ast.UAdd)):
        e = e.operand
    return isinstance(e, ast.Constant) and isinstance(e.value, (int, float)) and not isinstance(e.value, bool) or \
        (isinstance(e, ast.Constant) and isinstance(e.value, bool))


def _stmt_pass(node):
    """One bottom-up pass of the statement-level rewrites over every block under node.  Returns True when something changed."""
    changed = False
    for child in ast.iter_child_nodes(node):
        if isinstance(child, SCOPES):
            continue
        if _stmt_pass(child):
            changed = True
    if isinstance(node, ast.Return) and isinstance(node.value, ast.Constant) and node.value.value is None:
        node.value = None
        changed = True
    # for i in reversed(range(n))   ->   for i in range(n - 1, -1, -1)
    if isinstance(node, ast.For) and isinstance(node.iter, ast.Call) and isinstance(node.iter.func, ast.Name) and node.iter.func.id == 'reversed' \
            and len(node.iter.args) == 1 and not node.iter.keywords and isinstance(node.iter.args[0], ast.Call) \
            and isinstance(node.iter.args[0].func, ast.Name) and node.iter.args[0].func.id == 'range' and len(node.iter.args[0].args) == 1 \
            and not node.iter.args[0].keywords and _pure_expr(node.iter.args[0].args[0]):
        n_ = node.iter.args[0].args[0]
        node.iter = ast.fix_missing_locations(ast.copy_location(ast.Call(func=ast.Name(id='range', ctx=ast.Load()), args=[
            ast.BinOp(left=n_, op=ast.Sub(), right=ast.Constant(value=1)), ast.UnaryOp(op=ast.USub(), operand=ast.Constant(value=1)),
            ast.UnaryOp(op=ast.USub(), operand=ast.Constant(value=1))], keywords=[]), node.iter))
        changed = True
    # x.fill(v)   ->   x[:] = v      (ndarray.fill takes a scalar; the slice store of a scalar sets every element too)
    for fld in ('body', 'orelse', 'finalbody'):
        blk = getattr(node, fld, None)
        if isinstance(blk, list) and blk and isinstance(blk[0], ast.stmt):
            for i_, st in enumerate(blk):
                if isinstance(st, ast.Expr) and isinstance(st.value, ast.Call) and isinstance(st.value.func, ast.Attribute) and st.value.func.attr == 'fill' \
                        and len(st.value.args) == 1 and not st.value.keywords and isinstance(st.value.func.value, ast.Name) \
                        and isinstance(st.value.args[0], (ast.Constant, ast.UnaryOp)) and try_const(st.value.args[0]):
                    tgt = ast.Subscript(value=st.value.func.value, slice=ast.Slice(lower=None, upper=None, step=None), ctx=ast.Store())
                    blk[i_] = ast.fix_missing_locations(ast.copy_location(ast.Assign(targets=[tgt], value=st.value.args[0], type_comment=None), st))
                    changed = True
    if isinstance(node, (ast.If, ast.For, ast.While, ast.AsyncFor)) and len(node.orelse) == 1 and isinstance(node.orelse[0], ast.Pass):
        node.orelse = []
        changed = True
    if isinstance(node, ast.If):
        if node.orelse and len(node.body) == 1 and isinstance(node.body[0], ast.Pass):
            node.test = _negate(node.test)
            node.body, node.orelse = node.orelse, []
            changed = True
        # polarity is canonical only where it is not already fixed by "the terminal branch goes first" (block level below)
        free = bool(node.orelse) and not isinstance(node.body[-1], TERMINAL) and not isinstance(node.orelse[-1], TERMINAL)
        if free and isinstance(node.test, ast.UnaryOp) and isinstance(node.test.op, ast.Not):
            node.test = node.test.operand
            node.body, node.orelse = node.orelse, node.body
            changed = True
        if free and isinstance(node.test, ast.Compare) and len(node.test.ops) == 1 \
                and isinstance(node.test.ops[0], (ast.NotEq, ast.IsNot, ast.NotIn)):
            node.test.ops = [INVERT[type(node.test.ops[0])]()]
            node.body, node.orelse = node.orelse, node.body
            changed = True
        if not node.orelse and len(node.body) == 1 and isinstance(node.body[0], ast.If) and not node.body[0].orelse:
            inner = node.body[0]
            vals = (node.test.values if isinstance(node.test, ast.BoolOp) and isinstance(node.test.op, ast.And) else [node.test]) + \
                   (inner.test.values if isinstance(inner.test, ast.BoolOp) and isinstance(inner.test.op, ast.And) else [inner.test])
            node.test = ast.BoolOp(op=ast.And(), values=vals)
            node.body = inner.body
            changed = True
    for fld in list(_block_fields(node)) if not isinstance(node, ast.expr) else []:
        body = getattr(node, fld)
        if not isinstance(body, list):
            continue
        new = []
        i = 0
        blk_changed = False
        while i < len(body):
            st = body[i]
            if isinstance(st, ast.Pass) and len(body) > 1:
                blk_changed = True
                i += 1
                continue
            if isinstance(st, ast.If) and st.orelse and st.body and isinstance(st.body[-1], TERMINAL):
                # else after a terminal branch: the else block is the rest of this block
                body[i + 1:i + 1] = st.orelse
                st.orelse = []
                blk_changed = True
                continue                      # look at the same statement again (now without else)
            if isinstance(st, ast.If) and not st.orelse and isinstance(st.body[-1], TERMINAL) and i + 1 < len(body) \
                    and isinstance(body[-1], TERMINAL) and _size_key(body[i + 1:]) < _size_key(st.body):
                # both continuations are terminal: the smaller one is the guarded one
                rest = body[i + 1:]
                st.test = _negate(st.test)
                body[i + 1:] = st.body
                st.body = rest
                blk_changed = True
                new.append(st)
                i += 1
                continue
            if isinstance(st, ast.If) and st.orelse and isinstance(st.orelse[-1], TERMINAL) and not isinstance(st.body[-1], TERMINAL) \
                    and not (len(st.orelse) == 1 and isinstance(st.orelse[0], ast.If)):
                # the terminal branch goes first
                st.test = _negate(st.test)
                tail = st.body
                st.body = st.orelse
                st.orelse = []
                new.append(st)
                new.extend(tail)
                blk_changed = True
                i += 1
                continue
            if isinstance(st, ast.Assign) and len(st.targets) == 1 and isinstance(st.targets[0], (ast.Tuple, ast.List)) and isinstance(st.value, (ast.Tuple, ast.List)) \
                    and len(st.targets[0].elts) == len(st.value.elts) and all(isinstance(e, ast.Name) for e in st.targets[0].elts) \
                    and not any(isinstance(v, ast.Starred) for v in st.value.elts):
                tg = [e.id for e in st.targets[0].elts]
                # sequential assignment is the same as the parallel one when no value reads a target that was assigned before it
                if len(set(tg)) == len(tg) and all(not (_names(v) & set(tg[:k])) for k, v in enumerate(st.value.elts)) \
                        and all(_pure_expr(v) for v in st.value.elts[1:]):
                    for t, v in zip(st.targets[0].elts, st.value.elts):
                        new.append(ast.Assign(targets=[t], value=v, lineno=st.lineno, col_offset=st.col_offset))
                    blk_changed = True
                    i += 1
                    continue
            new.append(st)
            i += 1
        if blk_changed:
            if not new:
                new = [ast.Pass()]
            setattr(node, fld, new)
            changed = True
    return changed


def _negate(test):
    if isinstance(test, ast.UnaryOp) and isinstance(test.op, ast.Not):
        return test.operand
    return ast.UnaryOp(op=ast.Not(), operand=test)


def _size_key(stmts):
    return (sum(1 for s in stmts for _ in ast.walk(s)), ''.join(ast.dump(s) for s in stmts))


def _single_use_site(nxt, v):
    """The expression slot of statement nxt in which v may be inlined: the whole simple statement, an if-test, a for-iterable."""
    if isinstance(nxt, (ast.Assign, ast.AugAssign, ast.Return, ast.Expr, ast.AnnAssign)):
        return nxt
    if isinstance(nxt, ast.If):
        return nxt.test
    if isinstance(nxt, (ast.For, ast.AsyncFor)):
        return nxt.iter
    return None


def _replace(root, old, new):
    for n in ast.walk(root):
        for f, val in ast.iter_fields(n):
            if val is old:
                setattr(n, f, new)
                return True
            if isinstance(val, list):
                for i, x in enumerate(val):
                    if x is old:
                        val[i] = new
                        return True
    return False


def _inline_pass(fn):
    changed = False
    params = {a.arg for a in fn.args.posonlyargs + fn.args.args + fn.args.kwonlyargs}

    def blocks(n):
        for c in ast.iter_child_nodes(n):
            if isinstance(c, SCOPES):
                continue
            yield from blocks(c)
        if not isinstance(n, ast.expr):
            for fld in _block_fields(n):
                yield n, fld
    for owner, fld in list(blocks(fn)):
        body = getattr(owner, fld)
        i = 0
        while i + 1 < len(body):
            st = body[i]
            if isinstance(st, ast.Assign) and len(st.targets) == 1 and isinstance(st.targets[0], ast.Name):
                v = st.targets[0].id
                nxt = body[i + 1]
                slot = _single_use_site(nxt, v)
                if slot is not None and v not in params and _count(fn, v) == 2:
                    where = slot if isinstance(nxt, (ast.If, ast.For, ast.AsyncFor)) else nxt
                    uses = [x for x in ast.walk(where) if isinstance(x, ast.Name) and x.id == v and isinstance(x.ctx, ast.Load)]
                    shielded = False
                    if len(uses) == 1:
                        for x in ast.walk(where):
                            if isinstance(x, (ast.Lambda, ast.ListComp, ast.GeneratorExp, ast.DictComp, ast.SetComp)) \
                                    and any(y is uses[0] for y in ast.walk(x)):
                                shielded = True
                    if len(uses) == 1 and not shielded:
                        if where is slot and isinstance(nxt, ast.If) and slot is uses[0]:
                            nxt.test = st.value
                        elif where is slot and isinstance(nxt, (ast.For, ast.AsyncFor)) and slot is uses[0]:
                            nxt.iter = st.value
                        else:
                            _replace(where, uses[0], st.value)
                        del body[i]
                        changed = True
                        continue
            i += 1
    return changed


def _locals(fn):
    params = {a.arg for a in fn.args.posonlyargs + fn.args.args + fn.args.kwonlyargs}
    if fn.args.vararg:
        params.add(fn.args.vararg.arg)
    if fn.args.kwarg:
        params.add(fn.args.kwarg.arg)
    glob = {x for n in ast.walk(fn) if isinstance(n, (ast.Global, ast.Nonlocal)) for x in n.names}
    order = []

    def rec(n):
        for c in ast.iter_child_nodes(n):
            if isinstance(c, SCOPES):
                continue
            # evaluation order: value before targets would be more faithful, but any fixed order serves
            rec(c)
        if isinstance(n, ast.Name) and isinstance(n.ctx, ast.Store) and n.id not in order:
            order.append(n.id)
        elif isinstance(n, ast.ExceptHandler) and n.name and n.name not in order:
            order.append(n.name)
    rec(fn)
    return [x for x in order if x not in params and x not in glob]


def _alpha(fn):
    mapping = {v: '§%d' % i for i, v in enumerate(_locals(fn))}
    for n in ast.walk(fn):
        if isinstance(n, ast.Name) and n.id in mapping:
            n.id = mapping[n.id]
        elif isinstance(n, ast.ExceptHandler) and n.name in mapping:
            n.name = mapping[n.name]
    return mapping


class _E2(ast.NodeTransformer):
    def visit_BinOp(self, n):
        self.generic_visit(n)
        if isinstance(n.op, COMMUTATIVE):
            a, b = ast.dump(n.left), ast.dump(n.right)
            if b < a:
                n.left, n.right = n.right, n.left
        return n

    def visit_Compare(self, n):
        self.generic_visit(n)
        if len(n.ops) == 1 and isinstance(n.ops[0], (ast.Eq, ast.NotEq)):
            a, b = ast.dump(n.left), ast.dump(n.comparators[0])
            if b < a:
                n.left, n.comparators[0] = n.comparators[0], n.left
        return n

    def visit_Call(self, n):
        self.generic_visit(n)
        if n.keywords and all(k.arg is not None for k in n.keywords):
            n.keywords = sorted(n.keywords, key=lambda k: k.arg)
        if isinstance(n.func, ast.Attribute) and n.func.attr in ('minimum', 'maximum', 'logical_and', 'logical_or') and isinstance(n.func.value, ast.Name) \
                and n.func.value.id in ('np', 'numpy') and len(n.args) == 2 and not n.keywords and all(_pure_expr(a) for a in n.args):
            n.args = sorted(n.args, key=ast.dump)
        return n


def _strip_signature(c):
    """Annotations carry no behaviour; a trailing parameter with a default that the body never reads does not either."""
    c.returns = None
    for a in c.args.posonlyargs + c.args.args + c.args.kwonlyargs + ([c.args.vararg] if c.args.vararg else []) + ([c.args.kwarg] if c.args.kwarg else []):
        a.annotation = None
    used = {x.id for st in c.body for x in ast.walk(st) if isinstance(x, ast.Name)}
    while c.args.args and c.args.defaults and c.args.args[-1].arg not in used and len(c.args.defaults) >= 1 \
            and isinstance(c.args.defaults[-1], ast.Constant) and c.args.kwarg is None and c.args.vararg is None and not c.args.kwonlyargs:
        c.args.args.pop()
        c.args.defaults.pop()
    for st in ast.walk(c):
        if isinstance(st, ast.AnnAssign) and st.value is not None and st.simple:
            pass
    return c


def _dead_constant_stores(fn):
    """`_dbg = 0` where the name is never read anywhere in the function: no effect."""
    reads = {x.id for x in ast.walk(fn) if isinstance(x, ast.Name) and isinstance(x.ctx, ast.Load)}
    glob = {x for n in ast.walk(fn) if isinstance(n, (ast.Global, ast.Nonlocal)) for x in n.names}
    changed = False
    for n in ast.walk(fn):
        for fld in ('body', 'orelse', 'finalbody'):
            v = getattr(n, fld, None)
            if isinstance(v, list) and v and isinstance(v[0], ast.stmt) and not isinstance(n, ast.Lambda):
                kept = [st for st in v if not (isinstance(st, ast.Assign) and len(st.targets) == 1 and isinstance(st.targets[0], ast.Name)
                                               and st.targets[0].id not in reads and st.targets[0].id not in glob
                                               and (isinstance(st.value, ast.Constant) or (
                                                   isinstance(st.value, ast.Subscript) and isinstance(st.value.value, ast.Name)
                                                   and st.value.value.id.startswith('_u') and isinstance(st.value.slice, ast.Constant))))]
                if len(kept) != len(v):
                    setattr(n, fld, kept or [ast.Pass()])
                    changed = True
    return changed


def _const_prop(fn, consts):
    """Named constants read as their value: module-level `NAME = <number|string>` (consts) and locals bound exactly once to a
    constant expression made of literals."""
    from .astutil import try_fold
    params = {a.arg for a in fn.args.posonlyargs + fn.args.args + fn.args.kwonlyargs}
    if fn.args.vararg:
        params.add(fn.args.vararg.arg)
    if fn.args.kwarg:
        params.add(fn.args.kwarg.arg)
    stores = {}
    for n in ast.walk(fn):
        if isinstance(n, ast.Name) and isinstance(n.ctx, (ast.Store, ast.Del)):
            stores[n.id] = stores.get(n.id, 0) + 1
        elif isinstance(n, (ast.Global, ast.Nonlocal)):
            for x in n.names:
                stores[x] = stores.get(x, 0) + 2
    local_consts = {}
    for st in fn.body:
        if isinstance(st, ast.Assign) and len(st.targets) == 1 and isinstance(st.targets[0], ast.Name) and stores.get(st.targets[0].id) == 1 \
                and st.targets[0].id not in params:
            v = st.value
            if all(isinstance(x, (ast.Constant, ast.BinOp, ast.UnaryOp, ast.operator, ast.unaryop, ast.expr_context)) for x in ast.walk(v)):
                k = try_fold(v)
                if isinstance(k, (int, float, str)) and not isinstance(k, bool):
                    local_consts[st.targets[0].id] = (k, st)
    mapping = {}
    for name, v in (consts or {}).items():
        if name not in stores and name not in params:
            mapping[name] = v
    for name, (k, st) in local_consts.items():
        mapping[name] = k
    if not mapping:
        return False

    class P(ast.NodeTransformer):
        def visit_Name(self, n):
            if isinstance(n.ctx, ast.Load) and n.id in mapping:
                return ast.copy_location(ast.Constant(value=mapping[n.id]), n)
            return n
    P().visit(fn)
    drop = {id(st) for k, st in local_consts.values()}
    fn.body = [st for st in fn.body if id(st) not in drop] or [ast.Pass()]
    return True


def _int_const(e):
    return isinstance(e, ast.Constant) and type(e.value) is int


class _FoldConst(ast.NodeTransformer):
    """2**14 -> 16384, -1*3 -> -3: arithmetic on literals only."""
    def visit_BinOp(self, n):
        self.generic_visit(n)
        if isinstance(n.left, ast.Constant) and isinstance(n.right, ast.Constant) and not isinstance(n.left.value, (str, bytes, bool)) \
                and not isinstance(n.right.value, (str, bytes, bool)) and isinstance(n.left.value, (int, float)) and isinstance(n.right.value, (int, float)):
            from .astutil import try_fold
            k = try_fold(n)
            if isinstance(k, (int, float)) and not isinstance(k, bool) and abs(k) < 2 ** 80:
                return ast.copy_location(ast.Constant(value=k), n)
        # integer offsets: (e + 1) + 1 -> e + 2 ; e - 0 -> e ; e + 0 -> e      (integer literals only)
        if isinstance(n.op, (ast.Add, ast.Sub)) and _int_const(n.right):
            c = n.right.value if isinstance(n.op, ast.Add) else -n.right.value
            inner = n.left
            if isinstance(inner, ast.BinOp) and isinstance(inner.op, (ast.Add, ast.Sub)) and _int_const(inner.right):
                c += inner.right.value if isinstance(inner.op, ast.Add) else -inner.right.value
                inner = inner.left
            if inner is not n.left or c == 0:
                if c == 0:
                    return inner
                return ast.copy_location(ast.BinOp(left=inner, op=ast.Add() if c > 0 else ast.Sub(), right=ast.Constant(value=abs(c))), n)
        return n

    def visit_UnaryOp(self, n):
        self.generic_visit(n)
        if isinstance(n.op, ast.USub) and isinstance(n.operand, ast.Constant) and isinstance(n.operand.value, (int, float)) and not isinstance(n.operand.value, bool):
            return ast.copy_location(ast.Constant(value=-n.operand.value), n)
        return n


def _copy_prop(fn):
    """`a = b` with both names bound exactly once (or b a parameter that is never re-bound): a reads as b."""
    params = {x.arg for x in fn.args.posonlyargs + fn.args.args + fn.args.kwonlyargs}
    stores = {}
    for n in ast.walk(fn):
        if isinstance(n, ast.Name) and isinstance(n.ctx, (ast.Store, ast.Del)):
            stores[n.id] = stores.get(n.id, 0) + 1
        elif isinstance(n, (ast.Global, ast.Nonlocal)):
            for x in n.names:
                stores[x] = stores.get(x, 0) + 2
        elif isinstance(n, ast.arg):
            pass
    changed = False
    for owner in ast.walk(fn):
        for fld in ('body', 'orelse', 'finalbody'):
            body = getattr(owner, fld, None)
            if not (isinstance(body, list) and body and isinstance(body[0], ast.stmt)) or isinstance(owner, ast.Lambda):
                continue
            for st in list(body):
                if isinstance(st, ast.Assign) and len(st.targets) == 1 and isinstance(st.targets[0], ast.Name) and isinstance(st.value, ast.Name):
                    a, b = st.targets[0].id, st.value.id
                    if a == b or a in params or stores.get(a) != 1:
                        continue
                    # the copy must dominate its uses: top-level statements of the function body, or a nested block that holds every read of a
                    if owner is not fn:
                        idx = next(k for k, x in enumerate(body) if x is st)
                        inside = sum(1 for r in body[idx + 1:] for x in ast.walk(r) if isinstance(x, ast.Name) and x.id == a and isinstance(x.ctx, ast.Load))
                        total = sum(1 for x in ast.walk(fn) if isinstance(x, ast.Name) and x.id == a and isinstance(x.ctx, ast.Load))
                        if inside != total or stores.get(b) != 1 or \
                                any(isinstance(x, ast.Name) and x.id == b and isinstance(x.ctx, (ast.Store, ast.Del)) for r in body[idx + 1:] for x in ast.walk(r)):
                            continue
                        for x in ast.walk(fn):
                            if isinstance(x, ast.Name) and x.id == a and isinstance(x.ctx, ast.Load):
                                x.id = b
                        body.remove(st)
                        changed = True
                        continue
                    if not ((b in params and stores.get(b, 0) == 0) or stores.get(b) == 1):
                        # b is bound several times: fine when none of those bindings comes after the copy
                        later = body[body.index(st) + 1:]
                        if any(isinstance(x, ast.Name) and x.id == b and isinstance(x.ctx, (ast.Store, ast.Del)) for r in later for x in ast.walk(r)) \
                                or stores.get(b, 0) >= 100 or any(isinstance(x, (ast.Global, ast.Nonlocal)) and b in x.names for x in ast.walk(fn)):
                            continue
                    for x in ast.walk(fn):
                        if isinstance(x, ast.Name) and x.id == a and isinstance(x.ctx, ast.Load):
                            x.id = b
                    body.remove(st)
                    changed = True
            if not body:
                body.append(ast.Pass())
    return changed


def _coalesce_copy(fn):
    """`a = b` at the top level of the function where b is dead afterwards and a does not exist before: the two names are one variable
    (a helper that re-binds its parameter, inlined).  a is renamed to b and the copy dropped."""
    params = {x.arg for x in fn.args.posonlyargs + fn.args.args + fn.args.kwonlyargs} | \
        {x.arg for x in (fn.args.vararg, fn.args.kwarg) if x is not None}
    if any(isinstance(n, (ast.Global, ast.Nonlocal, ast.Lambda, ast.FunctionDef, ast.GeneratorExp, ast.ListComp, ast.SetComp, ast.DictComp))
           for st in fn.body for n in ast.walk(st)):
        return False
    changed = False
    for idx, st in enumerate(list(fn.body)):
        if not (isinstance(st, ast.Assign) and len(st.targets) == 1 and isinstance(st.targets[0], ast.Name) and isinstance(st.value, ast.Name)):
            continue
        a, b = st.targets[0].id, st.value.id
        if a == b or a in params:
            continue
        if fn.body[idx] is not st:
            idx = next(k for k, x in enumerate(fn.body) if x is st)
        if any(isinstance(x, ast.Name) and x.id == a for r in fn.body[:idx] for x in ast.walk(r)):
            continue
        if any(isinstance(x, ast.Name) and x.id == b for r in fn.body[idx + 1:] for x in ast.walk(r)):
            continue
        for r in fn.body[idx + 1:]:
            for x in ast.walk(r):
                if isinstance(x, ast.Name) and x.id == a:
                    x.id = b
        del fn.body[idx]
        changed = True
    # copy-in / copy-out: `a = b; <region that works on a and never mentions b>; b = a`, a unknown outside the region: the region works
    # on b itself (an inlined helper that re-binds a parameter and returns it).  No statement of the region may leave it early.
    has_try = any(isinstance(x, ast.Try) for x in ast.walk(fn))
    for owner in ast.walk(fn):
        for fld in ('body', 'orelse', 'finalbody'):
            body = getattr(owner, fld, None)
            if not (isinstance(body, list) and body and isinstance(body[0], ast.stmt)) or isinstance(owner, (ast.Lambda, ast.ClassDef)) or \
                    (isinstance(owner, ast.FunctionDef) and owner is not fn):
                continue
            i = 0
            while i < len(body):
                st = body[i]
                i += 1
                if not (isinstance(st, ast.Assign) and len(st.targets) == 1 and isinstance(st.targets[0], ast.Name) and isinstance(st.value, ast.Name)):
                    continue
                a, b = st.targets[0].id, st.value.id
                if a == b or a in params:
                    continue
                j = next((k for k in range(i, len(body)) if isinstance(body[k], ast.Assign) and len(body[k].targets) == 1
                          and isinstance(body[k].targets[0], ast.Name) and body[k].targets[0].id == b and isinstance(body[k].value, ast.Name)
                          and body[k].value.id == a), None)
                if j is None:
                    continue
                region = body[i:j]
                if any(isinstance(x, ast.Name) and x.id == b for r in region for x in ast.walk(r)):
                    continue
                if any(isinstance(x, (ast.Return, ast.Break, ast.Continue, ast.Lambda, ast.FunctionDef, ast.GeneratorExp, ast.ListComp, ast.SetComp, ast.DictComp))
                       or (has_try and isinstance(x, ast.Raise)) for r in region for x in ast.walk(r)):
                    continue
                n_a = sum(1 for x in ast.walk(fn) if isinstance(x, ast.Name) and x.id == a)
                n_in = sum(1 for r in region for x in ast.walk(r) if isinstance(x, ast.Name) and x.id == a) + 2
                if n_a != n_in:
                    continue
                for r in region:
                    for x in ast.walk(r):
                        if isinstance(x, ast.Name) and x.id == a:
                            x.id = b
                del body[j]
                del body[i - 1]
                i -= 1
                changed = True
    # trailing copy: `<block that works on a>; t = a` with a unknown outside the block and t not mentioned in the block before: the
    # block works on t itself
    for owner in ast.walk(fn):
        for fld in ('body', 'orelse'):
            body = getattr(owner, fld, None)
            if not (isinstance(body, list) and len(body) >= 2 and isinstance(body[0], ast.stmt)) or isinstance(owner, (ast.Lambda, ast.ClassDef, ast.FunctionDef)):
                continue
            for idx, st in enumerate(body):
                if not (isinstance(st, ast.Assign) and len(st.targets) == 1 and isinstance(st.targets[0], ast.Name) and isinstance(st.value, ast.Name)):
                    continue
                t_, a = st.targets[0].id, st.value.id
                if t_ == a or a in params:
                    continue
                before = body[:idx]
                if any(isinstance(x, ast.Name) and x.id == t_ for r in before for x in ast.walk(r)):
                    continue
                if any(isinstance(x, ast.Name) and x.id == a for r in body[idx + 1:] for x in ast.walk(r)):
                    continue
                n_a = sum(1 for x in ast.walk(fn) if isinstance(x, ast.Name) and x.id == a)
                n_in = sum(1 for r in before for x in ast.walk(r) if isinstance(x, ast.Name) and x.id == a) + 1
                if n_a != n_in or n_in < 2:
                    continue
                if any(isinstance(x, (ast.Return, ast.Break, ast.Continue, ast.Lambda, ast.GeneratorExp, ast.ListComp, ast.SetComp, ast.DictComp))
                       or (has_try and isinstance(x, ast.Raise)) for r in before for x in ast.walk(r)):
                    continue
                # a must be bound in the block before it is read there (it is the block's own variable)
                first = next((x for r in before for x in ast.walk(r) if isinstance(x, ast.Name) and x.id == a), None)
                if first is None or not isinstance(first.ctx, ast.Store):
                    continue
                for r in before:
                    for x in ast.walk(r):
                        if isinstance(x, ast.Name) and x.id == a:
                            x.id = t_
                del body[idx]
                changed = True
                break
    # the same inside a nested block (a loop body): b is the block's own variable - no occurrence outside the block, (re)bound by a
    # plain assignment at the block's own level before its first read - so it is dead after the copy in every pass; a lives only in the
    # rest of the block
    def names_in(nodes, nm):
        return sum(1 for r in nodes for x in ast.walk(r) if isinstance(x, ast.Name) and x.id == nm)
    total = {}
    for x in ast.walk(fn):
        if isinstance(x, ast.Name):
            total[x.id] = total.get(x.id, 0) + 1
    for owner in ast.walk(fn):
        if owner is fn:
            continue
        for fld in ('body', 'orelse'):
            body = getattr(owner, fld, None)
            if not (isinstance(body, list) and body and isinstance(body[0], ast.stmt)) or isinstance(owner, (ast.Lambda, ast.FunctionDef, ast.ClassDef)):
                continue
            for st in list(body):
                if not (isinstance(st, ast.Assign) and len(st.targets) == 1 and isinstance(st.targets[0], ast.Name) and isinstance(st.value, ast.Name)):
                    continue
                a, b = st.targets[0].id, st.value.id
                if a == b or a in params or b in params:
                    continue
                idx = next(k for k, x in enumerate(body) if x is st)
                before, after = body[:idx], body[idx + 1:]
                if names_in(after, a) + 1 != total.get(a, 0):           # a: only the copy and the rest of the block
                    continue
                if names_in(after, b) != 0 or names_in(before, b) + 1 != total.get(b, 0):
                    continue
                first = next((k for k, r in enumerate(before) if names_in([r], b)), None)
                if first is None:
                    continue
                fst = before[first]
                if not (isinstance(fst, ast.Assign) and len(fst.targets) == 1 and isinstance(fst.targets[0], ast.Name) and fst.targets[0].id == b
                        and names_in([fst.value], b) == 0):
                    continue
                for r in after:
                    for x in ast.walk(r):
                        if isinstance(x, ast.Name) and x.id == a:
                            x.id = b
                body.remove(st)
                total[b] = total.get(b, 0) + total.get(a, 0) - 2
                total[a] = 0
                changed = True
    return changed


def _simple_test(t):
    """A comparison of names / attributes with literals (or of two names), possibly negated or combined: cheap, effect-free, cannot raise."""
    if isinstance(t, ast.BoolOp):
        return all(_simple_test(v) for v in t.values)
    if isinstance(t, ast.UnaryOp) and isinstance(t.op, ast.Not):
        return _simple_test(t.operand)
    if isinstance(t, ast.Compare) and len(t.ops) == 1 and isinstance(t.ops[0], (ast.Eq, ast.NotEq, ast.Is, ast.IsNot, ast.In, ast.NotIn)):
        sides = [t.left, t.comparators[0]]
        return all(isinstance(x, (ast.Name, ast.Constant)) or (isinstance(x, (ast.Tuple, ast.List, ast.Set)) and all(isinstance(e, ast.Constant) for e in x.elts))
                   for x in sides)
    return isinstance(t, ast.Name)


def _hoist_terminal_else(fn):
    """if a: A elif b: B else: raise E        ->   if not a and not b: raise E ; if a: A else: B
    (also when the final else is `if g: raise E` followed by more).  The tests are comparisons of names with literals: evaluating them
    up front changes nothing, and on the raising path nothing else ran before either.  A second, identical guard further down the same
    block with no store to its names in between is dropped (it cannot fire)."""
    changed = False
    for owner in ast.walk(fn):
        for fld in ('body', 'orelse', 'finalbody'):
            body = getattr(owner, fld, None)
            if not (isinstance(body, list) and body and isinstance(body[0], ast.stmt)) or isinstance(owner, ast.Lambda):
                continue
            i = 0
            while i < len(body):
                st = body[i]
                i += 1
                if not (isinstance(st, ast.If) and st.orelse):
                    continue
                tests, node = [], st
                while True:
                    tests.append(node.test)
                    if len(node.orelse) == 1 and isinstance(node.orelse[0], ast.If) and node.orelse[0].orelse:
                        node = node.orelse[0]
                        continue
                    break
                last = node                       # its orelse is the final else block
                E = last.orelse
                g = None
                if len(E) >= 1 and isinstance(E[0], ast.Raise):
                    rest, rs = [], E[0]
                    if len(E) != 1:
                        continue
                elif len(E) >= 1 and isinstance(E[0], ast.If) and not E[0].orelse and len(E[0].body) == 1 and isinstance(E[0].body[0], ast.Raise):
                    g, rs, rest = E[0].test, E[0].body[0], E[1:]
                    if not rest:
                        continue
                else:
                    continue
                if not all(_simple_test(t) for t in tests + ([g] if g is not None else [])):
                    continue
                names = {x.id for t in tests + ([g] if g is not None else []) for x in ast.walk(t) if isinstance(x, ast.Name)}
                # the branches must not re-bind what the tests read (they run after the hoisted guard anyway; this keeps the chain's own
                # later tests meaningful)
                conj = [ast.UnaryOp(op=ast.Not(), operand=clone(t)) for t in tests] + ([clone(g)] if g is not None else [])
                guard = ast.If(test=ast.BoolOp(op=ast.And(), values=conj) if len(conj) > 1 else conj[0], body=[rs], orelse=[])
                ast.copy_location(guard, st)
                ast.fix_missing_locations(guard)
                if rest:
                    last.orelse = rest
                else:
                    # else: raise  ->  the last tested branch becomes the else
                    last.orelse = []
                    if last is st:
                        # single `if a: A else: raise`: guard + A
                        body[i - 1:i] = [guard] + st.body
                        changed = True
                        continue
                    # find parent of `last` in the chain and make last's body its else
                    par = st
                    while not (len(par.orelse) == 1 and par.orelse[0] is last):
                        par = par.orelse[0]
                    par.orelse = last.body
                body.insert(i - 1, guard)
                i += 1
                changed = True
            # duplicate guards
            seen = {}
            k = 0
            while k < len(body):
                st = body[k]
                if isinstance(st, ast.If) and not st.orelse and len(st.body) == 1 and isinstance(st.body[0], ast.Raise) and _simple_test(st.test):
                    key = ast.dump(st.test)
                    if key in seen:
                        names = {x.id for x in ast.walk(st.test) if isinstance(x, ast.Name)}
                        between = body[seen[key] + 1:k]
                        if not any(isinstance(x, ast.Name) and isinstance(x.ctx, (ast.Store, ast.Del)) and x.id in names for r in between for x in ast.walk(r)):
                            del body[k]
                            changed = True
                            continue
                    seen[key] = k
                k += 1
    return changed


def _empty_filled(fn):
    """X = np.empty((n, K), ..) followed by X[:, 0] = .., ..., X[:, K-1] = .. (every column, before anything else mentions X) reads
    np.zeros((n, K), ..): no element keeps its uninitialised value."""
    changed = False
    for owner in ast.walk(fn):
        for fld in ('body', 'orelse', 'finalbody'):
            body = getattr(owner, fld, None)
            if not (isinstance(body, list) and body and isinstance(body[0], ast.stmt)) or isinstance(owner, ast.Lambda):
                continue
            for i, st in enumerate(body):
                if not (isinstance(st, ast.Assign) and len(st.targets) == 1 and isinstance(st.targets[0], ast.Name) and isinstance(st.value, ast.Call)
                        and isinstance(st.value.func, ast.Attribute) and st.value.func.attr == 'empty' and isinstance(st.value.func.value, ast.Name)
                        and st.value.func.value.id in ('np', 'numpy') and st.value.args and isinstance(st.value.args[0], ast.Tuple)
                        and len(st.value.args[0].elts) == 2 and isinstance(st.value.args[0].elts[1], ast.Constant)
                        and type(st.value.args[0].elts[1].value) is int and 1 <= st.value.args[0].elts[1].value <= 16):
                    continue
                x, K = st.targets[0].id, st.value.args[0].elts[1].value
                cols = set()
                for r in body[i + 1:]:
                    mentions = [y for y in ast.walk(r) if isinstance(y, ast.Name) and y.id == x]
                    if not mentions:
                        continue
                    t = r.targets[0] if isinstance(r, ast.Assign) and len(r.targets) == 1 else None
                    if isinstance(t, ast.Subscript) and isinstance(t.value, ast.Name) and t.value.id == x and isinstance(t.slice, ast.Tuple) \
                            and len(t.slice.elts) == 2 and isinstance(t.slice.elts[0], ast.Slice) and t.slice.elts[0].lower is None \
                            and t.slice.elts[0].upper is None and t.slice.elts[0].step is None and isinstance(t.slice.elts[1], ast.Constant) \
                            and type(t.slice.elts[1].value) is int and len(mentions) == 1:
                        cols.add(t.slice.elts[1].value)
                        if cols == set(range(K)):
                            break
                        continue
                    break
                if cols == set(range(K)):
                    st.value.func.attr = 'zeros'
                    changed = True
    return changed


def _fresh_zeros(fn):
    """X = np.zeros(S, dtype=D) (X bound once, S and D over names that are never re-bound):
         np.zeros_like(X)  reads  np.zeros(S, dtype=D)         (shape and type of X cannot change through element stores)
         X.copy()          reads  np.zeros(S, dtype=D)         when nothing between the allocation and the copy mentions X other than
                                                               such copies (X is still all zeros)."""
    stores = {}
    for n in ast.walk(fn):
        if isinstance(n, ast.Name) and isinstance(n.ctx, (ast.Store, ast.Del)):
            stores[n.id] = stores.get(n.id, 0) + 1
    params = {a.arg for a in fn.args.posonlyargs + fn.args.args + fn.args.kwonlyargs}
    changed = False
    for owner in ast.walk(fn):
        for fld in ('body', 'orelse', 'finalbody'):
            body = getattr(owner, fld, None)
            if not (isinstance(body, list) and body and isinstance(body[0], ast.stmt)) or isinstance(owner, ast.Lambda):
                continue
            for i, st in enumerate(body):
                if not (isinstance(st, ast.Assign) and len(st.targets) == 1 and isinstance(st.targets[0], ast.Name) and isinstance(st.value, ast.Call)
                        and isinstance(st.value.func, ast.Attribute) and st.value.func.attr == 'zeros' and isinstance(st.value.func.value, ast.Name)
                        and st.value.func.value.id in ('np', 'numpy')):
                    continue
                x = st.targets[0].id
                if stores.get(x) != 1 or x in params or not _pure_expr(st.value):
                    continue
                free = {y.id for y in ast.walk(st.value) if isinstance(y, ast.Name)}
                if x in free or any(stores.get(y, 0) != 0 for y in free):
                    continue
                still_zero = True
                for r in body[i + 1:]:
                    for c in ast.walk(r):
                        if isinstance(c, ast.Call) and isinstance(c.func, ast.Attribute) and c.func.attr == 'zeros_like' and len(c.args) == 1 and not c.keywords \
                                and isinstance(c.args[0], ast.Name) and c.args[0].id == x:
                            new = clone(st.value)
                            c.func, c.args, c.keywords = new.func, new.args, new.keywords
                            changed = True
                    if still_zero and isinstance(r, ast.Assign) and isinstance(r.value, ast.Call) and isinstance(r.value.func, ast.Attribute) \
                            and r.value.func.attr == 'copy' and not r.value.args and not r.value.keywords and isinstance(r.value.func.value, ast.Name) \
                            and r.value.func.value.id == x and not any(isinstance(y, ast.Name) and y.id == x for t in r.targets for y in ast.walk(t)):
                        r.value = ast.copy_location(clone(st.value), r.value)
                        changed = True
                        continue
                    if any(isinstance(y, ast.Name) and y.id == x for y in ast.walk(r)):
                        still_zero = False
    return changed


def _group_store(fn):
    """if K in D: D[K][L] = V else: D[K] = {L: V}      and      D.setdefault(K, {}).update({L: V})
    both read  D.setdefault(K, {})[L] = V   (K, L, V effect-free and not reading D)."""
    changed = False

    def canonical(D, K, L, V, at):
        t = ast.Subscript(value=ast.Call(func=ast.Attribute(value=D, attr='setdefault', ctx=ast.Load()), args=[K, ast.Dict(keys=[], values=[])], keywords=[]),
                          slice=L, ctx=ast.Store())
        st = ast.Assign(targets=[t], value=V, type_comment=None)
        ast.copy_location(st, at)
        ast.fix_missing_locations(st)
        return st

    def ok(D, *es):
        if not isinstance(D, ast.Name):
            return False
        return all(_pure_expr(e) and not any(isinstance(x, ast.Name) and x.id == D.id for x in ast.walk(e)) for e in es)
    for owner in ast.walk(fn):
        for fld in ('body', 'orelse', 'finalbody'):
            body = getattr(owner, fld, None)
            if not (isinstance(body, list) and body and isinstance(body[0], ast.stmt)) or isinstance(owner, ast.Lambda):
                continue
            for i, st in enumerate(body):
                if isinstance(st, ast.If) and len(st.body) == 1 and len(st.orelse) == 1 and isinstance(st.test, ast.Compare) and len(st.test.ops) == 1 \
                        and isinstance(st.test.ops[0], (ast.In, ast.NotIn)):
                    have, new = (st.body[0], st.orelse[0]) if isinstance(st.test.ops[0], ast.In) else (st.orelse[0], st.body[0])
                    K, D = st.test.left, st.test.comparators[0]
                    if not (isinstance(have, ast.Assign) and isinstance(new, ast.Assign) and len(have.targets) == 1 and len(new.targets) == 1):
                        continue
                    th, tn = have.targets[0], new.targets[0]
                    if not (isinstance(th, ast.Subscript) and isinstance(th.value, ast.Subscript) and isinstance(tn, ast.Subscript)):
                        continue
                    if not (ast.dump(th.value.value) == ast.dump(D) == ast.dump(tn.value) and ast.dump(th.value.slice) == ast.dump(K) == ast.dump(tn.slice)):
                        continue
                    if not (isinstance(new.value, ast.Dict) and len(new.value.keys) == 1 and new.value.keys[0] is not None
                            and ast.dump(new.value.keys[0]) == ast.dump(th.slice) and ast.dump(new.value.values[0]) == ast.dump(have.value)):
                        continue
                    if not ok(D, K, th.slice, have.value):
                        continue
                    body[i] = canonical(D, K, th.slice, have.value, st)
                    changed = True
                elif isinstance(st, ast.Expr) and isinstance(st.value, ast.Call) and isinstance(st.value.func, ast.Attribute) and st.value.func.attr == 'update' \
                        and len(st.value.args) == 1 and not st.value.keywords and isinstance(st.value.args[0], ast.Dict) and len(st.value.args[0].keys) == 1 \
                        and st.value.args[0].keys[0] is not None:
                    recv = st.value.func.value
                    if isinstance(recv, ast.Call) and isinstance(recv.func, ast.Attribute) and recv.func.attr == 'setdefault' and len(recv.args) == 2 \
                            and not recv.keywords and isinstance(recv.args[1], ast.Dict) and not recv.args[1].keys:
                        D, K = recv.func.value, recv.args[0]
                        L, V = st.value.args[0].keys[0], st.value.args[0].values[0]
                        if ok(D, K, L, V):
                            body[i] = canonical(D, K, L, V, st)
                            changed = True
    return changed


def _tail_returns_of(body):
    """The Return statements in tail position of a statement list (last statement of the function body, of the branches of a tail if,
    of the body / handlers of a tail try without finally, of a tail with), or None when the list does not end in such a shape on a
    path that returns a value."""
    if not body:
        return []
    last = body[-1]
    if isinstance(last, ast.Return):
        return [last]
    if isinstance(last, ast.If):
        a = _tail_returns_of(last.body)
        b = _tail_returns_of(last.orelse) if last.orelse else []
        return None if a is None or b is None else a + b
    if isinstance(last, ast.Try) and not last.finalbody:
        parts = [_tail_returns_of(last.orelse if last.orelse else last.body)] + [_tail_returns_of(h.body) for h in last.handlers]
        if last.orelse and any(isinstance(x, ast.Return) for st in last.body for x in ast.walk(st)):
            return None
        return None if any(p_ is None for p_ in parts) else [r for p_ in parts for r in p_]
    if isinstance(last, (ast.With, ast.AsyncWith)):
        return _tail_returns_of(last.body)
    return []


def _nest_guards(g):
    """A copy of helper g in which every guard `if c: ...; return X` followed by more statements reads `if c: ...; return X else: <rest>`,
    so that all its returns are in tail position (same behaviour, the shape the inliner understands)."""
    c = clone(g)

    def ends(body):
        if not body:
            return False
        last = body[-1]
        if isinstance(last, (ast.Return, ast.Raise)):
            return True
        if isinstance(last, ast.If):
            return bool(last.orelse) and ends(last.body) and ends(last.orelse)
        return False

    def nest(body):
        for i, st in enumerate(body):
            if isinstance(st, ast.If):
                st.body = nest(st.body)
                st.orelse = nest(st.orelse) if st.orelse else []
                if i + 1 < len(body) and not st.orelse and ends(st.body):
                    st.orelse = nest(body[i + 1:])
                    return body[:i + 1]
                if i + 1 < len(body) and st.orelse and ends(st.orelse) and not ends(st.body):
                    st.body = st.body + nest(body[i + 1:])
                    return body[:i + 1]
            elif isinstance(st, (ast.With, ast.AsyncWith)):
                st.body = nest(st.body)
        return body
    c.body = nest(list(c.body))
    for k in ('_key', '_bound_self'):
        if hasattr(g, k):
            setattr(c, k, getattr(g, k))
    return c


def inline_new_helpers(fn, resolve, is_new, depth=2):
    """Statement-level inlining of calls to package helpers that do not exist in the reference (a block that was moved into a new
    private function).  resolve(call) -> FunctionDef node of the callee or None; is_new(node) -> True when the reference has no
    function of that name.  Only helpers with plain positional parameters, no nested scopes, no global state and a single return as
    their last statement (or none) are inlined, at call sites of the forms `T = h(..)`, `return h(..)`, `h(..)`."""
    counter = [0]

    def inlinable(g):
        a = g.args
        if a.vararg or a.kwarg or a.kwonlyargs or a.posonlyargs or g.decorator_list:
            return False
        body = list(g.body)
        if body and isinstance(body[0], ast.Expr) and isinstance(body[0].value, ast.Constant) and isinstance(body[0].value.value, str):
            body = body[1:]
        if not body:
            return False
        for n in ast.walk(g):
            if n is not g and isinstance(n, SCOPES + (ast.Global, ast.Nonlocal, ast.Yield, ast.YieldFrom, ast.Await)):
                return False
        rets = [n for n in ast.walk(g) if isinstance(n, ast.Return)]
        tails = _tail_returns_of(body)
        if tails is None or len(tails) != len(rets):
            return False
        return True

    def expand(call, g, how, target):
        counter[0] += 1
        tag = '_h%d_' % counter[0]
        a = g.args
        params = [x.arg for x in a.args]
        pos_args = list(call.args)
        if getattr(g, '_bound_self', None) is not None:
            pos_args = [g._bound_self] + pos_args
        if any(isinstance(x, ast.Starred) for x in pos_args) or any(k.arg is None for k in call.keywords) or len(pos_args) > len(params):
            return None
        binding = dict(zip(params, pos_args))
        for k in call.keywords:
            if k.arg not in params or k.arg in binding:
                return None
            binding[k.arg] = k.value
        defaults = dict(zip(params[len(params) - len(a.defaults):], a.defaults))
        for p_ in params:
            if p_ not in binding:
                if p_ not in defaults:
                    return None
                binding[p_] = defaults[p_]
        body = [clone(st) for st in g.body]
        if body and isinstance(body[0], ast.Expr) and isinstance(body[0].value, ast.Constant) and isinstance(body[0].value.value, str):
            body = body[1:]
        locs = set(params) | {n.id for st in body for n in ast.walk(st) if isinstance(n, ast.Name) and isinstance(n.ctx, (ast.Store, ast.Del))}
        for st in body:
            for n in ast.walk(st):
                if isinstance(n, ast.Name) and n.id in locs:
                    n.id = tag + n.id
                elif isinstance(n, ast.ExceptHandler) and n.name in locs:
                    n.name = tag + n.name
        # a parameter that the helper never re-binds and whose argument is a plain reference (names, attributes, subscripts, constants)
        # is substituted directly; anything else is bound once, like the call would
        rebound = {n.id for st in body for n in ast.walk(st) if isinstance(n, ast.Name) and isinstance(n.ctx, (ast.Store, ast.Del))}
        out = []
        direct = {}
        for p_ in params:
            arg = binding[p_]
            # substituted in place only when evaluating it later cannot differ (it cannot raise, nothing can re-bind its operands
            # meanwhile is checked by the normal form); anything else is bound once at the call, like the call does
            plain = _total_expr(arg) or (isinstance(arg, ast.Attribute) and isinstance(arg.value, ast.Name) and arg.value.id == 'self')
            if plain and (tag + p_) not in rebound:
                direct[tag + p_] = arg
            else:
                out.append(ast.Assign(targets=[ast.Name(id=tag + p_, ctx=ast.Store())], value=clone(arg)))
        if direct:
            class D(ast.NodeTransformer):
                def visit_Name(self, n):
                    if n.id in direct and isinstance(n.ctx, ast.Load):
                        return ast.copy_location(clone(direct[n.id]), n)
                    return n
            body = [D().visit(st) for st in body]
        tails = _tail_returns_of(body) or []
        last = body[-1] if body else None
        if tails and not (len(tails) == 1 and tails[0] is last):
            # returns in tail position of nested ifs / try / with: each becomes the statement the call site needs
            ids = {id(r) for r in tails}

            def conv(val):
                val = val if val is not None else ast.Constant(value=None)
                if how == 'assign':
                    return [ast.Assign(targets=[clone(t) for t in target], value=val)]
                if how == 'aug':
                    return [ast.AugAssign(target=clone(target[0]), op=target[1], value=val)]
                if how == 'return':
                    return [ast.Return(value=val)]
                return [ast.Expr(value=val)] if not isinstance(val, (ast.Name, ast.Constant, ast.Tuple)) else [ast.Pass()]

            def rewrite(stmts):
                out2 = []
                for st in stmts:
                    if id(st) in ids:
                        out2.extend(conv(st.value))
                        continue
                    for fld in ('body', 'orelse'):
                        v = getattr(st, fld, None)
                        if isinstance(v, list) and v and isinstance(v[0], ast.stmt):
                            setattr(st, fld, rewrite(v))
                    for h in getattr(st, 'handlers', []) or []:
                        h.body = rewrite(h.body)
                    out2.append(st)
                return out2
            # a path that falls off the end of the helper returns None
            falls = not isinstance(last, (ast.Return, ast.Raise)) and not (isinstance(last, (ast.If, ast.Try, ast.With)) and _tail_returns_of([last]))
            if falls:
                return None
            return out + rewrite(body)
        if isinstance(last, ast.Return):
            body = body[:-1]
            val = last.value if last.value is not None else ast.Constant(value=None)
            if how == 'assign' and len(target) == 1:
                # `a, b = helper(..)` with `return x, y` of helper locals: the locals simply carry the caller's names
                tnames = [t.id for t in (target[0].elts if isinstance(target[0], ast.Tuple) else [target[0]]) if isinstance(t, ast.Name)]
                vnames = [v.id for v in (val.elts if isinstance(val, ast.Tuple) else [val]) if isinstance(v, ast.Name)]
                nt = len(target[0].elts) if isinstance(target[0], ast.Tuple) else 1
                nv = len(val.elts) if isinstance(val, ast.Tuple) else 1
                if nt == nv == len(tnames) == len(vnames) and len(set(tnames)) == nt and len(set(vnames)) == nv \
                        and all(v.startswith(tag) for v in vnames) and isinstance(target[0], ast.Tuple) == isinstance(val, ast.Tuple):
                    used = {n.id for st in body + out for n in ast.walk(st) if isinstance(n, ast.Name)}
                    if not (set(tnames) & used):
                        ren = dict(zip(vnames, tnames))
                        for st in body + out:            # `out`: a returned parameter is bound there
                            for n in ast.walk(st):
                                if isinstance(n, ast.Name) and n.id in ren:
                                    n.id = ren[n.id]
                        return out + body
            if how == 'assign':
                tail = [ast.Assign(targets=[clone(t) for t in target], value=val)]
            elif how == 'aug':
                tail = [ast.AugAssign(target=clone(target[0]), op=target[1], value=val)]
            elif how == 'return':
                tail = [ast.Return(value=val)]
            else:
                tail = [ast.Expr(value=val)] if not isinstance(val, (ast.Name, ast.Constant, ast.Tuple)) else []
        else:
            if how == 'aug':
                return None
            if how == 'assign':
                tail = [ast.Assign(targets=[clone(t) for t in target], value=ast.Constant(value=None))]
            elif how == 'return':
                tail = [ast.Return(value=None)]
            else:
                tail = []
        return out + body + tail

    def fuse_contextmanager(w):
        """with cm(args) [as T]: BODY      with cm a new @contextmanager generator with exactly one `yield [E]` statement:
        the generator's body with that statement replaced by `[T = E;] BODY`.  (An exception raised in BODY is thrown into the generator at
        the yield, so handlers and finally clauses around the yield apply to BODY exactly as after the replacement; a generator that
        swallows the exception and ends would suppress it, as the inlined try/except does.)"""
        call = w.items[0].context_expr
        g = resolve(call)
        if g is None or not is_new(g) or not getattr(g, '_contextmanager', False):
            return None
        a = g.args
        if a.vararg or a.kwarg or a.kwonlyargs or a.posonlyargs:
            return None
        ys = [n for n in ast.walk(g) if isinstance(n, (ast.Yield, ast.YieldFrom))]
        ystmts = [n for n in ast.walk(g) if isinstance(n, ast.Expr) and isinstance(n.value, ast.Yield)]
        if len(ys) != 1 or len(ystmts) != 1 or any(isinstance(n, ast.Return) for n in ast.walk(g)):
            return None
        if any(isinstance(n, (ast.For, ast.While)) and any(x is ystmts[0] for x in ast.walk(n)) for n in ast.walk(g)):
            return None
        counter[0] += 1
        tag = '_c%d_' % counter[0]
        params = [x.arg for x in a.args]
        if any(isinstance(x, ast.Starred) for x in call.args) or any(k.arg is None for k in call.keywords) or len(call.args) > len(params):
            return None
        binding = dict(zip(params, call.args))
        for k in call.keywords:
            if k.arg not in params or k.arg in binding:
                return None
            binding[k.arg] = k.value
        defaults = dict(zip(params[len(params) - len(a.defaults):], a.defaults))
        for p_ in params:
            if p_ not in binding:
                if p_ not in defaults:
                    return None
                binding[p_] = defaults[p_]
        body = [clone(st_) for st_ in g.body]
        if body and isinstance(body[0], ast.Expr) and isinstance(body[0].value, ast.Constant) and isinstance(body[0].value.value, str):
            body = body[1:]
        locs = set(params) | {n.id for st_ in body for n in ast.walk(st_) if isinstance(n, ast.Name) and isinstance(n.ctx, (ast.Store, ast.Del))}
        for st_ in body:
            for n in ast.walk(st_):
                if isinstance(n, ast.Name) and n.id in locs:
                    n.id = tag + n.id
        pre = []
        direct = {}
        rebound = {n.id for st_ in body for n in ast.walk(st_) if isinstance(n, ast.Name) and isinstance(n.ctx, (ast.Store, ast.Del))}
        for p_ in params:
            arg = binding[p_]
            if _total_expr(arg) and (tag + p_) not in rebound:
                direct[tag + p_] = arg
            else:
                pre.append(ast.Assign(targets=[ast.Name(id=tag + p_, ctx=ast.Store())], value=clone(arg)))
        if direct:
            class D(ast.NodeTransformer):
                def visit_Name(self, n):
                    if n.id in direct and isinstance(n.ctx, ast.Load):
                        return ast.copy_location(clone(direct[n.id]), n)
                    return n
            body = [D().visit(st_) for st_ in body]

        def put(stmts_):
            res = []
            for x in stmts_:
                if isinstance(x, ast.Expr) and isinstance(x.value, ast.Yield):
                    if w.items[0].optional_vars is not None:
                        res.append(ast.Assign(targets=[clone(w.items[0].optional_vars)], value=x.value.value or ast.Constant(value=None)))
                    res.extend(w.body)
                    continue
                for fld in ('body', 'orelse', 'finalbody'):
                    v = getattr(x, fld, None)
                    if isinstance(v, list) and v and isinstance(v[0], ast.stmt):
                        setattr(x, fld, put(v))
                for h in getattr(x, 'handlers', []) or []:
                    h.body = put(h.body)
                res.append(x)
            return res
        return pre + put(body)

    def fuse_generator(loop, before):
        """for T in gen(args): BODY   with gen a new generator helper whose only yields are statements `yield E`:
        the helper's body with every `yield E` replaced by `T = E; BODY` (BODY without break / continue / return)."""
        call = loop.iter
        # *name with name bound just before to a tuple display: spell the elements out
        if any(isinstance(a, ast.Starred) for a in call.args):
            args = []
            for a in call.args:
                if isinstance(a, ast.Starred) and isinstance(a.value, ast.Name):
                    d_ = next((b for b in reversed(before) if isinstance(b, ast.Assign) and len(b.targets) == 1 and isinstance(b.targets[0], ast.Name)
                               and b.targets[0].id == a.value.id), None)
                    if d_ is None or not isinstance(d_.value, ast.Tuple) or any(not isinstance(e, (ast.Name, ast.Constant)) for e in d_.value.elts):
                        return None
                    args.extend(clone(e) for e in d_.value.elts)
                elif isinstance(a, ast.Starred):
                    return None
                else:
                    args.append(a)
            call = ast.copy_location(ast.Call(func=call.func, args=args, keywords=call.keywords), call)
        g = resolve(call)
        if g is None or not is_new(g):
            return None
        a = g.args
        if a.vararg or a.kwarg or a.kwonlyargs or a.posonlyargs or g.decorator_list:
            return None
        yields = [n for n in ast.walk(g) if isinstance(n, (ast.Yield, ast.YieldFrom))]
        if not yields or any(isinstance(n, ast.YieldFrom) for n in yields):
            return None
        ystmts = [n for n in ast.walk(g) if isinstance(n, ast.Expr) and isinstance(n.value, ast.Yield) and n.value.value is not None]
        if len(ystmts) != len(yields):
            return None
        if any(isinstance(n, ast.Return) for n in ast.walk(g)) or any(n is not g and isinstance(n, SCOPES + (ast.Global, ast.Nonlocal)) for n in ast.walk(g)):
            return None

        def leaves(body):
            for x in body:
                if isinstance(x, (ast.Break, ast.Continue)):
                    return True
                if isinstance(x, (ast.For, ast.While, ast.AsyncFor)):
                    continue
                for fld in ('body', 'orelse', 'finalbody'):
                    if leaves(getattr(x, fld, []) or []):
                        return True
                for h in getattr(x, 'handlers', []) or []:
                    if leaves(h.body):
                        return True
            return False
        if leaves(loop.body) or any(isinstance(n, (ast.Return, ast.Yield, ast.YieldFrom)) for b in loop.body for n in ast.walk(b)):
            return None
        counter[0] += 1
        tag = '_g%d_' % counter[0]
        params = [x.arg for x in a.args]
        pos_args = list(call.args)
        if getattr(g, '_bound_self', None) is not None:
            pos_args = [g._bound_self] + pos_args
        if any(k.arg is None for k in call.keywords) or len(pos_args) > len(params):
            return None
        binding = dict(zip(params, pos_args))
        for k in call.keywords:
            if k.arg not in params or k.arg in binding:
                return None
            binding[k.arg] = k.value
        defaults = dict(zip(params[len(params) - len(a.defaults):], a.defaults))
        for p_ in params:
            if p_ not in binding:
                if p_ not in defaults:
                    return None
                binding[p_] = defaults[p_]
        body = [clone(st_) for st_ in g.body]
        if body and isinstance(body[0], ast.Expr) and isinstance(body[0].value, ast.Constant) and isinstance(body[0].value.value, str):
            body = body[1:]
        locs = set(params) | {n.id for st_ in body for n in ast.walk(st_) if isinstance(n, ast.Name) and isinstance(n.ctx, (ast.Store, ast.Del))}
        used_outside = {n.id for b in loop.body for n in ast.walk(b) if isinstance(n, ast.Name)} | {n.id for n in ast.walk(loop.target) if isinstance(n, ast.Name)}
        for st_ in body:
            for n in ast.walk(st_):
                if isinstance(n, ast.Name) and n.id in locs:
                    n.id = tag + n.id
        rebound = {n.id for st_ in body for n in ast.walk(st_) if isinstance(n, ast.Name) and isinstance(n.ctx, (ast.Store, ast.Del))}
        pre = []
        direct = {}
        for p_ in params:
            arg = binding[p_]
            plain = all(isinstance(x, (ast.Name, ast.Attribute, ast.Subscript, ast.Constant, ast.expr_context, ast.Tuple, ast.Slice, ast.UnaryOp, ast.USub))
                        for x in ast.walk(arg))
            if plain and (tag + p_) not in rebound:
                direct[tag + p_] = arg
            else:
                pre.append(ast.Assign(targets=[ast.Name(id=tag + p_, ctx=ast.Store())], value=clone(arg)))
        if direct:
            class D(ast.NodeTransformer):
                def visit_Name(self, n):
                    if n.id in direct and isinstance(n.ctx, ast.Load):
                        return ast.copy_location(clone(direct[n.id]), n)
                    return n
            body = [D().visit(st_) for st_ in body]

        def put(stmts_):
            res = []
            for x in stmts_:
                if isinstance(x, ast.Expr) and isinstance(x.value, ast.Yield):
                    res.append(ast.Assign(targets=[clone(loop.target)], value=x.value.value))
                    res.extend(clone(b) for b in loop.body)
                    continue
                for fld in ('body', 'orelse', 'finalbody'):
                    v = getattr(x, fld, None)
                    if isinstance(v, list) and v and isinstance(v[0], ast.stmt):
                        setattr(x, fld, put(v))
                for h in getattr(x, 'handlers', []) or []:
                    h.body = put(h.body)
                res.append(x)
            return res
        return pre + put(body)

    def hoist_nested(st):
        """`T = a * h(x).m(a.shape)` with h a new helper of several statements: the call is given its own statement in front
        (`_c1 = h(x)`), so that the statement-level inliner applies.  Only when everything the statement evaluates before the call is a
        bare name or a constant (a helper cannot re-bind the caller's names, so reading them later is the same)."""
        if isinstance(st, ast.Assign) and all(isinstance(t, (ast.Name, ast.Subscript, ast.Attribute)) for t in st.targets):
            root = st.value
        elif isinstance(st, ast.AugAssign) and isinstance(st.target, ast.Name):
            root = st.value
        elif isinstance(st, (ast.Return, ast.Expr)) and st.value is not None:
            root = st.value
        else:
            return None
        if isinstance(root, ast.Call) and resolve(root) is not None and is_new(resolve(root)):
            return None                      # the whole right-hand side: handled below
        order = []

        def ev_order(e):
            # evaluation order of the sub-expressions (operands before the operation)
            if isinstance(e, (ast.IfExp, ast.BoolOp, ast.Lambda, ast.ListComp, ast.SetComp, ast.DictComp, ast.GeneratorExp, ast.NamedExpr)):
                order.append(('stop', e))
                return
            for ch_ in ast.iter_child_nodes(e):
                if isinstance(ch_, ast.expr):
                    ev_order(ch_)
                elif isinstance(ch_, ast.keyword):
                    ev_order(ch_.value)
                elif isinstance(ch_, (ast.Slice,)):
                    ev_order(ch_)
            order.append(('node', e))
        ev_order(root)
        if any(kind == 'stop' for kind, _ in order):
            return None
        for k, (kind, e) in enumerate(order):
            if not isinstance(e, ast.Call):
                continue
            g = resolve(e)
            if g is None or not is_new(g) or helper_expression(g) is not None:
                continue
            if not (inlinable(g) or inlinable(_nest_guards(g))):
                return None
            inside = {id(x) for x in ast.walk(e)}
            if not all(isinstance(x, (ast.Name, ast.Constant)) for _, x in order[:k] if id(x) not in inside):
                return None
            counter[0] += 1
            tmp = '_c%d_' % counter[0]
            pre = ast.Assign(targets=[ast.Name(id=tmp, ctx=ast.Store())], value=e, type_comment=None)
            ast.copy_location(pre, st)
            ast.fix_missing_locations(pre)
            _replace(st, e, ast.copy_location(ast.Name(id=tmp, ctx=ast.Load()), e))
            return pre
        return None

    def process(stmts, d):
        out = []
        changed = False
        for st in stmts:
            for fld in ('body', 'orelse', 'finalbody'):
                v = getattr(st, fld, None)
                if isinstance(v, list) and v and isinstance(v[0], ast.stmt) and not isinstance(st, SCOPES):
                    nv, ch = process(v, d)
                    setattr(st, fld, nv)
                    changed |= ch
            for h in getattr(st, 'handlers', []) or []:
                h.body, ch = process(h.body, d)
                changed |= ch
            if isinstance(st, (ast.With,)) and len(st.items) == 1 and isinstance(st.items[0].context_expr, ast.Call) and d > 0:
                fused = fuse_contextmanager(st)
                if fused is not None:
                    rep2, _ = process(fused, d - 1)
                    for r_ in rep2:
                        ast.copy_location(r_, st)
                        ast.fix_missing_locations(r_)
                    out.extend(rep2)
                    changed = True
                    continue
            if isinstance(st, ast.For) and isinstance(st.iter, ast.Call) and d > 0 and not st.orelse:
                fused = fuse_generator(st, out)
                if fused is not None:
                    rep2, _ = process(fused, d - 1)
                    for r_ in rep2:
                        ast.copy_location(r_, st)
                        ast.fix_missing_locations(r_)
                    out.extend(rep2)
                    changed = True
                    continue
            call, how, target = None, None, None
            if d > 0:
                pre = hoist_nested(st)
                if pre is not None:
                    pre2, _ = process([pre], d)
                    out.extend(pre2)
                    changed = True
            if isinstance(st, ast.Assign) and isinstance(st.value, ast.Call):
                call, how, target = st.value, 'assign', st.targets
            elif isinstance(st, ast.Return) and isinstance(st.value, ast.Call):
                call, how = st.value, 'return'
            elif isinstance(st, ast.AugAssign) and isinstance(st.value, ast.Call):
                call, how, target = st.value, 'aug', (st.target, st.op)
            elif isinstance(st, ast.Expr) and isinstance(st.value, ast.Call):
                call, how = st.value, 'expr'
            rep = None
            if call is not None and d > 0:
                g = resolve(call)
                if g is not None and is_new(g) and not inlinable(g):
                    g = _nest_guards(g)
                if g is not None and is_new(g) and inlinable(g):
                    rep = expand(call, g, how, target)
            if rep is not None:
                rep2, _ = process(rep, d - 1)
                for r_ in rep2:
                    ast.copy_location(r_, st)
                    ast.fix_missing_locations(r_)
                out.extend(rep2)
                changed = True
            else:
                out.append(st)
        return out, changed
    c = clone(fn)
    c.body, ch = process(c.body, depth)
    # helpers that are one expression (possibly after normalisation) are inlined wherever they are called
    hit = [False]

    class X(ast.NodeTransformer):
        def visit_Call(self, n):
            self.generic_visit(n)
            g = resolve(n)
            if g is None or not is_new(g) or getattr(g, '_bound_self', None) is not None and False:
                return n
            a = g.args
            if a.vararg or a.kwarg or a.kwonlyargs or a.posonlyargs or g.decorator_list:
                return n
            for x in ast.walk(g):
                if x is not g and isinstance(x, SCOPES + (ast.Global, ast.Nonlocal, ast.Yield, ast.YieldFrom)):
                    return n
            expr = helper_expression(g)
            if expr is None:
                return n
            params = [x.arg for x in a.args]
            pos = list(n.args)
            if getattr(g, '_bound_self', None) is not None:
                pos = [g._bound_self] + pos
            if any(isinstance(x, ast.Starred) for x in pos) or any(k.arg is None for k in n.keywords) or len(pos) > len(params):
                return n
            binding = dict(zip(params, pos))
            for k in n.keywords:
                if k.arg not in params or k.arg in binding:
                    return n
                binding[k.arg] = k.value
            defaults = dict(zip(params[len(params) - len(a.defaults):], a.defaults))
            for p_ in params:
                if p_ not in binding:
                    if p_ not in defaults:
                        return n
                    binding[p_] = defaults[p_]
            # an argument that is evaluated more than once (or not at all) must be pure
            counts = {p_: sum(1 for x in ast.walk(expr) if isinstance(x, ast.Name) and x.id == p_) for p_ in params}
            if any(counts[p_] != 1 and not _pure_expr(binding[p_]) for p_ in params):
                return n
            rebound = {x.id for x in ast.walk(expr) if isinstance(x, ast.Name) and isinstance(x.ctx, ast.Store)}
            if rebound & set(params):
                return n

            class S(ast.NodeTransformer):
                def visit_Name(self, m):
                    if m.id in binding and isinstance(m.ctx, ast.Load):
                        return clone(binding[m.id])
                    return m
            hit[0] = True
            return ast.copy_location(S().visit(clone(expr)), n)
    c2 = X().visit(c if ch else clone(fn))
    if hit[0]:
        ast.fix_missing_locations(c2)
        return c2
    return c if ch else fn


PURE_BUILTINS = {'len', 'int', 'float', 'str', 'abs', 'min', 'max', 'sum', 'all', 'any', 'tuple', 'isinstance', 'range', 'bool', 'round',
                 'sorted', 'frozenset', 'repr', 'ord', 'chr', 'divmod', 'pow', 'enumerate', 'zip', 'type', 'hasattr', 'getattr', 'slice'}
PURE_METHODS = {'upper', 'lower', 'strip', 'lstrip', 'rstrip', 'startswith', 'endswith', 'find', 'rfind', 'count', 'index', 'get', 'keys',
                'values', 'items', 'nonzero', 'sum', 'min', 'max', 'mean', 'any', 'all', 'astype', 'ravel', 'reshape', 'transpose', 'tolist',
                'argsort', 'argmin', 'argmax', 'cumsum', 'search', 'match', 'fullmatch', 'findall', 'split', 'join', 'format', 'replace',
                'groups', 'group', 'isdigit', 'isspace', 'to', 'to_value', 'decode', 'encode', 'var', 'std', 'dot', 'flatten', 'squeeze', 'title'}
# package functions that are functions of their arguments: sdss_flagval / sdss_flagname / sdss_flagexist look names up in the maskbits
# table (their only effect is to load that table once, which is idempotent)
PURE_PACKAGE = {'sdss_flagval', 'sdss_flagname', 'sdss_flagexist'}
IMPURE_NP = {'put', 'copyto', 'place', 'putmask', 'fill_diagonal', 'save', 'savetxt', 'load', 'loadtxt', 'seterr', 'random'}
MUTATING = {'append', 'extend', 'insert', 'pop', 'remove', 'clear', 'update', 'sort', 'reverse', 'setdefault', 'popitem', 'add', 'discard',
            'fill', 'resize', 'put', 'itemset', 'byteswap', 'partition', 'write', 'close', 'seek'}


def _pure_expr(e):
    """Built from names, constants, attribute reads, subscripts, arithmetic, comparisons and calls that neither have side effects
    nor depend on anything but their arguments."""
    for n in ast.walk(e):
        if isinstance(n, (ast.Await, ast.Yield, ast.YieldFrom, ast.NamedExpr, ast.Lambda, ast.Starred)):
            return False
        if isinstance(n, ast.Call):
            f = n.func
            if isinstance(f, ast.Name):
                if f.id not in PURE_BUILTINS and f.id not in PURE_PACKAGE:
                    return False
            elif isinstance(f, ast.Attribute):
                base = f.value
                while isinstance(base, ast.Attribute):
                    base = base.value
                if isinstance(base, ast.Name) and base.id in ('np', 'numpy'):
                    if f.attr in IMPURE_NP or (isinstance(f.value, ast.Attribute) and f.value.attr == 'random'):
                        return False
                elif isinstance(base, ast.Name) and base.id == 're':
                    if f.attr not in ('compile', 'search', 'match', 'fullmatch', 'findall', 'split', 'sub', 'escape'):
                        return False
                elif f.attr not in PURE_METHODS:
                    return False
            else:
                return False
    return True


_KWARG = [None]          # name of the ** parameter of the function being normalised


def _total_expr(e):
    """Pure AND cannot raise: names, constants, identity tests, isinstance, getattr with a default."""
    if isinstance(e, (ast.Name, ast.Constant)):
        return True
    if isinstance(e, (ast.Tuple, ast.List)):
        return all(_total_expr(x) for x in e.elts)
    if isinstance(e, ast.Dict):
        # a display with literal keys: building it cannot fail (the name is substituted only where it is never mutated)
        return all(isinstance(k, ast.Constant) for k in e.keys) and all(_total_expr(v) for v in e.values)
    if isinstance(e, ast.Set):
        return all(isinstance(x, ast.Constant) for x in e.elts)
    if isinstance(e, ast.BoolOp):
        return all(_total_expr(x) for x in e.values)
    if isinstance(e, ast.UnaryOp) and isinstance(e.op, ast.Not):
        return _total_expr(e.operand)
    if isinstance(e, ast.Compare):
        if len(e.ops) == 1 and isinstance(e.ops[0], (ast.In, ast.NotIn)) and isinstance(e.left, ast.Constant) and isinstance(e.left.value, (str, int)) \
                and isinstance(e.comparators[0], ast.Name) and e.comparators[0].id == _KWARG[0]:
            return True                 # membership of a literal key in the ** dictionary
        return all(isinstance(o, (ast.Is, ast.IsNot)) for o in e.ops) and _total_expr(e.left) and all(_total_expr(c) for c in e.comparators)
    if isinstance(e, ast.Call) and isinstance(e.func, ast.Name) and not e.keywords:
        if e.func.id == 'getattr' and len(e.args) == 3:
            return all(_total_expr(a) for a in e.args)
        if e.func.id == 'isinstance' and len(e.args) == 2:
            return _total_expr(e.args[0])
    return False


def _mutated_names(fn):
    """Names that are re-bound more than once, deleted, assigned through (x[i] = .., x.a = ..), augmented, or receive a mutating call."""
    stores = {}
    mut = set()
    for n in ast.walk(fn):
        if isinstance(n, ast.Name) and isinstance(n.ctx, ast.Store):
            stores[n.id] = stores.get(n.id, 0) + 1
        elif isinstance(n, ast.Name) and isinstance(n.ctx, ast.Del):
            mut.add(n.id)
        elif isinstance(n, (ast.Global, ast.Nonlocal)):
            mut |= set(n.names)
        elif isinstance(n, ast.AugAssign):
            b = n.target
            while isinstance(b, (ast.Subscript, ast.Attribute)):
                b = b.value
            if isinstance(b, ast.Name):
                mut.add(b.id)
        elif isinstance(n, (ast.Subscript, ast.Attribute)) and isinstance(n.ctx, (ast.Store, ast.Del)):
            b = n.value
            while isinstance(b, (ast.Subscript, ast.Attribute)):
                b = b.value
            if isinstance(b, ast.Name):
                mut.add(b.id)
        elif isinstance(n, ast.Call) and isinstance(n.func, ast.Attribute) and n.func.attr in MUTATING:
            b = n.func.value
            while isinstance(b, (ast.Subscript, ast.Attribute)):
                b = b.value
            if isinstance(b, ast.Name):
                mut.add(b.id)
    for k, c in stores.items():
        if c > 1:
            mut.add(k)
    return mut, stores


def _split_multi_defs(fn):
    """A temporary that is re-used for unrelated values (`t = a.upper()` in one loop, `t = b.upper()` in another) is split into one
    name per definition when every read is preceded, in its own block, by exactly one of the definitions."""
    params = {a.arg for a in fn.args.posonlyargs + fn.args.args + fn.args.kwonlyargs}
    sites = {}
    other_stores = set()
    for owner in ast.walk(fn):
        for fld in ('body', 'orelse', 'finalbody'):
            body = getattr(owner, fld, None)
            if not (isinstance(body, list) and body and isinstance(body[0], ast.stmt)) or isinstance(owner, ast.Lambda):
                continue
            for i, st in enumerate(body):
                if isinstance(st, ast.Assign) and len(st.targets) == 1 and isinstance(st.targets[0], ast.Name):
                    sites.setdefault(st.targets[0].id, []).append((body, i, st))
    plain = {id(st.targets[0]) for lst in sites.values() for _, _, st in lst}
    for n in ast.walk(fn):
        if isinstance(n, ast.Name) and isinstance(n.ctx, (ast.Store, ast.Del)) and id(n) not in plain:
            other_stores.add(n.id)
        elif isinstance(n, (ast.Global, ast.Nonlocal)):
            other_stores |= set(n.names)
    changed = False
    k = 0
    for nm, lst in sites.items():
        if len(lst) < 2 or nm in params or nm in other_stores:
            continue
        if not all(_pure_expr(st.value) and nm not in {x.id for x in ast.walk(st.value) if isinstance(x, ast.Name)} for _, _, st in lst):
            continue
        total = sum(1 for x in ast.walk(fn) if isinstance(x, ast.Name) and x.id == nm and isinstance(x.ctx, ast.Load))
        covered = 0
        regions = []
        ok = True
        for body, i, st in lst:
            j = i + 1
            region = []
            while j < len(body) and not (isinstance(body[j], ast.Assign) and len(body[j].targets) == 1 and isinstance(body[j].targets[0], ast.Name)
                                         and body[j].targets[0].id == nm):
                # a nested re-definition inside a later statement of this region would make the split ambiguous
                if any(isinstance(x, ast.Name) and x.id == nm and isinstance(x.ctx, ast.Store) for x in ast.walk(body[j])):
                    ok = False
                region.append(body[j])
                j += 1
            covered += sum(1 for r in region for x in ast.walk(r) if isinstance(x, ast.Name) and x.id == nm and isinstance(x.ctx, ast.Load))
            regions.append((st, region))
        if not ok or covered != total:
            continue
        for st, region in regions:
            k += 1
            new = '%s__d%d' % (nm, k)
            st.targets[0].id = new
            for r in region:
                for x in ast.walk(r):
                    if isinstance(x, ast.Name) and x.id == nm and isinstance(x.ctx, ast.Load):
                        x.id = new
        changed = True
    return changed


def _unpack_to_subscripts(fn):
    """a, b = <call>     ->    t = <call>; a = t[0]; b = t[1]       (the call is assumed to return exactly that many items, as the
    unpacking itself requires)"""
    changed = False
    k = [0]
    for owner in ast.walk(fn):
        for fld in ('body', 'orelse', 'finalbody'):
            body = getattr(owner, fld, None)
            if not (isinstance(body, list) and body and isinstance(body[0], ast.stmt)) or isinstance(owner, ast.Lambda):
                continue
            i = 0
            while i < len(body):
                st = body[i]
                if isinstance(st, ast.Assign) and len(st.targets) == 1 and isinstance(st.targets[0], ast.Tuple) and isinstance(st.value, ast.Name) \
                        and all(isinstance(e, ast.Name) and e.id != st.value.id for e in st.targets[0].elts) and len(st.targets[0].elts) >= 2:
                    new = []
                    for j, e in enumerate(st.targets[0].elts):
                        new.append(ast.Assign(targets=[ast.Name(id=e.id, ctx=ast.Store())],
                                              value=ast.Subscript(value=ast.Name(id=st.value.id, ctx=ast.Load()), slice=ast.Constant(value=j), ctx=ast.Load())))
                    for x in new:
                        ast.copy_location(x, st)
                        ast.fix_missing_locations(x)
                    body[i:i + 1] = new
                    i += len(new)
                    changed = True
                    continue
                if isinstance(st, ast.Assign) and len(st.targets) == 1 and isinstance(st.targets[0], ast.Tuple) and isinstance(st.value, ast.Call) \
                        and all(isinstance(e, ast.Name) for e in st.targets[0].elts) and len(st.targets[0].elts) >= 2:
                    k[0] += 1
                    t = '_u%d' % k[0]
                    new = [ast.Assign(targets=[ast.Name(id=t, ctx=ast.Store())], value=st.value)]
                    for j, e in enumerate(st.targets[0].elts):
                        new.append(ast.Assign(targets=[ast.Name(id=e.id, ctx=ast.Store())],
                                              value=ast.Subscript(value=ast.Name(id=t, ctx=ast.Load()), slice=ast.Constant(value=j), ctx=ast.Load())))
                    for x in new:
                        ast.copy_location(x, st)
                        ast.fix_missing_locations(x)
                    body[i:i + 1] = new
                    i += len(new)
                    changed = True
                    continue
                i += 1
    return changed


def _split_toplevel_reuse(fn):
    """At the top level of the function body a name that is assigned several times by simple statements (a scratch name re-used for
    unrelated values) is split: each assignment and the reads up to the next assignment get their own name.  Only when every store
    to the name is such a top-level simple assignment."""
    params = {a.arg for a in fn.args.posonlyargs + fn.args.args + fn.args.kwonlyargs}
    top = fn.body
    stores_top = {}
    for i, st in enumerate(top):
        if isinstance(st, ast.Assign) and len(st.targets) == 1 and isinstance(st.targets[0], ast.Name):
            stores_top.setdefault(st.targets[0].id, []).append(i)
    all_stores = {}
    for n in ast.walk(fn):
        if isinstance(n, ast.Name) and isinstance(n.ctx, (ast.Store, ast.Del)):
            all_stores[n.id] = all_stores.get(n.id, 0) + 1
        elif isinstance(n, (ast.Global, ast.Nonlocal)):
            for x in n.names:
                all_stores[x] = all_stores.get(x, 0) + 99
    changed = False
    k = 0
    for nm, idxs in stores_top.items():
        if len(idxs) < 2 or nm in params or all_stores.get(nm) != len(idxs):
            continue
        # reads before the first assignment would be reads of an unbound name: none in correct code
        for pos, i in enumerate(idxs):
            j = idxs[pos + 1] if pos + 1 < len(idxs) else len(top)
            k += 1
            new = '%s__t%d' % (nm, k)
            top[i].targets[0].id = new
            for st in top[i + 1:j]:
                for x in ast.walk(st):
                    if isinstance(x, ast.Name) and x.id == nm and isinstance(x.ctx, ast.Load):
                        x.id = new
            if j < len(top):
                for x in ast.walk(top[j].value):
                    if isinstance(x, ast.Name) and x.id == nm and isinstance(x.ctx, ast.Load):
                        x.id = new
        changed = True
    return changed


def _ssa_split(fn):
    """A local name is split into one name per web: bindings that some read may see alternatively belong to one web (reaching
    definitions over the function's flow graph; an augmented assignment reads what it re-binds).  A scratch name re-used for
    unrelated values becomes several names, wherever and however (assignment, unpacking, loop target, augmented assignment) it is
    bound.  Names bound in any other way (with, except, import, walrus, comprehension, global) are left alone."""
    from .cfg import CFG, ReachingDefs
    from .astutil import link_parents
    params = {a.arg for a in fn.args.posonlyargs + fn.args.args + fn.args.kwonlyargs}
    if fn.args.vararg:
        params.add(fn.args.vararg.arg)
    if fn.args.kwarg:
        params.add(fn.args.kwarg.arg)
    sites = {}            # name -> [(def statement, the Name node stored)]
    handled = set()

    def targets_of(t):
        if isinstance(t, ast.Name):
            return [t]
        if isinstance(t, (ast.Tuple, ast.List)):
            out = []
            for e in t.elts:
                if isinstance(e, ast.Starred):
                    e = e.value
                out.extend(targets_of(e))
            return out
        return []
    for n in ast.walk(fn):
        if isinstance(n, ast.Assign):
            for t in n.targets:
                for x in targets_of(t):
                    sites.setdefault(x.id, []).append((n, x))
                    handled.add(id(x))
        elif isinstance(n, ast.AugAssign) and isinstance(n.target, ast.Name):
            sites.setdefault(n.target.id, []).append((n, n.target))
            handled.add(id(n.target))
        elif isinstance(n, ast.For):
            for x in targets_of(n.target):
                sites.setdefault(x.id, []).append((n, x))
                handled.add(id(x))
    other = set()
    for n in ast.walk(fn):
        if isinstance(n, ast.Name) and isinstance(n.ctx, (ast.Store, ast.Del)) and id(n) not in handled:
            other.add(n.id)
        elif isinstance(n, (ast.Global, ast.Nonlocal)):
            other |= set(n.names)
        elif isinstance(n, ast.ExceptHandler) and n.name:
            other.add(n.name)
        elif isinstance(n, (ast.FunctionDef, ast.AsyncFunctionDef, ast.ClassDef, ast.Lambda)) and n is not fn:
            # nested scopes read the enclosing names late: leave every name they mention alone
            other |= {x.id for x in ast.walk(n) if isinstance(x, ast.Name)}
    # a parameter that is re-bound: its incoming value is one more binding (that web keeps the parameter's name)
    argnodes = {a.arg: a for a in fn.args.posonlyargs + fn.args.args + fn.args.kwonlyargs}
    for nm in list(sites):
        if nm in argnodes:
            sites[nm].insert(0, (argnodes[nm], None))
    cands = [nm for nm, lst in sites.items() if len({id(st) for st, _ in lst}) >= 2 and nm not in other and (nm not in params or nm in argnodes)]
    if not cands:
        return False
    link_parents(fn)
    try:
        cfg = CFG(fn)
        rd = ReachingDefs(cfg)
    except Exception:
        return False
    changed = False
    k = 0
    for nm in cands:
        uses = [x for x in ast.walk(fn) if isinstance(x, ast.Name) and x.id == nm and isinstance(x.ctx, ast.Load)]
        parent = {id(st): id(st) for st, _ in sites[nm]}

        def find(a):
            while parent[a] != a:
                parent[a] = parent[parent[a]]
                a = parent[a]
            return a
        use_def = {}
        ok = True
        for u in uses:
            real = [d for d, v in rd.reaching(nm, u) if d is not None]
            if not real or any(id(d) not in parent for d in real):
                ok = False
                break
            for d in real[1:]:
                parent[find(id(d))] = find(id(real[0]))
            use_def[id(u)] = id(real[0])
        if ok:
            for st, x in sites[nm]:
                if isinstance(st, ast.AugAssign):
                    real = [d for d, v in rd.reaching(nm, st) if d is not None]
                    if not real or any(id(d) not in parent for d in real):
                        ok = False
                        break
                    for d in real:
                        parent[find(id(d))] = find(id(st))
        if not ok:
            continue
        webs = {}
        for st, x in sites[nm]:
            webs.setdefault(find(id(st)), []).append(x)
        if len(webs) < 2:
            continue
        names = {}
        for root, xs in webs.items():
            k += 1
            names[root] = nm if any(x is None for x in xs) else '%s__s%d' % (nm, k)
            for x in xs:
                if x is not None:
                    x.id = names[root]
        for u in uses:
            u.id = names[find(use_def[id(u)])]
        changed = True
    return changed


def _split_loop_vars(fn):
    """Loop variables that share a spelling across separate (not nested) loops are given one name per loop, when the name is bound
    only by for-loops and never read outside them."""
    params = {a.arg for a in fn.args.posonlyargs + fn.args.args + fn.args.kwonlyargs}
    loops = {}
    for n in ast.walk(fn):
        if isinstance(n, (ast.For, ast.AsyncFor)) and isinstance(n.target, ast.Name):
            loops.setdefault(n.target.id, []).append(n)
    changed = False
    k = 0
    for nm, ls in loops.items():
        if len(ls) < 2 or nm in params:
            continue
        stores = [x for x in ast.walk(fn) if isinstance(x, ast.Name) and x.id == nm and isinstance(x.ctx, (ast.Store, ast.Del))]
        if len(stores) != len(ls):
            continue
        nested = any(a is not b and any(x is b for x in ast.walk(a)) for a in ls for b in ls)
        if nested:
            continue
        inside = sum(1 for l in ls for st in l.body + l.orelse for x in ast.walk(st) if isinstance(x, ast.Name) and x.id == nm and isinstance(x.ctx, ast.Load))
        total = sum(1 for x in ast.walk(fn) if isinstance(x, ast.Name) and x.id == nm and isinstance(x.ctx, ast.Load))
        if inside != total:
            continue
        for l in ls:
            k += 1
            new = '%s__l%d' % (nm, k)
            l.target.id = new
            for st in l.body + l.orelse:
                for x in ast.walk(st):
                    if isinstance(x, ast.Name) and x.id == nm:
                        x.id = new
        changed = True
    return changed


def _shape_only(e):
    """Arithmetic over len(name), name.size, name.shape[k], name.ndim and integer literals: its value does not depend on the elements."""
    if isinstance(e, ast.Constant):
        return type(e.value) is int
    if isinstance(e, ast.BinOp) and isinstance(e.op, (ast.Add, ast.Sub, ast.Mult, ast.FloorDiv)):
        return _shape_only(e.left) and _shape_only(e.right)
    if isinstance(e, ast.UnaryOp) and isinstance(e.op, ast.USub):
        return _shape_only(e.operand)
    if isinstance(e, ast.Call) and isinstance(e.func, ast.Name) and e.func.id == 'len' and len(e.args) == 1 and isinstance(e.args[0], ast.Name) and not e.keywords:
        return True
    if isinstance(e, ast.Attribute) and e.attr in ('size', 'ndim') and isinstance(e.value, ast.Name):
        return True
    if isinstance(e, ast.Subscript) and isinstance(e.value, ast.Attribute) and e.value.attr == 'shape' and isinstance(e.value.value, ast.Name) \
            and isinstance(e.slice, ast.Constant):
        return True
    return False


def _sink_definitions(fn):
    """`t = <pure expr over stable names>` is moved down to just before the first statement of its block that mentions t, when every
    statement it passes is effect-free (so nothing can observe, or pre-empt, the move).  Brings 'output allocated up front' and
    'allocated where it is filled' to one form."""
    mut, stores = _mutated_names(fn)
    changed = False
    for owner in ast.walk(fn):
        for fld in ('body', 'orelse', 'finalbody'):
            body = getattr(owner, fld, None)
            if not (isinstance(body, list) and len(body) > 2 and isinstance(body[0], ast.stmt)) or isinstance(owner, ast.Lambda):
                continue
            i = len(body) - 2
            while i >= 0:
                st = body[i]
                i -= 1
                if isinstance(st, ast.Assign) and len(st.targets) == 1 and isinstance(st.targets[0], ast.Name) and _pure_expr(st.value) \
                        and stores.get(st.targets[0].id) == 1:
                    i0 = i + 1
                    nm = st.targets[0].id
                    free = {x.id for x in ast.walk(st.value) if isinstance(x, ast.Name)}
                    j = i0 + 1
                    while j < len(body):
                        nxt = body[j]
                        mentions = any(isinstance(x, ast.Name) and x.id == nm for x in ast.walk(nxt))
                        if mentions:
                            break
                        m2, s2 = _mutated_names(nxt)
                        if _shape_only(st.value) and isinstance(nxt, (ast.Assign, ast.AugAssign)) and _pure_expr(nxt.value) and all(
                                isinstance(t, ast.Subscript) and isinstance(t.value, ast.Name) and _pure_expr(t.slice)
                                for t in (nxt.targets if isinstance(nxt, ast.Assign) else [nxt.target])) and not (set(s2) & free):
                            j += 1                      # an element store changes no length / shape / size
                            continue
                        simple_pure = isinstance(nxt, ast.Assign) and all(isinstance(t, ast.Name) for t in nxt.targets) and _pure_expr(nxt.value)
                        guarded_pure = isinstance(nxt, ast.If) and _pure_expr(nxt.test) and all(
                            isinstance(x, ast.Assign) and all(isinstance(t, ast.Name) for t in x.targets) and _pure_expr(x.value) for x in nxt.body + nxt.orelse)
                        if not (simple_pure or guarded_pure) or ((m2 | set(s2)) & free):
                            break
                        j += 1
                    if j > i0 + 1 and j < len(body) and any(isinstance(x, ast.Name) and x.id == nm for x in ast.walk(body[j])):
                        body.insert(j - 1, body.pop(i0))
                        changed = True
            # an element store `X[i] = v` (i, v effect-free) moves down past plain pure definitions that do not mention X, to just before
            # the next statement that does: 'initialised next to the allocation' and 'initialised before the loop' are one form
            i = len(body) - 2
            while i >= 0:
                st = body[i]
                i0 = i
                i -= 1
                if not (isinstance(st, ast.Assign) and len(st.targets) == 1 and isinstance(st.targets[0], ast.Subscript)
                        and isinstance(st.targets[0].value, ast.Name) and _pure_expr(st.targets[0].slice) and _total_expr(st.value)
                        and not any(isinstance(y, ast.Call) for y in ast.walk(st.targets[0].slice))):
                    continue                    # only stores of names / literals (an initial value), indexed without calls
                nm = st.targets[0].value.id
                free = {x.id for x in ast.walk(st) if isinstance(x, ast.Name)}
                j = i0 + 1
                while j < len(body):
                    nxt = body[j]
                    if any(isinstance(x, ast.Name) and x.id == nm for x in ast.walk(nxt)):
                        break
                    m2, s2 = _mutated_names(nxt)
                    if not (isinstance(nxt, ast.Assign) and all(isinstance(t, ast.Name) for t in nxt.targets) and _pure_expr(nxt.value)) or ((m2 | set(s2)) & free):
                        break
                    j += 1
                if j > i0 + 1 and j < len(body) and any(isinstance(x, ast.Name) and x.id == nm for x in ast.walk(body[j])):
                    body.insert(j - 1, body.pop(i0))
                    changed = True
            # runs of adjacent, mutually independent pure definitions get a canonical order
            k = 0
            while k < len(body):
                run = []
                while k < len(body) and isinstance(body[k], ast.Assign) and len(body[k].targets) == 1 and isinstance(body[k].targets[0], ast.Name) \
                        and _pure_expr(body[k].value) and stores.get(body[k].targets[0].id) == 1:
                    run.append(body[k])
                    k += 1
                if len(run) > 1:
                    names = {r.targets[0].id for r in run}
                    indep = all(not ({x.id for x in ast.walk(r.value) if isinstance(x, ast.Name)} & (names - {r.targets[0].id})) for r in run)
                    if indep:
                        # equal right-hand sides: the one whose name is mentioned first afterwards comes first
                        rest_names = [x.id for r2 in body[k:] for x in ast.walk(r2) if isinstance(x, ast.Name)]

                        def first_use(r):
                            try:
                                return rest_names.index(r.targets[0].id)
                            except ValueError:
                                return len(rest_names)
                        srt = sorted(run, key=lambda r: (ast.dump(r.value), first_use(r)))
                        if [id(x) for x in srt] != [id(x) for x in run]:
                            body[k - len(run):k] = srt
                            changed = True
                k += 1
    return changed


def _fresh_arrays(fn):
    """Local names that only ever hold objects created in this function and not shared: every plain binding is an allocation, a copy,
    an arithmetic / comparison result; no other name is bound from them by a plain reference, a view or a slice; they are not handed
    to a call that could keep them (only subscripted, read in arithmetic, passed to numpy routines)."""
    CREATE = {'zeros', 'ones', 'empty', 'full', 'zeros_like', 'ones_like', 'empty_like', 'array', 'arange', 'copy', 'astype', 'outer', 'tile',
              'where', 'interp', 'sqrt', 'dot', 'concatenate', 'nonzero', 'argsort', 'cumsum', 'sum'}
    params = {a.arg for a in fn.args.posonlyargs + fn.args.args + fn.args.kwonlyargs}
    binds = {}
    bad = set(params)
    for n in ast.walk(fn):
        if isinstance(n, ast.Assign):
            for t in n.targets:
                if isinstance(t, ast.Name):
                    binds.setdefault(t.id, []).append(n.value)
                else:
                    for x in ast.walk(t):
                        if isinstance(x, ast.Name) and isinstance(x.ctx, ast.Store):
                            bad.add(x.id)
        elif isinstance(n, (ast.For, ast.With, ast.ExceptHandler, ast.comprehension, ast.NamedExpr, ast.Global, ast.Nonlocal)):
            for x in ast.walk(n.target if hasattr(n, 'target') else n):
                if isinstance(x, ast.Name) and isinstance(x.ctx, ast.Store):
                    bad.add(x.id)

    def creates(v):
        if isinstance(v, (ast.BinOp, ast.Compare)) or (isinstance(v, ast.UnaryOp) and isinstance(v.op, (ast.Invert, ast.USub))):
            return True
        if isinstance(v, ast.Call) and isinstance(v.func, ast.Attribute) and v.func.attr in CREATE:
            return True
        return False
    out = {nm for nm, vs in binds.items() if nm not in bad and all(creates(v) for v in vs)}
    # anything bound from a reference to / view of a candidate shares its storage
    for nm, vs in binds.items():
        for v in vs:
            if not creates(v):
                out -= {x.id for x in ast.walk(v) if isinstance(x, ast.Name)}
    for n in ast.walk(fn):
        if isinstance(n, (ast.Return, ast.Yield)) and n.value is not None:
            pass                        # handing the array out at the end shares nothing during the function
    return out


def _forward_subst(fn, module_exprs=None):
    """A local bound exactly once to a pure expression over stable names reads as that expression; so does a module-level NAME bound
    once to a pure expression (a compiled pattern, a tuple of names, a number).  'Stable' = never re-bound, never assigned through,
    never the receiver of a mutating call, anywhere in the function."""
    params = {a.arg for a in fn.args.posonlyargs + fn.args.args + fn.args.kwonlyargs}
    if fn.args.vararg:
        params.add(fn.args.vararg.arg)
    if fn.args.kwarg:
        params.add(fn.args.kwarg.arg)
    mut, stores = _mutated_names(fn)
    # targets of for / with / comprehension / except are bound by a statement that is not a plain assignment: leave them alone
    special = set()
    for n in ast.walk(fn):
        if isinstance(n, (ast.For, ast.AsyncFor, ast.comprehension)):
            special |= {x.id for x in ast.walk(n.target) if isinstance(x, ast.Name)}
        elif isinstance(n, (ast.With, ast.AsyncWith)):
            for it in n.items:
                if it.optional_vars is not None:
                    special |= {x.id for x in ast.walk(it.optional_vars) if isinstance(x, ast.Name)}
        elif isinstance(n, ast.ExceptHandler) and n.name:
            special.add(n.name)
        elif isinstance(n, (ast.Import, ast.ImportFrom)):
            for a in n.names:
                special.add((a.asname or a.name).split('.')[0])
    defs = {}
    local_only = set()          # temporaries whose operands are re-bound elsewhere: usable only within a straight-line span
    # another name for a slot of the data (`done = table[d]`): eligible although it is assigned through, and although the root of its
    # path (`self`, `table`) is - the slot itself is never re-bound (see _unalias); when it is first evaluated is judged like any other
    alias = _unalias(fn, candidates_only=True) or {}
    for n in ast.walk(fn):
        if isinstance(n, ast.Assign) and len(n.targets) == 1 and isinstance(n.targets[0], ast.Name):
            nm = n.targets[0].id
            if nm in params or (nm in mut and nm not in alias) or nm in special or stores.get(nm) != 1:
                continue
            if not _pure_expr(n.value):
                continue
            free = {x.id for x in ast.walk(n.value) if isinstance(x, ast.Name)}
            if nm in free:
                continue
            if any((x in mut) for x in free) and nm not in alias:
                local_only.add(nm)
            defs[nm] = n
    # a temporary defined from another temporary depends on whatever that one depends on (the decision must not depend on which of
    # the two is substituted first)
    tfree = {nm: {x.id for x in ast.walk(st.value) if isinstance(x, ast.Name)} for nm, st in defs.items()}
    grown = True
    while grown:
        grown = False
        for nm in tfree:
            for x in list(tfree[nm]):
                if x in tfree and not tfree[x] <= tfree[nm]:
                    tfree[nm] |= tfree[x]
                    grown = True
    for nm in tfree:
        if tfree[nm] & mut and nm not in alias:
            local_only.add(nm)
    # Evaluation must not move across effects: between the definition and the first evaluation of a use (on every path) there may
    # only be effect-free statements.  Later re-evaluations of a pure expression over stable operands give the same value and cannot
    # newly raise.
    def uses(node, nm):
        return any(isinstance(x, ast.Name) and x.id == nm and isinstance(x.ctx, ast.Load) for x in ast.walk(node))

    fresh = _fresh_arrays(fn)

    def effect_free(st, nm=None):
        if isinstance(st, ast.Pass):
            return True
        if nm is not None and isinstance(st, (ast.Assign, ast.AugAssign)) and (st.value is None or _pure_expr(st.value)):
            # an element store into an array that is the function's own fresh object (never a view of, nor viewed by, anything the
            # temporary reads): the temporary's value cannot depend on it
            tg = st.targets if isinstance(st, ast.Assign) else [st.target]
            if all(isinstance(t, ast.Subscript) and isinstance(t.value, ast.Name) and t.value.id in fresh and _pure_expr(t.slice)
                   and t.value.id != nm and t.value.id not in tfree.get(nm, ()) for t in tg):
                return True
        if isinstance(st, (ast.Assign, ast.AnnAssign, ast.AugAssign)):
            tg = st.targets if isinstance(st, ast.Assign) else [st.target]
            flat = []
            for t in tg:
                flat.extend(t.elts if isinstance(t, (ast.Tuple, ast.List)) else [t])
            return all(isinstance(t, ast.Name) for t in flat) and (st.value is None or _pure_expr(st.value))
        if isinstance(st, ast.Expr):
            v = st.value
            if isinstance(v, ast.Call):
                fn_ = v.func
                benign = (isinstance(fn_, ast.Name) and fn_.id == 'warn') or (isinstance(fn_, ast.Attribute) and isinstance(fn_.value, ast.Name) and (
                    (fn_.value.id in ('log', 'logger', 'logging') and fn_.attr in ('debug', 'info', 'warning', 'error', 'critical')) or
                    (fn_.value.id == 'warnings' and fn_.attr == 'warn')))
                if benign and all(_pure_expr(a) for a in v.args) and all(_pure_expr(k.value) for k in v.keywords):
                    return True          # a message: nothing the moved expression could depend on, nothing it could pre-empt but the message
            return _pure_expr(st.value)
        if isinstance(st, ast.If):
            return _pure_expr(st.test) and all(effect_free(x) for x in st.body + st.orelse)
        if isinstance(st, (ast.For, ast.While)):
            hdr = st.iter if isinstance(st, ast.For) else st.test
            return _pure_expr(hdr) and all(effect_free(x) for x in st.body + st.orelse)
        return False

    def scan(stmts, nm):
        """'used': the first thing that matters on every path is an evaluation of nm; 'bad': an effect comes before a use on some
        path; 'clean': neither a use nor an effect; 'dirty': an effect and no use (a use further on, outside these statements, is bad)."""
        for k_, st in enumerate(stmts):
            later = stmts[k_ + 1:]

            def after(result):
                # an effect happened inside st: any use further on is reached across it
                if result == 'dirty':
                    return 'bad' if any(uses(x, nm) for x in later) else 'dirty'
                return result
            if isinstance(st, ast.If):
                if uses(st.test, nm):
                    return 'used'
                if not _pure_expr(st.test):
                    return 'bad' if any(uses(x, nm) for x in stmts[k_:]) else 'dirty'
                r1, r2 = scan(st.body, nm), scan(st.orelse, nm)
                if 'bad' in (r1, r2):
                    return 'bad'
                if r1 == 'used' and r2 == 'used':
                    return 'used'
                if 'dirty' in (r1, r2):
                    return after('dirty')
                continue
            if isinstance(st, (ast.For, ast.While)):
                hdr = st.iter if isinstance(st, ast.For) else st.test
                if uses(hdr, nm):
                    return 'used'
                if not _pure_expr(hdr):
                    return 'bad' if any(uses(x, nm) for x in stmts[k_:]) else 'dirty'
                r1, r2 = scan(st.body, nm), scan(st.orelse, nm)
                if 'bad' in (r1, r2):
                    return 'bad'
                if 'dirty' in (r1, r2):
                    # the body may run again: a use inside it after the effect is reached across the effect as well
                    if any(uses(x, nm) for x in st.body + st.orelse):
                        return 'bad'
                    return after('dirty')
                continue
            if uses(st, nm):
                return 'used'
            if not effect_free(st, nm):
                return 'bad' if any(uses(x, nm) for x in later) else 'dirty'
        return 'clean'

    def block_of(st):
        for owner in ast.walk(fn):
            for fld in ('body', 'orelse', 'finalbody'):
                v = getattr(owner, fld, None)
                if isinstance(v, list) and any(x is st for x in v):
                    return owner, v
            for h in getattr(owner, 'handlers', []) or []:
                if any(x is st for x in h.body):
                    return h, h.body
        return None, None
    def touches(st, names):
        """st re-binds, assigns through, augments or calls a mutating method on one of names."""
        m2, s2 = _mutated_names(st) if not isinstance(st, ast.FunctionDef) else (set(), {})
        return bool((m2 | set(s2)) & names)
    for nm in list(defs):
        st = defs[nm]
        owner, blk = block_of(st)
        if blk is None:
            del defs[nm]
            continue
        i = next(k for k, x in enumerate(blk) if x is st)
        rest = blk[i + 1:]
        total = sum(1 for x in ast.walk(fn) if isinstance(x, ast.Name) and x.id == nm and isinstance(x.ctx, ast.Load))
        inside = sum(1 for r in rest for x in ast.walk(r) if isinstance(x, ast.Name) and x.id == nm and isinstance(x.ctx, ast.Load))
        if nm in local_only:
            # operands are re-bound somewhere: every use must be in a simple statement of the same block (or a compound header), and
            # nothing from the definition up to the last use may touch an operand (the last using statement may, after evaluating)
            free = tfree[nm] & mut
            using = [k for k, r in enumerate(rest) if uses(r, nm)]
            ok_local = inside == total and bool(using)
            if ok_local:
                last = using[-1]
                for k, r in enumerate(rest[:last + 1]):
                    if isinstance(r, (ast.If, ast.For, ast.While, ast.Try, ast.With)):
                        hdr = r.test if isinstance(r, (ast.If, ast.While)) else (r.iter if isinstance(r, ast.For) else None)
                        body_uses = any(uses(x, nm) for x in getattr(r, 'body', []) + getattr(r, 'orelse', []) + getattr(r, 'finalbody', []))
                        if body_uses or touches(r, free) or hdr is None and uses(r, nm):
                            ok_local = False
                            break
                    elif k < last and touches(r, free):
                        ok_local = False
                        break
            if not ok_local:
                del defs[nm]
                continue
        if _total_expr(st.value) and nm not in local_only and inside == total:
            continue                # cannot raise, operands never change: may be evaluated anywhere after its definition
        if inside != total or scan(rest, nm) == 'bad':
            # a use after the enclosing block ended (loop / branch), or an effect between definition and first use
            if not (owner is fn and inside == total and scan(rest, nm) != 'bad'):
                del defs[nm]
    mapping = {}
    for nm, st in defs.items():
        mapping[nm] = st.value
    for nm, e in (module_exprs or {}).items():
        if nm not in stores and nm not in params and nm not in mapping:
            mapping[nm] = e
    if not mapping:
        return False
    # loop variables among the operands: the temp may only be used inside the loop that binds them
    changed = [False]

    def resolve(e, depth=0):
        class R(ast.NodeTransformer):
            def visit_Name(self, n):
                if isinstance(n.ctx, ast.Load) and n.id in mapping and depth < 12:
                    changed[0] = True
                    return resolve(clone(mapping[n.id]), depth + 1)
                return n
        return R().visit(e)

    class T(ast.NodeTransformer):
        def visit_Name(self, n):
            if isinstance(n.ctx, ast.Load) and n.id in mapping:
                changed[0] = True
                return ast.copy_location(resolve(clone(mapping[n.id])), n)
            return n
    drop = {id(st) for st in defs.values()}
    for n in ast.walk(fn):
        for fld in ('body', 'orelse', 'finalbody'):
            v = getattr(n, fld, None)
            if isinstance(v, list) and v and isinstance(v[0], ast.stmt) and not isinstance(n, ast.Lambda):
                kept = [st for st in v if id(st) not in drop]
                if len(kept) != len(v):
                    setattr(n, fld, kept or [ast.Pass()])
    T().visit(fn)
    return changed[0]


def _default_override(fn):
    """x = A; if c: x = B        ->   x = B if c else A      (A cannot raise: a name or a literal; c does not read x)"""
    changed = False
    for owner in ast.walk(fn):
        for fld in ('body', 'orelse', 'finalbody'):
            body = getattr(owner, fld, None)
            if not (isinstance(body, list) and len(body) >= 2 and isinstance(body[0], ast.stmt)) or isinstance(owner, ast.Lambda):
                continue
            # a default that cannot raise is bound where it is overridden: `x = A; <statements that neither read nor write x nor re-bind
            # a name of A>; if c: x = B`  - the default moves down next to the `if`
            for i in range(len(body) - 2):
                a = body[i]
                if not (isinstance(a, ast.Assign) and len(a.targets) == 1 and isinstance(a.targets[0], ast.Name) and _total_expr(a.value)):
                    continue
                x_ = a.targets[0].id
                free_a = {y.id for y in ast.walk(a.value) if isinstance(y, ast.Name)}
                j = next((k for k in range(i + 1, len(body)) if any(isinstance(y, ast.Name) and y.id == x_ for y in ast.walk(body[k]))), None)
                if j is None or j == i + 1:
                    continue
                b = body[j]
                if not (isinstance(b, ast.If) and not b.orelse and len(b.body) == 1 and isinstance(b.body[0], ast.Assign) and len(b.body[0].targets) == 1
                        and isinstance(b.body[0].targets[0], ast.Name) and b.body[0].targets[0].id == x_
                        and x_ not in {y.id for y in ast.walk(b.test) if isinstance(y, ast.Name)}
                        and x_ not in {y.id for y in ast.walk(b.body[0].value) if isinstance(y, ast.Name)}):
                    continue
                between = body[i + 1:j]
                if any(isinstance(y, (ast.Try, ast.With, ast.Return, ast.Raise, ast.Break, ast.Continue)) for r in between for y in ast.walk(r)):
                    continue
                if any(isinstance(y, ast.Name) and isinstance(y.ctx, (ast.Store, ast.Del)) and y.id in free_a for r in between for y in ast.walk(r)):
                    continue
                body.insert(j - 1, body.pop(i))
                changed = True
                break
            i = 0
            while i + 1 < len(body):
                a, b = body[i], body[i + 1]
                if isinstance(a, ast.Assign) and len(a.targets) == 1 and isinstance(a.targets[0], ast.Name) and _total_expr(a.value) \
                        and isinstance(b, ast.If) and not b.orelse and len(b.body) == 1 and isinstance(b.body[0], ast.Assign) \
                        and len(b.body[0].targets) == 1 and isinstance(b.body[0].targets[0], ast.Name) and b.body[0].targets[0].id == a.targets[0].id \
                        and a.targets[0].id not in {x.id for x in ast.walk(b.test) if isinstance(x, ast.Name)} \
                        and a.targets[0].id not in {x.id for x in ast.walk(b.body[0].value) if isinstance(x, ast.Name)}:
                    body[i] = ast.copy_location(ast.Assign(targets=[a.targets[0]], value=ast.IfExp(test=b.test, body=b.body[0].value, orelse=a.value)), a)
                    del body[i + 1]
                    changed = True
                    continue
                # x = A; if c: x -= K     ->   x = A - K if c else A      (A, c, K without effects; c and K do not read x)
                if isinstance(a, ast.Assign) and len(a.targets) == 1 and isinstance(a.targets[0], ast.Name) and _pure_expr(a.value) \
                        and isinstance(b, ast.If) and not b.orelse and len(b.body) == 1 and isinstance(b.body[0], ast.AugAssign) \
                        and isinstance(b.body[0].target, ast.Name) and b.body[0].target.id == a.targets[0].id and _pure_expr(b.test) and _pure_expr(b.body[0].value) \
                        and a.targets[0].id not in {x.id for x in ast.walk(b.test) if isinstance(x, ast.Name)} \
                        and a.targets[0].id not in {x.id for x in ast.walk(b.body[0].value) if isinstance(x, ast.Name)} \
                        and a.targets[0].id not in {x.id for x in ast.walk(a.value) if isinstance(x, ast.Name)} \
                        and not any(isinstance(x, (ast.Subscript, ast.Call)) for x in ast.walk(a.value)) and isinstance(a.value, ast.BinOp):
                    combined = ast.BinOp(left=clone(a.value), op=b.body[0].op, right=b.body[0].value)
                    body[i] = ast.fix_missing_locations(ast.copy_location(
                        ast.Assign(targets=[a.targets[0]], value=ast.IfExp(test=b.test, body=combined, orelse=a.value)), a))
                    del body[i + 1]
                    changed = True
                    continue
                i += 1
    return changed


def _known_condition(fn):
    """Inside `if T:` (T pure, its operands not stored to in the branch) a conditional expression on T reads as its true arm; inside the
    else branch as its false arm."""
    changed = [False]
    for st in ast.walk(fn):
        if not (isinstance(st, ast.If) and _pure_expr(st.test)):
            continue
        key = ast.dump(st.test)
        free = {x.id for x in ast.walk(st.test) if isinstance(x, ast.Name)}
        for branch, pick in ((st.body, 'body'), (st.orelse, 'orelse')):
            if not branch:
                continue
            if not any(isinstance(x, ast.IfExp) and ast.dump(x.test) == key for b_ in branch for x in ast.walk(b_)):
                continue
            mut, stores = _mutated_names(ast.Module(body=branch, type_ignores=[]))
            if free & (mut | set(stores)):
                continue

            class R(ast.NodeTransformer):
                def visit_IfExp(self, n):
                    self.generic_visit(n)
                    if ast.dump(n.test) == key:
                        changed[0] = True
                        return getattr(n, pick)
                    return n
            for i, b_ in enumerate(branch):
                branch[i] = R().visit(b_)
    return changed[0]


def _same_terminal(fn):
    """if c: T            ->   T            (T one terminal statement - raise / return / continue / break - identical in both places, c pure)
       T
    if a: T              ->   if a or b: T     (consecutive guards with the same terminal statement; b is evaluated only when a is false,
    if b: T                                     as before)"""
    changed = False

    def terminal(body):
        return len(body) == 1 and isinstance(body[0], (ast.Raise, ast.Return, ast.Continue, ast.Break))
    for owner in ast.walk(fn):
        for fld in ('body', 'orelse', 'finalbody'):
            body = getattr(owner, fld, None)
            if not (isinstance(body, list) and len(body) >= 2 and isinstance(body[0], ast.stmt)) or isinstance(owner, ast.Lambda):
                continue
            i = 0
            while i + 1 < len(body):
                a, b = body[i], body[i + 1]
                if isinstance(a, ast.If) and not a.orelse and terminal(a.body) and _pure_expr(a.test):
                    if ast.dump(a.body[0]) == ast.dump(b) and isinstance(b, (ast.Raise, ast.Return, ast.Continue, ast.Break)):
                        del body[i]
                        changed = True
                        continue
                    if isinstance(b, ast.If) and not b.orelse and terminal(b.body) and ast.dump(a.body[0]) == ast.dump(b.body[0]):
                        a.test = ast.copy_location(ast.BoolOp(op=ast.Or(), values=[a.test, b.test]), a.test)
                        del body[i + 1]
                        changed = True
                        continue
                i += 1
    return changed


def _self_default(fn):
    """x = A if c else x   ->   if c: x = A        (and  x = x if c else A  ->  if not c: x = A)"""
    changed = False
    for owner in ast.walk(fn):
        for fld in ('body', 'orelse', 'finalbody'):
            body = getattr(owner, fld, None)
            if not (isinstance(body, list) and body and isinstance(body[0], ast.stmt)) or isinstance(owner, ast.Lambda):
                continue
            for i, st in enumerate(body):
                if isinstance(st, ast.Assign) and len(st.targets) == 1 and isinstance(st.targets[0], ast.Name) and isinstance(st.value, ast.IfExp):
                    x = st.targets[0].id
                    ie = st.value
                    if isinstance(ie.orelse, ast.Name) and ie.orelse.id == x:
                        test, val = ie.test, ie.body
                    elif isinstance(ie.body, ast.Name) and ie.body.id == x:
                        test, val = _negate(ie.test), ie.orelse
                    else:
                        continue
                    new = ast.If(test=test, body=[ast.Assign(targets=[st.targets[0]], value=val)], orelse=[])
                    ast.copy_location(new, st)
                    ast.fix_missing_locations(new)
                    body[i] = new
                    changed = True
    return changed


def _vararg_first(fn):
    """try: t = args[0]  except IndexError: t = D     ->    t = args[0] if args else D      (args the * parameter: a tuple)"""
    va = fn.args.vararg.arg if fn.args.vararg else None
    if not va:
        return False
    changed = False
    for owner in ast.walk(fn):
        for fld in ('body', 'orelse', 'finalbody'):
            body = getattr(owner, fld, None)
            if not (isinstance(body, list) and body and isinstance(body[0], ast.stmt)) or isinstance(owner, ast.Lambda):
                continue
            for i, st in enumerate(body):
                if isinstance(st, ast.Try) and len(st.body) == 1 and len(st.handlers) == 1 and not st.orelse and not st.finalbody \
                        and isinstance(st.body[0], ast.Assign) and len(st.body[0].targets) == 1 and isinstance(st.body[0].targets[0], ast.Name):
                    a = st.body[0]
                    h = st.handlers[0]
                    if isinstance(a.value, ast.Subscript) and isinstance(a.value.value, ast.Name) and a.value.value.id == va \
                            and isinstance(a.value.slice, ast.Constant) and a.value.slice.value == 0 \
                            and isinstance(h.type, ast.Name) and h.type.id == 'IndexError' and h.name is None and len(h.body) == 1 \
                            and isinstance(h.body[0], ast.Assign) and len(h.body[0].targets) == 1 and ast.dump(h.body[0].targets[0]) == ast.dump(a.targets[0]) \
                            and _total_expr(h.body[0].value):
                        new = ast.Assign(targets=[a.targets[0]], value=ast.IfExp(test=ast.Name(id=va, ctx=ast.Load()), body=a.value, orelse=h.body[0].value))
                        ast.copy_location(new, st)
                        ast.fix_missing_locations(new)
                        body[i] = new
                        changed = True
    return changed


def _split_if(fn):
    """if c: a = A; b = B  else: b = B2      ->     if c: a = A;   if c: b = B else: b = B2
    Every statement of both branches is a plain assignment to one name or self-attribute, c is pure and reads nothing the branches store,
    and the targets the branches share come in the same order in both."""
    changed = False

    def tkey(st):
        if isinstance(st, ast.Assign) and len(st.targets) == 1:
            t = st.targets[0]
            if isinstance(t, ast.Name) or (isinstance(t, ast.Attribute) and isinstance(t.value, ast.Name)):
                return ast.dump(t)
        return None
    for owner in ast.walk(fn):
        for fld in ('body', 'orelse', 'finalbody'):
            body = getattr(owner, fld, None)
            if not (isinstance(body, list) and body and isinstance(body[0], ast.stmt)) or isinstance(owner, ast.Lambda):
                continue
            i = 0
            while i < len(body):
                st = body[i]
                if not (isinstance(st, ast.If) and len(st.body) + len(st.orelse) >= 2 and (len(st.body) > 1 or len(st.orelse) > 1) and _pure_expr(st.test)):
                    i += 1
                    continue
                kb = [tkey(x) for x in st.body]
                ke = [tkey(x) for x in st.orelse]
                if None in kb or None in ke or len(set(kb)) != len(kb) or len(set(ke)) != len(ke):
                    i += 1
                    continue
                shared_b = [k for k in kb if k in ke]
                shared_e = [k for k in ke if k in kb]
                if shared_b != shared_e:
                    i += 1
                    continue
                holder = ast.Module(body=st.body + st.orelse, type_ignores=[])
                mut, stores = _mutated_names(holder)
                free = {x.id for x in ast.walk(st.test) if isinstance(x, ast.Name)}
                if free & (mut | set(stores)):
                    i += 1
                    continue
                # attribute stores through self: the test must not read self
                if any(isinstance(x.targets[0], ast.Attribute) and x.targets[0].value.id in free for x in st.body + st.orelse):
                    i += 1
                    continue
                # merged order: body order, else-only statements placed before the next shared target they precede
                order = []
                ei = 0
                for k in kb:
                    if k in ke:
                        while ke[ei] != k:
                            order.append(ke[ei])
                            ei += 1
                        ei += 1
                    order.append(k)
                order.extend(ke[ei:])
                new = []
                for k in order:
                    b_ = [x for x in st.body if tkey(x) == k]
                    e_ = [x for x in st.orelse if tkey(x) == k]
                    if b_:
                        n_ = ast.If(test=clone(st.test), body=b_, orelse=e_)
                    else:
                        n_ = ast.If(test=_negate(clone(st.test)), body=e_, orelse=[])
                    ast.copy_location(n_, st)
                    ast.fix_missing_locations(n_)
                    new.append(n_)
                body[i:i + 1] = new
                i += len(new)
                changed = True
    return changed


def _bool_ifexp(fn):
    """True if c else False  ->  c ;  False if c else True  ->  not c      (c yields a bool: in / not in / is / is not / not / and-or of these)"""
    def boolean(e):
        if isinstance(e, ast.Compare):
            return all(isinstance(o, (ast.In, ast.NotIn, ast.Is, ast.IsNot)) for o in e.ops)
        if isinstance(e, ast.UnaryOp) and isinstance(e.op, ast.Not):
            return True
        if isinstance(e, ast.BoolOp):
            return all(boolean(v) for v in e.values)
        if isinstance(e, ast.Constant):
            return isinstance(e.value, bool)
        return False
    hit = [False]

    class T(ast.NodeTransformer):
        def visit_IfExp(self, n):
            self.generic_visit(n)
            if isinstance(n.body, ast.Constant) and isinstance(n.orelse, ast.Constant) and boolean(n.test):
                if n.body.value is True and n.orelse.value is False:
                    hit[0] = True
                    return n.test
                if n.body.value is False and n.orelse.value is True:
                    hit[0] = True
                    return ast.copy_location(_negate(n.test), n)
            return n
    T().visit(fn)
    return hit[0]


def _ifexp_assign(fn):
    """if c: x = a else: x = b   ->   x = a if c else b   (same single plain target in both branches)."""
    changed = False
    for owner in ast.walk(fn):
        for fld in ('body', 'orelse', 'finalbody'):
            body = getattr(owner, fld, None)
            if not (isinstance(body, list) and body and isinstance(body[0], ast.stmt)) or isinstance(owner, ast.Lambda):
                continue
            for i, st in enumerate(body):
                if isinstance(st, ast.If) and len(st.body) == 1 and len(st.orelse) == 1 and isinstance(st.body[0], ast.Assign) \
                        and isinstance(st.orelse[0], ast.Assign) and len(st.body[0].targets) == 1 and len(st.orelse[0].targets) == 1 \
                        and (isinstance(st.body[0].targets[0], ast.Name) or (isinstance(st.body[0].targets[0], ast.Attribute)
                                                                              and isinstance(st.body[0].targets[0].value, ast.Name))) \
                        and ast.dump(st.body[0].targets[0]) == ast.dump(st.orelse[0].targets[0]):
                    body[i] = ast.copy_location(ast.Assign(targets=[st.body[0].targets[0]],
                                                           value=ast.IfExp(test=st.test, body=st.body[0].value, orelse=st.orelse[0].value)), st)
                    changed = True
    return changed


def _guard_continue(fn):
    """In a loop body:  if T: continue; REST   ->   if not T: REST."""
    changed = False
    for loop in ast.walk(fn):
        if not isinstance(loop, (ast.For, ast.While, ast.AsyncFor)):
            continue

        def rewrite(body):
            nonlocal changed
            for i, st in enumerate(body):
                if isinstance(st, ast.If) and not st.orelse and len(st.body) == 1 and isinstance(st.body[0], ast.Continue) and i + 1 < len(body):
                    rest = body[i + 1:]
                    rewrite(rest)
                    st.test = _negate(st.test)
                    st.body = rest
                    del body[i + 1:]
                    changed = True
                    return
        rewrite(loop.body)
    return changed


def _sink_increment(fn):
    """In a while body:  ...; k += c; REST      ->      ...; REST[k := k + c]; k += c
    when REST (the remaining statements of the body) are simple statements that read k but never store it, contain no continue /
    break / return, and c is an integer literal."""
    changed = False
    for loop in ast.walk(fn):
        if not isinstance(loop, ast.While):
            continue
        body = loop.body
        for i, st in enumerate(body[:-1]):
            if isinstance(st, ast.AugAssign) and isinstance(st.op, ast.Add) and isinstance(st.target, ast.Name) and isinstance(st.value, ast.Constant) \
                    and type(st.value.value) is int:
                k = st.target.id
                rest = body[i + 1:]
                if not all(isinstance(r, (ast.Assign, ast.AugAssign, ast.Expr)) for r in rest):
                    continue
                if any(isinstance(x, ast.Name) and x.id == k and isinstance(x.ctx, (ast.Store, ast.Del)) for r in rest for x in ast.walk(r)):
                    continue
                if any(isinstance(x, (ast.Lambda, ast.ListComp, ast.GeneratorExp, ast.SetComp, ast.DictComp)) for r in rest for x in ast.walk(r)):
                    continue

                class S(ast.NodeTransformer):
                    def visit_Name(self, n):
                        if n.id == k and isinstance(n.ctx, ast.Load):
                            return ast.copy_location(ast.BinOp(left=ast.Name(id=k, ctx=ast.Load()), op=ast.Add(), right=ast.Constant(value=st.value.value)), n)
                        return n
                new_rest = [ast.fix_missing_locations(S().visit(r)) for r in rest]
                body[i:] = new_rest + [st]
                changed = True
                break
    return changed


def _while_counter(fn):
    """k = A; while k < N: BODY; k += 1      ->     for k in range(A, N): BODY
    when A is an integer literal, N a length (len(x), x.size, x.shape[i], an integer literal) whose operands BODY does not touch, BODY
    neither stores k nor `continue`s this loop, and k is not read after the loop."""
    changed = False

    def is_length(e):
        if isinstance(e, ast.Constant) and type(e.value) is int:
            return True
        if isinstance(e, ast.Call) and isinstance(e.func, ast.Name) and e.func.id == 'len' and len(e.args) == 1 and _pure_expr(e.args[0]):
            return True
        if isinstance(e, ast.Attribute) and e.attr == 'size' and _pure_expr(e.value):
            return True
        if isinstance(e, ast.Subscript) and isinstance(e.value, ast.Attribute) and e.value.attr == 'shape' and isinstance(e.slice, ast.Constant) \
                and _pure_expr(e.value.value):
            return True
        # integer arithmetic over names, attributes and integer literals (a count kept in a variable or an attribute)
        if isinstance(e, (ast.Name, ast.Attribute)) and _pure_expr(e):
            return True
        if isinstance(e, ast.BinOp) and isinstance(e.op, (ast.Add, ast.Sub, ast.Mult, ast.FloorDiv)):
            return is_length(e.left) and is_length(e.right)
        return False

    def own_continue(body):
        for st in body:
            if isinstance(st, ast.Continue):
                return True
            if isinstance(st, (ast.For, ast.While, ast.AsyncFor, ast.FunctionDef, ast.AsyncFunctionDef, ast.ClassDef)):
                if isinstance(st, (ast.For, ast.While, ast.AsyncFor)) and own_continue(st.orelse):
                    return True
                continue
            for fld in ('body', 'orelse', 'finalbody'):
                if own_continue(getattr(st, fld, []) or []):
                    return True
            for h in getattr(st, 'handlers', []) or []:
                if own_continue(h.body):
                    return True
        return False
    for owner in ast.walk(fn):
        for fld in ('body', 'orelse', 'finalbody'):
            body = getattr(owner, fld, None)
            if not (isinstance(body, list) and body and isinstance(body[0], ast.stmt)) or isinstance(owner, ast.Lambda):
                continue
            for i, st in enumerate(body):
                if not (isinstance(st, ast.While) and not st.orelse and len(st.body) >= 2):
                    continue
                t = st.test
                if not (isinstance(t, ast.Compare) and len(t.ops) == 1 and isinstance(t.left, ast.Name)):
                    continue
                if isinstance(t.ops[0], ast.Lt):
                    k, bound = t.left.id, t.comparators[0]
                else:
                    continue
                last = st.body[-1]
                if not (isinstance(last, ast.AugAssign) and isinstance(last.op, ast.Add) and isinstance(last.target, ast.Name) and last.target.id == k
                        and isinstance(last.value, ast.Constant) and last.value.value == 1 and type(last.value.value) is int):
                    continue
                # the initialisation: the nearest earlier statement of the block that mentions k
                j = i - 1
                while j >= 0 and not any(isinstance(x, ast.Name) and x.id == k for x in ast.walk(body[j])):
                    j -= 1
                if j < 0:
                    continue
                init = body[j]
                if not (isinstance(init, ast.Assign) and len(init.targets) == 1 and isinstance(init.targets[0], ast.Name) and init.targets[0].id == k
                        and isinstance(init.value, ast.Constant) and type(init.value.value) is int):
                    continue
                if not is_length(bound):
                    continue
                inner = st.body[:-1]
                if any(isinstance(x, ast.Name) and x.id == k and isinstance(x.ctx, (ast.Store, ast.Del)) for b_ in inner for x in ast.walk(b_)):
                    continue
                if own_continue(inner):
                    continue
                holder = ast.Module(body=inner, type_ignores=[])
                mut, stores = _mutated_names(holder)
                free = {x.id for x in ast.walk(bound) if isinstance(x, ast.Name)}
                if free & (mut | set(stores)):
                    continue
                between = body[j + 1:i]
                if any(isinstance(x, ast.Name) and x.id in free and isinstance(x.ctx, ast.Store) for b_ in between for x in ast.walk(b_)):
                    pass
                total = sum(1 for x in ast.walk(fn) if isinstance(x, ast.Name) and x.id == k and isinstance(x.ctx, ast.Load))
                inside = sum(1 for b_ in inner for x in ast.walk(b_) if isinstance(x, ast.Name) and x.id == k and isinstance(x.ctx, ast.Load))
                if total != inside + 1:            # + the read in the loop test
                    continue
                nstores = sum(1 for x in ast.walk(fn) if isinstance(x, ast.Name) and x.id == k and isinstance(x.ctx, (ast.Store, ast.Del)))
                if nstores != 2:
                    continue
                args = [bound] if init.value.value == 0 else [init.value, bound]
                loop = ast.For(target=ast.Name(id=k, ctx=ast.Store()), iter=ast.Call(func=ast.Name(id='range', ctx=ast.Load()), args=args, keywords=[]),
                               body=inner, orelse=[], type_comment=None)
                ast.copy_location(loop, st)
                ast.fix_missing_locations(loop)
                body[i] = loop
                del body[j]
                changed = True
                break
    return changed


def _list_accumulation(fn):
    """x = [] (or list(), or a list literal); x.append(e) immediately after   ->   x = [..., e]   (e must not read x)."""
    changed = False
    for owner in ast.walk(fn):
        for fld in ('body', 'orelse', 'finalbody'):
            body = getattr(owner, fld, None)
            if not (isinstance(body, list) and body and isinstance(body[0], ast.stmt)) or isinstance(owner, ast.Lambda):
                continue
            i = 0
            while i + 1 < len(body):
                a, b = body[i], body[i + 1]
                if isinstance(a, ast.Assign) and len(a.targets) == 1 and isinstance(a.targets[0], ast.Name):
                    if isinstance(a.value, ast.Call) and isinstance(a.value.func, ast.Name) and a.value.func.id == 'list' and not a.value.args and not a.value.keywords:
                        a.value = ast.copy_location(ast.List(elts=[], ctx=ast.Load()), a.value)
                        changed = True
                    nm = a.targets[0].id
                    if isinstance(a.value, ast.List) and isinstance(b, ast.Expr) and isinstance(b.value, ast.Call) and isinstance(b.value.func, ast.Attribute) \
                            and b.value.func.attr == 'append' and isinstance(b.value.func.value, ast.Name) and b.value.func.value.id == nm \
                            and len(b.value.args) == 1 and not b.value.keywords \
                            and nm not in {x.id for x in ast.walk(b.value.args[0]) if isinstance(x, ast.Name)} and _pure_expr(b.value.args[0]):
                        a.value.elts.append(b.value.args[0])
                        del body[i + 1]
                        changed = True
                        continue
                i += 1
    return changed


def _tail_returns(fn):
    """A bare `return` as the last statement of the function body is dropped; at the top level of the function body
    `if T: ...; return` (bare) followed by REST reads as `if T: ... else: REST` (falling off the end is a bare return)."""
    changed = False
    body = fn.body
    while len(body) > 1 and isinstance(body[-1], ast.Return) and (body[-1].value is None or (isinstance(body[-1].value, ast.Constant) and body[-1].value.value is None)):
        body.pop()
        changed = True

    def has_value_return(stmts):
        return any(isinstance(x, ast.Return) and x.value is not None and not (isinstance(x.value, ast.Constant) and x.value.value is None)
                   for st in stmts for x in ast.walk(st))
    if has_value_return(body):
        return changed            # a function that returns values: `return` and falling off the end are still the same, but keep it simple
    i = 0
    while i < len(body):
        st = body[i]
        if isinstance(st, ast.If) and not st.orelse and st.body and isinstance(st.body[-1], ast.Return) and i + 1 < len(body):
            st.body = st.body[:-1] or [ast.Pass()]
            st.orelse = body[i + 1:]
            del body[i + 1:]
            _tail_in_branches(st)
            changed = True
            break
        i += 1
    return changed


def _tail_in_branches(iff):
    for blk in (iff.body, iff.orelse):
        while len(blk) > 1 and isinstance(blk[-1], ast.Return) and blk[-1].value is None:
            blk.pop()
        j = 0
        while j < len(blk):
            st = blk[j]
            if isinstance(st, ast.If) and not st.orelse and st.body and isinstance(st.body[-1], ast.Return) and st.body[-1].value is None and j + 1 < len(blk):
                st.body = st.body[:-1] or [ast.Pass()]
                st.orelse = blk[j + 1:]
                del blk[j + 1:]
                _tail_in_branches(st)
                break
            j += 1


def _getattr_default(fn):
    """try: t = x.a  except AttributeError: t = D      ->   t = getattr(x, 'a', D)"""
    changed = False
    for owner in ast.walk(fn):
        for fld in ('body', 'orelse', 'finalbody'):
            body = getattr(owner, fld, None)
            if not (isinstance(body, list) and body and isinstance(body[0], ast.stmt)) or isinstance(owner, ast.Lambda):
                continue
            for i, st in enumerate(body):
                if isinstance(st, ast.Try) and len(st.body) == 1 and len(st.handlers) == 1 and not st.orelse and not st.finalbody:
                    a, h = st.body[0], st.handlers[0]
                    if isinstance(a, ast.Assign) and len(a.targets) == 1 and isinstance(a.targets[0], ast.Name) and isinstance(a.value, ast.Attribute) \
                            and isinstance(a.value.value, ast.Name) and h.name is None and h.type is not None and isinstance(h.type, ast.Name) \
                            and h.type.id == 'AttributeError' and len(h.body) == 1 and isinstance(h.body[0], ast.Assign) \
                            and len(h.body[0].targets) == 1 and ast.dump(h.body[0].targets[0]) == ast.dump(a.targets[0]) \
                            and isinstance(h.body[0].value, (ast.Constant, ast.Name)):
                        call = ast.Call(func=ast.Name(id='getattr', ctx=ast.Load()),
                                        args=[a.value.value, ast.Constant(value=a.value.attr), h.body[0].value], keywords=[])
                        body[i] = ast.copy_location(ast.Assign(targets=[a.targets[0]], value=call), st)
                        changed = True
    return changed


def _tail_return_dedup(fn):
    """if c: A; return E        (no else)            if c: A
       B                                      ->     else: B
       return E                                      return E          (the two returns are the same expression)
    also when `return E` follows the enclosing if / else chain rather than B itself (B in tail position)."""
    changed = [False]

    def process(body, tail):
        if body and isinstance(body[-1], ast.Return) and body[-1].value is not None:
            own, end = ast.dump(body[-1].value), len(body) - 1
        else:
            own, end = tail, len(body)
        if own is None:
            return
        for i in range(end):
            st = body[i]
            if isinstance(st, ast.If) and not st.orelse and st.body and isinstance(st.body[-1], ast.Return) and st.body[-1].value is not None \
                    and ast.dump(st.body[-1].value) == own and (i + 1 < end or end < len(body)):
                rest = body[i + 1:end]
                st.body = st.body[:-1] or [ast.Pass()]
                st.orelse = rest
                del body[i + 1:end]
                changed[0] = True
                process(st.body, own)
                process(st.orelse, own)
                return
        if end >= 1 and isinstance(body[end - 1], ast.If):
            process(body[end - 1].body, own)
            process(body[end - 1].orelse, own)
    for owner in ast.walk(fn):
        for fld in ('body', 'orelse', 'finalbody'):
            body = getattr(owner, fld, None)
            if not (isinstance(body, list) and len(body) >= 2 and isinstance(body[0], ast.stmt)) or isinstance(owner, ast.Lambda):
                continue
            if isinstance(body[-1], ast.Return) and body[-1].value is not None:
                process(body, None)
    return changed[0]


def _return_ifexp(fn):
    """if c: return a else: return b   /   if c: return a; return b      ->   return a if c else b   (a bare return reads as None when
    the other arm returns a value)."""
    changed = False

    def val(r):
        return r.value if r.value is not None else ast.Constant(value=None)
    for owner in ast.walk(fn):
        for fld in ('body', 'orelse', 'finalbody'):
            body = getattr(owner, fld, None)
            if not (isinstance(body, list) and body and isinstance(body[0], ast.stmt)) or isinstance(owner, ast.Lambda):
                continue
            i = 0
            while i < len(body):
                st = body[i]
                if isinstance(st, ast.If) and len(st.body) == 1 and isinstance(st.body[0], ast.Return):
                    other = None
                    if len(st.orelse) == 1 and isinstance(st.orelse[0], ast.Return):
                        other = st.orelse[0]
                        consumed = 0
                    elif not st.orelse and i + 1 < len(body) and isinstance(body[i + 1], ast.Return):
                        other = body[i + 1]
                        consumed = 1
                    if other is not None and (other.value is not None or st.body[0].value is not None):
                        body[i] = ast.copy_location(ast.Return(value=ast.IfExp(test=st.test, body=val(st.body[0]), orelse=val(other))), st)
                        ast.fix_missing_locations(body[i])
                        if consumed:
                            del body[i + 1]
                        changed = True
                        continue
                i += 1
    return changed


def helper_expression(g):
    """If the helper reduces to `return <expr>` after the statement-level normalisations, that expression (else None)."""
    c = clone(g)
    body = c.body
    if body and isinstance(body[0], ast.Expr) and isinstance(body[0].value, ast.Constant) and isinstance(body[0].value.value, str):
        c.body = body[1:] or [ast.Pass()]
    for _ in range(6):
        before = ast.dump(c)
        for _cap in range(40):
            if not _stmt_pass(c):
                break
        _ifexp_assign(c)
        for _cap in range(40):
            if not _inline_pass(c):
                break
        _forward_subst(c)
        _return_ifexp(c)
        if ast.dump(c) == before:
            break
    if len(c.body) == 1 and isinstance(c.body[0], ast.Return) and c.body[0].value is not None:
        return c.body[0].value
    return None


def _loop_to_comprehension(fn):
    """xs = []; for t in it: [if c:] xs.append(e)   ->   xs = [e for t in it if c]."""
    changed = False
    for owner in ast.walk(fn):
        for fld in ('body', 'orelse', 'finalbody'):
            body = getattr(owner, fld, None)
            if not (isinstance(body, list) and body and isinstance(body[0], ast.stmt)) or isinstance(owner, ast.Lambda):
                continue
            i = 0
            while i + 1 < len(body):
                a, b = body[i], body[i + 1]
                empty = isinstance(a, ast.Assign) and len(a.targets) == 1 and isinstance(a.targets[0], ast.Name) and (
                    (isinstance(a.value, ast.List) and not a.value.elts) or
                    (isinstance(a.value, ast.Call) and isinstance(a.value.func, ast.Name) and a.value.func.id == 'list' and not a.value.args))
                if empty and isinstance(b, ast.For) and not b.orelse and len(b.body) == 1:
                    nm = a.targets[0].id
                    inner = b.body[0]
                    cond = None
                    if isinstance(inner, ast.If) and not inner.orelse and len(inner.body) == 1:
                        cond = inner.test
                        inner = inner.body[0]
                    if isinstance(inner, ast.Expr) and isinstance(inner.value, ast.Call) and isinstance(inner.value.func, ast.Attribute) \
                            and inner.value.func.attr == 'append' and isinstance(inner.value.func.value, ast.Name) and inner.value.func.value.id == nm \
                            and len(inner.value.args) == 1 and nm not in {x.id for x in ast.walk(inner.value.args[0]) if isinstance(x, ast.Name)} \
                            and nm not in {x.id for x in ast.walk(b.iter) if isinstance(x, ast.Name)}:
                        comp = ast.ListComp(elt=inner.value.args[0], generators=[ast.comprehension(target=b.target, iter=b.iter, ifs=[cond] if cond is not None else [], is_async=0)])
                        body[i] = ast.copy_location(ast.Assign(targets=[a.targets[0]], value=comp), a)
                        del body[i + 1]
                        changed = True
                        continue
                i += 1
    return changed


def normal_form(fn, callee_info=None, consts=None):
    """A normalised private copy of the function definition node fn.  consts: {module-level NAME: python constant}."""
    c = clone(fn)
    c.decorator_list = list(c.decorator_list)
    _KWARG[0] = c.args.kwarg.arg if c.args.kwarg else None
    from .normalize import unroll_table_loops
    try:
        c2, nun = unroll_table_loops(c, None, max_rows=12, pure=_pure_expr)
        if nun:
            c = c2
    except Exception:
        pass
    _strip_signature(c)
    _dead_constant_stores(c)
    _const_prop(c, consts)
    c = _FoldConst().visit(c)
    if c.body and isinstance(c.body[0], ast.Expr) and isinstance(c.body[0].value, ast.Constant) and isinstance(c.body[0].value.value, str):
        # a docstring is documentation, not behaviour (a rule that reads docstrings is given the current one, see roles._substitute_reference)
        c.body = c.body[1:] or [ast.Pass()]
    for _ in range(10):
        before = ast.dump(c)
        c = _E1(callee_info, c.args.kwarg.arg if c.args.kwarg else None).visit(c)
        for _cap in range(40):
            if not _stmt_pass(c):
                break
        for _cap in range(40):
            if not _inline_pass(c):
                break
        _copy_prop(c)
        _coalesce_copy(c)
        _group_store(c)
        _hoist_terminal_else(c)
        _empty_filled(c)
        _fresh_zeros(c)
        _max_idiom(c)
        _getattr_default(c)
        _tail_returns(c)
        _tail_return_dedup(c)
        _return_ifexp(c)
        _list_accumulation(c)
        _vararg_first(c)
        _same_terminal(c)
        _known_condition(c)
        _split_if(c)
        _default_override(c)
        _ifexp_assign(c)
        _self_default(c)
        _bool_ifexp(c)
        _guard_continue(c)
        _sink_increment(c)
        _while_counter(c)
        _loop_to_comprehension(c)
        _unpack_to_subscripts(c)
        _dead_constant_stores(c)
        _ssa_split(c)
        _split_multi_defs(c)
        _split_loop_vars(c)
        _sink_definitions(c)
        _forward_subst(c, getattr(consts, 'exprs', None))
        c = _FoldConst().visit(c)
        try:
            c2, nun = unroll_table_loops(c, None, max_rows=12, pure=_pure_expr)
            if nun:
                c = c2
        except Exception:
            pass
        if ast.dump(c) == before:
            break
    _alpha(c)
    c = _E2().visit(c)
    return c


def nf_key(fn, callee_info=None, consts=None):
    c = normal_form(fn, callee_info, consts)
    return ast.dump(c, include_attributes=False)


def canon_expr(e):
    """A normalised private copy of an expression (comparison direction, folded negations, De Morgan, spellings): for rules that match
    the shape of a test."""
    return _E1(None).visit(clone(e))


def canon_key(e):
    """Text of the canonical form of an expression, operands of commutative operators in a fixed order: two spellings of one expression
    get one key."""
    c = _E1(None).visit(clone(e))
    c = _FoldConst().visit(c)
    c = _E2().visit(c)
    return ast.unparse(c).replace(' ', '')


def canon_block(stmts, callee_info=None):
    """The statements of a block in normal form (as a list of statement nodes): for rules that compare two blocks for isomorphism."""
    f = ast.FunctionDef(name='__block__', args=ast.arguments(posonlyargs=[], args=[], vararg=None, kwonlyargs=[], kw_defaults=[],
                                                               kwarg=None, defaults=[]),
                        body=[clone(s) for s in stmts], decorator_list=[], returns=None, type_comment=None, type_params=[])
    ast.fix_missing_locations(f)
    return normal_form(f, callee_info).body


def canon_test(e):
    """canon_expr for an expression in test position: there `not not x` reads `x` (truth value, not value)."""
    class T(ast.NodeTransformer):
        def visit_UnaryOp(self, n):
            self.generic_visit(n)
            if isinstance(n.op, ast.Not) and isinstance(n.operand, ast.UnaryOp) and isinstance(n.operand.op, ast.Not):
                return n.operand.operand
            return n
    out = canon_expr(e)
    for _ in range(3):
        out = T().visit(out)
        out = _E1(None).visit(out)
    return out


def _path_of(e):
    """Text of the chain of a name / attribute / subscript expression, or None."""
    b = e
    while isinstance(b, (ast.Attribute, ast.Subscript)):
        b = b.value
    return ast.unparse(e) if isinstance(b, ast.Name) else None


def _unalias(c, candidates_only=False):
    """`x = A.b[i]` with x bound once: x is another name for that slot, and reads as it (also where it is assigned through or receives a
    mutating call - the object is the same).  Conditions: the right-hand side is a chain of attribute reads / subscripts (and + - of
    names and integers in the indices); every name in it is never re-bound, or is the variable of a loop that holds the binding, or is
    bound once before it in the same loop body; no statement of the function re-binds the slot or a prefix of it (`A.b[i] = ..`,
    `A.b = ..`, `del`), and no mutating call is made on a proper prefix (`A.b.append(..)`)."""
    stores = {}
    binder = {}
    for n in ast.walk(c):
        if isinstance(n, ast.Name) and isinstance(n.ctx, (ast.Store, ast.Del)):
            stores[n.id] = stores.get(n.id, 0) + 1
        if isinstance(n, (ast.Global, ast.Nonlocal)):
            for x in n.names:
                stores[x] = 99
    params = {a.arg for a in c.args.posonlyargs + c.args.args + c.args.kwonlyargs} | \
        {a.arg for a in (c.args.vararg, c.args.kwarg) if a is not None}
    parents = {}
    for n in ast.walk(c):
        for ch in ast.iter_child_nodes(n):
            parents[id(ch)] = n

    def loops_of(n):
        out = []
        while id(n) in parents:
            n = parents[id(n)]
            if isinstance(n, (ast.For, ast.While)):
                out.append(n)
        return out
    for n in ast.walk(c):
        if isinstance(n, ast.For):
            for t in ast.walk(n.target):
                if isinstance(t, ast.Name):
                    binder[t.id] = n
        elif isinstance(n, ast.Assign):
            for t in n.targets:
                for x in ast.walk(t):
                    if isinstance(x, ast.Name) and isinstance(x.ctx, ast.Store):
                        binder.setdefault(x.id, n)
    store_paths, mut_paths = [], []
    for n in ast.walk(c):
        if isinstance(n, (ast.Attribute, ast.Subscript)) and isinstance(n.ctx, (ast.Store, ast.Del)):
            p_ = _path_of(n)
            if p_:
                store_paths.append(p_)
        if isinstance(n, ast.AugAssign):
            p_ = _path_of(n.target)
            if p_:
                store_paths.append(p_)
        if isinstance(n, ast.Call) and isinstance(n.func, ast.Attribute) and n.func.attr in MUTATING:
            p_ = _path_of(n.func.value)
            if p_:
                mut_paths.append(p_)
    mapping, drop = {}, set()
    for n in ast.walk(c):
        if not (isinstance(n, ast.Assign) and len(n.targets) == 1 and isinstance(n.targets[0], ast.Name)):
            continue
        x = n.targets[0].id
        v = n.value
        if stores.get(x) != 1 or x in params or not isinstance(v, (ast.Attribute, ast.Subscript)):
            continue
        if not all(isinstance(y, (ast.Name, ast.Attribute, ast.Subscript, ast.Constant, ast.expr_context, ast.BinOp, ast.Add, ast.Sub, ast.UnaryOp, ast.USub))
                   for y in ast.walk(v)):
            continue
        path = _path_of(v)
        if path is None:
            continue
        if any(path == sp or path.startswith(sp + '[') or path.startswith(sp + '.') for sp in store_paths):
            continue
        if any(path != mp and (path.startswith(mp + '[') or path.startswith(mp + '.')) for mp in mut_paths):
            continue
        my_loops = loops_of(n)

        def steady(y):
            if stores.get(y, 0) == 0:
                return True
            if stores.get(y) != 1 or y in params:
                return False
            b = binder.get(y)
            if isinstance(b, ast.For):
                return any(z is n for st in b.body for z in ast.walk(st))
            if isinstance(b, ast.Assign):
                lb = loops_of(b)
                return [id(l) for l in lb] == [id(l) for l in my_loops][-len(lb):] if lb else True and \
                    (getattr(b, 'lineno', 0), getattr(b, 'col_offset', 0)) < (getattr(n, 'lineno', 0), getattr(n, 'col_offset', 0))
            return False
        free = {y.id for y in ast.walk(v) if isinstance(y, ast.Name)}
        if x in free or not all(steady(y) for y in free):
            continue
        # every use must come after the binding, inside the innermost loop that holds it (or anywhere after, when it is in no loop)
        scope = my_loops[0] if my_loops else c
        inside = sum(1 for z in ast.walk(scope) if isinstance(z, ast.Name) and z.id == x and isinstance(z.ctx, ast.Load))
        total = sum(1 for z in ast.walk(c) if isinstance(z, ast.Name) and z.id == x and isinstance(z.ctx, ast.Load))
        if inside != total or total == 0:
            continue
        if any((getattr(z, 'lineno', 0), getattr(z, 'col_offset', 0)) < (n.lineno, n.col_offset) for z in ast.walk(scope)
               if isinstance(z, ast.Name) and z.id == x and isinstance(z.ctx, ast.Load)):
            continue
        mapping[x] = v
        drop.add(id(n))
    if candidates_only:
        return mapping
    if not mapping:
        return False
    for n in ast.walk(c):
        for fld in ('body', 'orelse', 'finalbody'):
            v = getattr(n, fld, None)
            if isinstance(v, list) and v and isinstance(v[0], ast.stmt):
                kept = [st for st in v if id(st) not in drop]
                if len(kept) != len(v):
                    setattr(n, fld, kept or [ast.Pass()])

    def resolve(e, depth=0):
        class R(ast.NodeTransformer):
            def visit_Name(self, m):
                if isinstance(m.ctx, ast.Load) and m.id in mapping and depth < 8:
                    return ast.copy_location(resolve(clone(mapping[m.id]), depth + 1), m)
                return m
        return R().visit(e)
    for n in list(ast.walk(c)):
        for fld, val in ast.iter_fields(n):
            if isinstance(val, ast.Name) and isinstance(val.ctx, ast.Load) and val.id in mapping:
                setattr(n, fld, ast.copy_location(resolve(clone(mapping[val.id])), val))
            elif isinstance(val, list):
                for i_, x in enumerate(val):
                    if isinstance(x, ast.Name) and isinstance(x.ctx, ast.Load) and x.id in mapping:
                        val[i_] = ast.copy_location(resolve(clone(mapping[x.id])), x)
    ast.fix_missing_locations(c)
    return True


def plain_aliases(fn):
    """The rules' view of a function whose locals alias slots of its data (`done = chunkDone[d]`): see _unalias."""
    c = clone(fn)
    return c if _unalias(c) else fn


def _max_idiom(fn):
    """if A < B: A = B   ->   A = max(A, B)      (A a name / attribute / subscript chain, B effect-free; one comparison either way)"""
    changed = False
    for owner in ast.walk(fn):
        for fld in ('body', 'orelse', 'finalbody'):
            body = getattr(owner, fld, None)
            if not (isinstance(body, list) and body and isinstance(body[0], ast.stmt)) or isinstance(owner, ast.Lambda):
                continue
            for i, st in enumerate(body):
                if isinstance(st, ast.If) and not st.orelse and len(st.body) == 1 and isinstance(st.body[0], ast.Assign) and len(st.body[0].targets) == 1 \
                        and isinstance(st.test, ast.Compare) and len(st.test.ops) == 1 and isinstance(st.test.ops[0], (ast.Lt, ast.Gt)):
                    a_, b_ = st.test.left, st.test.comparators[0]
                    if isinstance(st.test.ops[0], ast.Gt):
                        a_, b_ = b_, a_
                    tgt, val = st.body[0].targets[0], st.body[0].value
                    if _path_of(tgt) and ast.unparse(tgt) == ast.unparse(a_) and ast.dump(val) == ast.dump(b_) and _pure_expr(b_) and _pure_expr(a_):
                        new = ast.Assign(targets=[tgt], value=ast.Call(func=ast.Name(id='max', ctx=ast.Load()), args=[a_, b_], keywords=[]), type_comment=None)
                        body[i] = ast.fix_missing_locations(ast.copy_location(new, st))
                        changed = True
    return changed


def plain_argument_temps(fn):
    """For the rules' view of a function with inlined helpers: a temporary the inliner made for an argument (`_h3_x = data.shape`) that
    is a plain reference (names, attributes, subscripts, constants) is read as that reference again, provided the temporary is bound once
    and none of its operands is re-bound in the function.  (The normal-form comparison keeps the temporaries: evaluating `args[1]` later
    than the call would is not behaviour-preserving in general; for matching shapes in rules it is what the reader means.)"""
    c = clone(fn)
    stores = {}
    for n in ast.walk(c):
        if isinstance(n, ast.Name) and isinstance(n.ctx, (ast.Store, ast.Del)):
            stores[n.id] = stores.get(n.id, 0) + 1
    params = {a.arg for a in c.args.posonlyargs + c.args.args + c.args.kwonlyargs}
    mapping = {}
    drop = set()
    for n in ast.walk(c):
        if isinstance(n, ast.Assign) and len(n.targets) == 1 and isinstance(n.targets[0], ast.Name) and re.match(r'_[hg]\d+_', n.targets[0].id) \
                and stores.get(n.targets[0].id) == 1:
            v = n.value
            plain = all(isinstance(x, (ast.Name, ast.Attribute, ast.Subscript, ast.Constant, ast.expr_context, ast.Tuple, ast.Slice, ast.UnaryOp, ast.USub, ast.BinOp, ast.Add))
                        or (isinstance(x, ast.Call) and isinstance(x.func, ast.Attribute) and x.func.attr in ('upper', 'lower', 'strip') and not x.args and not x.keywords)
                        for x in ast.walk(v))
            free = {x.id for x in ast.walk(v) if isinstance(x, ast.Name)}
            def steady(x, at=n):
                if stores.get(x, 0) == 0:
                    return True
                if x in params:
                    return False
                # the variable of a loop that holds the temporary: one value per pass, as for the temporary (the name may serve several
                # loops one after the other, but is bound by loops only)
                loops = [lp for lp in ast.walk(c) if isinstance(lp, ast.For) and any(isinstance(t, ast.Name) and t.id == x for t in ast.walk(lp.target))]
                if len(loops) != stores.get(x):
                    return False
                inside = [lp for lp in loops if any(y is at for b in lp.body for y in ast.walk(b))]
                return len(inside) == 1 and not any(l2 is not inside[0] and any(y is l2 for y in ast.walk(inside[0])) for l2 in loops)
            if plain and all(steady(x) for x in free):
                mapping[n.targets[0].id] = v
                drop.add(id(n))
    if not mapping:
        return fn

    class T(ast.NodeTransformer):
        def visit_Name(self, n):
            if isinstance(n.ctx, ast.Load) and n.id in mapping:
                return ast.copy_location(clone(mapping[n.id]), n)
            return n
    for n in ast.walk(c):
        for fld in ('body', 'orelse', 'finalbody'):
            v = getattr(n, fld, None)
            if isinstance(v, list) and v and isinstance(v[0], ast.stmt):
                kept = [st for st in v if id(st) not in drop]
                if len(kept) != len(v):
                    setattr(n, fld, kept or [ast.Pass()])
    T().visit(c)
    ast.fix_missing_locations(c)
    return c

"""Command line: ./check --property C06 --tier quick|thorough | --replay <file> | --setup | --all"""

import argparse
import importlib
import json
import os
import sys
import time
import traceback

from . import AnalysisError
from .loader import Repo
from . import report

REPO_ROOT = os.environ.get('PYDLSA_REPO', '/repo')
ALL = ['C%02d' % i for i in range(1, 21) if i != 14]


# property -> [(owner property, None = all its rules | set of rule ids)]: helper coverage by call-graph reachability
BORROWS = {
    'C01': [('C02', None)],
    'C02': [('C01', {'C01.TYPEMAP', 'C01.INTCONV', 'C01.PAIRS'})],            # convert() and the type tables are shared by writer and reader                         # what was written must read back: the reader's rules
    'C03': [('C01', None), ('C02', None)],          # append/write render rows like the writer, and are re-read
    'C07': [('C02', None)],                         # the maskbits cache is filled by the yanny reader
    'C09': [('C08', None)],                         # fit -> action -> intrv / bsplvn
    'C10': [('C08', None), ('C09', None), ('C17', {'C17.REJ-MASKS', 'C17.GROW', 'C17.INMASK-TRUTH'})],      # iterfit -> fit / value / djs_reject
    'C11': [('C10', None), ('C08', None), ('C09', None),
            ('C17', {'C17.REJ-MASKS', 'C17.GROW', 'C17.INMASK-TRUTH', 'C17.AESTH', 'C17.MI-SITES', 'C17.MI1-STORE', 'C17.MI1-ORDER', 'C17.SMOOTH'})],
    'C12': [('C18', {'C18.ANG-INV', 'C18.FLOAT-OUT'})],              # RA/Dec input goes through angles_to_x
    'C13': [('C17', {'C17.REJ-MASKS', 'C17.GROW', 'C17.INMASK-TRUTH'})],    # xy2traceset rejects through djs_reject
    'C15': [('C17', {'C17.REJ-MASKS', 'C17.GROW', 'C17.INMASK-TRUTH'})],    # pca_solve rejects through djs_reject
    'C19': [('C17', {'C17.MI-SITES', 'C17.MI1-STORE', 'C17.MI1-ORDER'}),               # filter_thru -> djs_maskinterp
            ('C13', None)],                                                            #             -> traceset2xy
}


def rule_module(prop):
    try:
        return importlib.import_module('pydlsa.rules.' + prop.lower())
    except ModuleNotFoundError as e:
        if e.name and e.name.startswith('pydlsa.rules.'):
            raise AnalysisError('rules for %s are not built' % prop)
        raise


def evaluate(prop, repo, tier='quick', borrow=True):
    """Run the property's rules against a Repo; returns the Ctx (violations not yet triaged)."""
    mod = rule_module(prop)
    ctx = report.Ctx(prop, repo, tier)
    try:
        mod.run(ctx)
    except AnalysisError as e:
        if not ctx.violations:
            raise
        # violations already established stand; the rest of the rules could not be evaluated
        ctx.notes['analysis_error_after_violations'] = str(e)
        print('NOTE property=%s: remaining rules not evaluated (%s)' % (prop, e))
    ctx.own_functions = dict(ctx.functions)
    # Rules of helper functions on this property's code path are owned by another property's module; they are evaluated here
    # too (under their own rule ids), so that a change in a helper is reported by every property that depends on it.
    for owner, only in (BORROWS.get(prop, []) if borrow else []):
        omod = rule_module(owner)
        sub = report.Ctx(prop, repo, tier)
        try:
            omod.run(sub)
        except AnalysisError as e:
            if not sub.violations and not ctx.violations:
                raise AnalysisError('%s (while evaluating the helper rules borrowed from %s)' % (e, owner))
            ctx.notes['analysis_error_after_violations'] = str(e)
        keep = (lambda r: True) if only is None else (lambda r: r in only)
        n = 0
        for o in sub.obligations:
            if keep(o['rule']):
                ctx.obligations.append(o)
                ctx.rule_counts[o['rule']] = ctx.rule_counts.get(o['rule'], 0) + 1
                n += 1
        for v in sub.violations:
            if keep(v.rule):
                ctx.violations.append(v)
        for k, fdesc in sub.functions.items():
            ctx.functions.setdefault(k, fdesc)
        ctx.notes.setdefault('borrowed_rules', {})[owner] = {
            'rules': sorted({o['rule'] for o in sub.obligations if keep(o['rule'])}), 'obligations': n,
            'why': 'functions these rules anchor in are called on the code path of %s' % prop}
    if not ctx.violations:
        # a tree that violates a rule may legitimately show fewer instances of the others
        ctx.enforce_floors(mod.META.get('floors', {}))
    return ctx, mod


def run_property(prop, tier, quiet=False):
    t0 = time.time()
    seed = int(os.environ.get('VERIF_SEED', '0') or 0)
    try:
        repo = Repo(REPO_ROOT)
        ctx, mod = evaluate(prop, repo, tier)
        selftest = None
        if tier == 'thorough':
            from . import selftest as st
            selftest = st.run_for(prop, repo)
            from . import fuzz
            fz = fuzz.run_for(prop, repo, list(getattr(ctx, 'own_functions', ctx.functions)))
            selftest['harmless_edit_fuzz'] = {k: v for k, v in fz.items() if k != 'no_verdict_cases'}
            selftest['harmless_edit_fuzz']['no_verdict_examples'] = fz['no_verdict_cases'][:5]
            for fa_ in fz['false_alarms']:
                selftest['failed'].append('harmless edit reported: ' + fa_)
            if hasattr(mod, 'sweep'):
                mod.sweep(ctx)
        new, known = report.split_known(ctx.violations)
        for v, k in known:
            print('KNOWN-FINDING: property=%s %s %s: %s' % (prop, v.rule, v.function, k.get('what', v.msg)))
        n = 0
        for v in new:
            n += 1
            path = report.write_replay(v, n)
            print(v.human())
            print('VIOLATION property=%s replay=%s' % (prop, path))
        report.write_evidence(prop, tier, ctx, mod.META, time.time() - t0, new, known, selftest, seed)
        if selftest is not None and selftest.get('failed'):
            for f in selftest['failed']:
                print('ANALYSIS-ERROR self-test: %s' % f)
            print('ANALYSIS-ERROR property=%s: checker self-validation failed (%d case(s)); no verdict'
                  % (prop, len(selftest['failed'])))
            return 2
        if not quiet:
            rc = ctx.rule_counts
            print('%s %s: %d obligations over %d functions, %d rules (%s); %d violation(s), %d known; %.2fs%s'
                  % (prop, tier, len(ctx.obligations), len(ctx.functions), len(rc),
                     ', '.join('%s=%d' % (k.split('.', 1)[-1] if k.startswith(prop + '.') else k, rc[k]) for k in sorted(rc, key=lambda k: (not k.startswith(prop + '.'), k))),
                     len(new), len(known), time.time() - t0,
                     ('; self-test %d/%d breaking edits reported, %d/%d harmless rewrites silent, %d/%d fuzzed harmless edits silent (%d no verdict)'
                      % (selftest['killed'], selftest['mutants'], selftest['silent'], selftest['refactors'],
                         selftest['harmless_edit_fuzz']['silent'], selftest['harmless_edit_fuzz']['variants'], selftest['harmless_edit_fuzz']['no_verdict']))
                     if selftest else ''))
        return 1 if new else 0
    except AnalysisError as e:
        print('ANALYSIS-ERROR property=%s: %s' % (prop, e))
        report.write_error_evidence(prop, tier, str(e), time.time() - t0, seed)
        return 2
    except Exception as e:      # never a traceback with exit 1
        traceback.print_exc(file=sys.stdout)
        print('ANALYSIS-ERROR property=%s: internal error %s: %s' % (prop, type(e).__name__, e))
        report.write_error_evidence(prop, tier, 'internal error %s: %s' % (type(e).__name__, e),
                                    time.time() - t0, seed)
        return 2


def replay(path):
    with open(path) as fh:
        rec = json.load(fh)
    prop = rec['property']
    try:
        repo = Repo(REPO_ROOT)
        ctx, mod = evaluate(prop, repo)
    except AnalysisError as e:
        print('ANALYSIS-ERROR property=%s: %s' % (prop, e))
        return 2
    key = (rec['property'], rec['rule'], rec['function'], report.norm_construct(rec['construct']))
    hits = [v for v in ctx.violations if v.key() == key]
    if hits:
        for v in hits:
            print(v.human())
        print('VIOLATION property=%s replay=%s' % (prop, path))
        print('replay: the recorded obligation still fails on the current tree')
        return 1
    same_rule = [v for v in ctx.violations if v.rule == rec['rule'] and v.function == rec['function']]
    if same_rule:
        print('replay: the recorded construct is gone, but the same rule fails in the same function:')
        for v in same_rule:
            print('  ' + v.human())
        print('VIOLATION property=%s replay=%s' % (prop, path))
        return 1
    print('replay: obligation %s in %s is discharged on the current tree' % (rec['rule'], rec['function']))
    return 0


def setup():
    try:
        repo = Repo(REPO_ROOT)
    except AnalysisError as e:
        print('ANALYSIS-ERROR setup: %s' % e)
        return 2
    nf = sum(1 for _ in repo.all_funcs())
    print('setup: interpreter %s; parsed %d modules, %d functions under %s/pydl; nothing to build'
          % (sys.version.split()[0], len(repo.modules), nf, REPO_ROOT))
    missing = []
    for p in ALL:
        try:
            rule_module(p)
        except AnalysisError as e:
            missing.append(p)
    if missing:
        print('setup: rule modules not built: %s' % ' '.join(missing))
    os.makedirs(report.REPLAY_DIR, exist_ok=True)
    return 0


def main(argv=None):
    ap = argparse.ArgumentParser(prog='check')
    ap.add_argument('--property', '-p')
    ap.add_argument('--tier', default=os.environ.get('VERIF_TIER') or 'quick', choices=['quick', 'thorough'])
    ap.add_argument('--replay')
    ap.add_argument('--setup', action='store_true')
    ap.add_argument('--all', action='store_true')
    a = ap.parse_args(argv)
    if a.setup:
        return setup()
    if a.replay:
        return replay(a.replay)
    if a.all:
        worst = 0
        for p in ALL:
            try:
                rule_module(p)
            except AnalysisError:
                print('%s: not built' % p)
                continue
            worst = max(worst, run_property(p, a.tier))
        return worst
    if not a.property:
        ap.error('one of --property, --replay, --setup, --all is required')
    return run_property(a.property.upper(), a.tier)


if __name__ == '__main__':
    try:
        rc = main()
        sys.stdout.flush()
    except BrokenPipeError:
        rc = 2
        os.dup2(os.open(os.devnull, os.O_WRONLY), sys.stdout.fileno())
    sys.exit(rc)

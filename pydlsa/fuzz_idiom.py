"""Fourth harmless-edit fuzzer (thorough tier): idiom-level respellings a maintainer makes without changing behaviour.

Every generator takes a private copy of one function definition, rewrites ONE site, and yields (description, new function
node).  The caller splices the unparsed function back into the module source.  Classes:

  cmpflip    a < b            ->  b > a            (also <=, >, >=)
  ifinvert   if c: A else: B  ->  if not c: B else: A
  ifmerge    if a: if b: X    ->  if a and b: X         and the reverse split
  inline     v = e; S(v)      ->  S(e)                  v used exactly once, S a simple statement
  extract    S(f(e, ...))     ->  _t = e; S(f(_t, ...)) first positional argument of the outer call
  kwarg      f(a, b)          ->  f(a, name=b)          callee resolved inside the package; and keyword -> positional
  elsedrop   if c: ...return  else: B  ->  if c: ...return; B      and the reverse
  nonzero    np.where(c)[0]   <-> c.nonzero()[0] <-> np.nonzero(c)[0]
  elsepass   if c: A          ->  if c: A else: pass
  notop      not a == b -> a != b, not a is b -> a is not b, not a in b -> a not in b      and the reverse
  retnone    return           <-> return None
  dtype      dtype='d'        ->  dtype=np.float64   ('f8','i4','i8','u8' likewise)
  slice0     x[0:n]           <-> x[:n]
  range0     range(n)         ->  range(0, n)
  untuple    a, b = x, y      ->  a = x; b = y           when y does not read a
  annot      type hints added to the parameters and the return value
  newparam   an unused trailing keyword parameter `_reserved=None` added
  deadstore  an unused `_checkpoint = 0` inserted
  constname  a numeric literal bound to a local name first (`_k = 16384; ... _k`)
"""

import ast
import copy

MIRROR = {ast.Lt: ast.Gt, ast.Gt: ast.Lt, ast.LtE: ast.GtE, ast.GtE: ast.LtE}
SIMPLE = (ast.Assign, ast.AugAssign, ast.Return, ast.Expr)
DTYPES = {'d': 'float64', 'f8': 'float64', 'i4': 'int32', 'i8': 'int64', 'u8': 'uint64', 'f4': 'float32', 'i2': 'int16'}


def _nodes(fn):
    """Deterministic pre-order list of the nodes of fn, not entering nested defs / classes / lambdas."""
    out = []

    def rec(n):
        out.append(n)
        for c in ast.iter_child_nodes(n):
            if isinstance(c, (ast.FunctionDef, ast.AsyncFunctionDef, ast.ClassDef, ast.Lambda)) and c is not fn:
                continue
            rec(c)
    rec(fn)
    return out


def _blocks(fn):
    out = []
    for n in _nodes(fn):
        for fld in ('body', 'orelse', 'finalbody'):
            v = getattr(n, fld, None)
            if isinstance(v, list) and v and isinstance(v[0], ast.stmt):
                out.append((n, fld))
        if isinstance(n, ast.Try):
            for h in n.handlers:
                pass
    return out


def _edit(fn, index, fun):
    """Copy fn, apply fun to the index-th node of the copy, return the copy (or None when fun declines)."""
    c = copy.deepcopy(fn)
    node = _nodes(c)[index]
    if fun(node, c) is False:
        return None
    ast.fix_missing_locations(c)
    return c


def _count_name(fn, name):
    return sum(1 for n in ast.walk(fn) if isinstance(n, ast.Name) and n.id == name)


def _terminal(st):
    return isinstance(st, (ast.Return, ast.Raise, ast.Continue, ast.Break))


def _replace_child(root, old, new):
    for n in ast.walk(root):
        for f, v in ast.iter_fields(n):
            if v is old:
                setattr(n, f, new)
                return True
            if isinstance(v, list):
                for i, x in enumerate(v):
                    if x is old:
                        v[i] = new
                        return True
    return False


def variants(fn, resolve_callee=None):
    """Yield (class, description, thunk building the new function node or None)."""
    nodes = _nodes(fn)
    for i, n in enumerate(nodes):
        ln = getattr(n, 'lineno', 0)
        # ---- cmpflip
        if isinstance(n, ast.Compare) and len(n.ops) == 1 and type(n.ops[0]) in MIRROR:
            def f(x, c):
                x.left, x.comparators[0] = x.comparators[0], x.left
                x.ops = [MIRROR[type(x.ops[0])]()]
            yield 'cmpflip', 'line %d' % ln, (lambda i=i, f=f: _edit(fn, i, f))
        # ---- notop
        if isinstance(n, ast.UnaryOp) and isinstance(n.op, ast.Not) and isinstance(n.operand, ast.Compare) and len(n.operand.ops) == 1 \
                and isinstance(n.operand.ops[0], (ast.Eq, ast.NotEq, ast.Is, ast.IsNot, ast.In, ast.NotIn)):
            def f(x, c):
                inv = {ast.Eq: ast.NotEq, ast.NotEq: ast.Eq, ast.Is: ast.IsNot, ast.IsNot: ast.Is, ast.In: ast.NotIn, ast.NotIn: ast.In}
                new = x.operand
                new.ops = [inv[type(new.ops[0])]()]
                return _replace_child(c, x, new)
            yield 'notop', 'line %d not-compare folded' % ln, (lambda i=i, f=f: _edit(fn, i, f))
        if isinstance(n, ast.Compare) and len(n.ops) == 1 and isinstance(n.ops[0], (ast.IsNot, ast.NotIn)):
            def f(x, c):
                inv = {ast.IsNot: ast.Is, ast.NotIn: ast.In}
                inner = ast.Compare(left=x.left, ops=[inv[type(x.ops[0])]()], comparators=x.comparators)
                return _replace_child(c, x, ast.UnaryOp(op=ast.Not(), operand=inner))
            yield 'notop', 'line %d negated compare unfolded' % ln, (lambda i=i, f=f: _edit(fn, i, f))
        # ---- if statements
        if isinstance(n, ast.If):
            if n.orelse and not (len(n.orelse) == 1 and isinstance(n.orelse[0], ast.If)):
                def f(x, c):
                    x.test = x.test.operand if isinstance(x.test, ast.UnaryOp) and isinstance(x.test.op, ast.Not) \
                        else ast.UnaryOp(op=ast.Not(), operand=x.test)
                    x.body, x.orelse = x.orelse, x.body
                yield 'ifinvert', 'line %d' % ln, (lambda i=i, f=f: _edit(fn, i, f))
            if not n.orelse and len(n.body) == 1 and isinstance(n.body[0], ast.If) and not n.body[0].orelse:
                def f(x, c):
                    inner = x.body[0]
                    x.test = ast.BoolOp(op=ast.And(), values=[x.test, inner.test])
                    x.body = inner.body
                yield 'ifmerge', 'line %d nested ifs merged' % ln, (lambda i=i, f=f: _edit(fn, i, f))
            if not n.orelse and isinstance(n.test, ast.BoolOp) and isinstance(n.test.op, ast.And) and len(n.test.values) == 2:
                def f(x, c):
                    a, b = x.test.values
                    x.body = [ast.If(test=b, body=x.body, orelse=[])]
                    x.test = a
                yield 'ifmerge', 'line %d conjunction split into nested ifs' % ln, (lambda i=i, f=f: _edit(fn, i, f))
            if not n.orelse:
                def f(x, c):
                    x.orelse = [ast.Pass()]
                yield 'elsepass', 'line %d' % ln, (lambda i=i, f=f: _edit(fn, i, f))
        # ---- return / return None
        if isinstance(n, ast.Return):
            if n.value is None:
                def f(x, c):
                    x.value = ast.Constant(value=None)
                yield 'retnone', 'line %d' % ln, (lambda i=i, f=f: _edit(fn, i, f))
            elif isinstance(n.value, ast.Constant) and n.value.value is None:
                def f(x, c):
                    x.value = None
                yield 'retnone', 'line %d' % ln, (lambda i=i, f=f: _edit(fn, i, f))
        # ---- dtype strings
        if isinstance(n, ast.keyword) and n.arg == 'dtype' and isinstance(n.value, ast.Constant) and n.value.value in DTYPES:
            def f(x, c):
                x.value = ast.Attribute(value=ast.Name(id='np', ctx=ast.Load()), attr=DTYPES[x.value.value], ctx=ast.Load())
            yield 'dtype', 'line %d' % ln, (lambda i=i, f=f: _edit(fn, i, f))
        # ---- slices
        if isinstance(n, ast.Slice) and n.step is None:
            if isinstance(n.lower, ast.Constant) and n.lower.value == 0 and type(n.lower.value) is int:
                def f(x, c):
                    x.lower = None
                yield 'slice0', 'lower bound 0 dropped', (lambda i=i, f=f: _edit(fn, i, f))
            elif n.lower is None and n.upper is not None:
                def f(x, c):
                    x.lower = ast.Constant(value=0)
                yield 'slice0', 'lower bound 0 added', (lambda i=i, f=f: _edit(fn, i, f))
        # ---- calls
        if isinstance(n, ast.Call):
            if isinstance(n.func, ast.Name) and n.func.id == 'range' and len(n.args) == 1 and not n.keywords:
                def f(x, c):
                    x.args = [ast.Constant(value=0)] + x.args
                yield 'range0', 'line %d' % ln, (lambda i=i, f=f: _edit(fn, i, f))
            if resolve_callee is not None:
                info = resolve_callee(n)
                if info is not None:
                    params, offset = info[:2]          # positional parameter names of the callee, 1 if bound method
                    k = len(n.args)
                    if k >= 1 and not any(isinstance(a, ast.Starred) for a in n.args) and k - 1 + offset < len(params) \
                            and not any(kw.arg is None for kw in n.keywords):
                        pname = params[k - 1 + offset]

                        def f(x, c, pname=pname):
                            last = x.args.pop()
                            x.keywords = [ast.keyword(arg=pname, value=last)] + x.keywords
                        yield 'kwarg', 'line %d last positional -> %s=' % (ln, pname), (lambda i=i, f=f: _edit(fn, i, f))
                    if n.keywords and n.keywords[0].arg is not None and k + offset < len(params) and params[k + offset] == n.keywords[0].arg \
                            and not any(isinstance(a, ast.Starred) for a in n.args):
                        def f(x, c):
                            kw = x.keywords.pop(0)
                            x.args.append(kw.value)
                        yield 'kwarg', 'line %d %s= -> positional' % (ln, n.keywords[0].arg), (lambda i=i, f=f: _edit(fn, i, f))
        # ---- nonzero idioms:  np.where(c)[0] / np.nonzero(c)[0] / c.nonzero()[0]
        if isinstance(n, ast.Subscript) and isinstance(n.slice, ast.Constant) and n.slice.value == 0 and isinstance(n.value, ast.Call):
            call = n.value
            fnc = call.func
            if isinstance(fnc, ast.Attribute) and isinstance(fnc.value, ast.Name) and fnc.value.id == 'np' and fnc.attr in ('where', 'nonzero') \
                    and len(call.args) == 1 and not call.keywords:
                def f(x, c):
                    a = x.value.args[0]
                    x.value = ast.Call(func=ast.Attribute(value=a, attr='nonzero', ctx=ast.Load()), args=[], keywords=[])
                yield 'nonzero', 'line %d np.%s(c)[0] -> c.nonzero()[0]' % (ln, fnc.attr), (lambda i=i, f=f: _edit(fn, i, f))

                def f(x, c):
                    x.value.func.attr = 'nonzero' if x.value.func.attr == 'where' else 'where'
                yield 'nonzero', 'line %d np.where <-> np.nonzero' % ln, (lambda i=i, f=f: _edit(fn, i, f))
            elif isinstance(fnc, ast.Attribute) and fnc.attr == 'nonzero' and not call.args and not call.keywords:
                def f(x, c):
                    recv = x.value.func.value
                    x.value = ast.Call(func=ast.Attribute(value=ast.Name(id='np', ctx=ast.Load()), attr='where', ctx=ast.Load()), args=[recv], keywords=[])
                yield 'nonzero', 'line %d c.nonzero()[0] -> np.where(c)[0]' % ln, (lambda i=i, f=f: _edit(fn, i, f))
    # ---- a literal gets a local name
    lits = [(i, n) for i, n in enumerate(nodes) if isinstance(n, ast.Constant) and isinstance(n.value, (int, float)) and not isinstance(n.value, bool)
            and n.value not in (0, 1, -1, 2) and not isinstance(getattr(n, '_parent', None), ast.keyword)]
    for i, n in lits[:6]:
        def f(x, c, val=n.value):
            nm = '_k_%s' % str(abs(hash(repr(val))) % 10000)
            ok = _replace_child(c, x, ast.Name(id=nm, ctx=ast.Load()))
            pos = 1 if (c.body and isinstance(c.body[0], ast.Expr) and isinstance(c.body[0].value, ast.Constant)) else 0
            c.body.insert(pos, ast.Assign(targets=[ast.Name(id=nm, ctx=ast.Store())], value=ast.Constant(value=val)))
            return ok
        yield 'constname', 'line %d literal %r named' % (getattr(n, 'lineno', 0), n.value), (lambda i=i, f=f: _edit(fn, i, f))
    # ---- signature-level rewrites
    def sig_annot():
        c = copy.deepcopy(fn)
        for a in c.args.args:
            if a.arg not in ('self', 'cls'):
                a.annotation = ast.Name(id='object', ctx=ast.Load())
        c.returns = ast.Name(id='object', ctx=ast.Load())
        ast.fix_missing_locations(c)
        return c
    yield 'annot', 'type hints added', sig_annot

    def sig_param():
        c = copy.deepcopy(fn)
        if c.args.vararg or c.args.kwarg or c.args.kwonlyargs:
            return None
        c.args.args.append(ast.arg(arg='_reserved', annotation=None))
        c.args.defaults.append(ast.Constant(value=None))
        ast.fix_missing_locations(c)
        return c
    yield 'newparam', 'unused trailing keyword parameter added', sig_param

    def dead_store(pos):
        def thunk():
            c = copy.deepcopy(fn)
            body = c.body
            k = min(pos, len(body))
            if k == 0 and body and isinstance(body[0], ast.Expr) and isinstance(body[0].value, ast.Constant):
                k = 1
            body.insert(k, ast.Assign(targets=[ast.Name(id='_checkpoint', ctx=ast.Store())], value=ast.Constant(value=0)))
            ast.fix_missing_locations(c)
            return c
        return thunk
    for pos in (1, max(1, len(fn.body) // 2), len(fn.body) - 1):
        yield 'deadstore', 'unused `_checkpoint = 0` inserted at %d' % pos, dead_store(pos)
    # ---- block-level rewrites
    def block_edit(bi, fun):
        def thunk():
            c = copy.deepcopy(fn)
            o2, f2 = _blocks(c)[bi]
            fun(getattr(o2, f2), c)
            ast.fix_missing_locations(c)
            return c
        return thunk
    blocks = _blocks(fn)
    for bi, (owner, fld) in enumerate(blocks):
        body = getattr(owner, fld)
        for si, st in enumerate(body):
            # inline a single-use temporary
            if si + 1 < len(body) and isinstance(st, ast.Assign) and len(st.targets) == 1 and isinstance(st.targets[0], ast.Name) \
                    and isinstance(body[si + 1], SIMPLE):
                v = st.targets[0].id
                nxt = body[si + 1]
                uses = [x for x in ast.walk(nxt) if isinstance(x, ast.Name) and x.id == v]
                inside_lambda = any(isinstance(x, (ast.Lambda, ast.ListComp, ast.GeneratorExp, ast.DictComp, ast.SetComp)) for x in ast.walk(nxt))
                if len(uses) == 1 and isinstance(uses[0].ctx, ast.Load) and _count_name(fn, v) == 2 and not inside_lambda:
                    def f(b2, c, si=si, v=v):
                        use = [x for x in ast.walk(b2[si + 1]) if isinstance(x, ast.Name) and x.id == v][0]
                        _replace_child(b2[si + 1], use, b2[si].value)
                        del b2[si]
                    yield 'inline', 'line %d temporary %s inlined' % (st.lineno, v), block_edit(bi, f)
            # extract the first argument of the outer call into a temporary
            val = getattr(st, 'value', None) if isinstance(st, (ast.Assign, ast.Return, ast.Expr)) else None
            if isinstance(val, ast.Call) and val.args and not isinstance(val.args[0], (ast.Name, ast.Constant, ast.Starred)) \
                    and not any(isinstance(x, ast.Call) for x in ast.walk(val.func)):
                def f(b2, c, si=si):
                    call = b2[si].value
                    tmp = '_arg0'
                    k = 0
                    while _count_name(fn, tmp):
                        k += 1
                        tmp = '_arg0_%d' % k
                    b2.insert(si, ast.Assign(targets=[ast.Name(id=tmp, ctx=ast.Store())], value=call.args[0]))
                    call.args[0] = ast.Name(id=tmp, ctx=ast.Load())
                yield 'extract', 'line %d first argument extracted' % st.lineno, block_edit(bi, f)
            # if ...terminal / else: B   <->  if ...terminal; B
            if isinstance(st, ast.If) and st.body and _terminal(st.body[-1]):
                if st.orelse and not (len(st.orelse) == 1 and isinstance(st.orelse[0], ast.If)):
                    def f(b2, c, si=si):
                        tail = b2[si].orelse
                        b2[si].orelse = []
                        b2[si + 1:si + 1] = tail
                    yield 'elsedrop', 'line %d else after terminal branch dropped' % st.lineno, block_edit(bi, f)
                elif not st.orelse and si + 1 < len(body):
                    def f(b2, c, si=si):
                        b2[si].orelse = b2[si + 1:]
                        del b2[si + 1:]
                    yield 'elsedrop', 'line %d rest of block moved into else' % st.lineno, block_edit(bi, f)
            # a, b = x, y  ->  a = x; b = y
            if isinstance(st, ast.Assign) and len(st.targets) == 1 and isinstance(st.targets[0], ast.Tuple) and isinstance(st.value, ast.Tuple) \
                    and len(st.targets[0].elts) == len(st.value.elts) and all(isinstance(e, ast.Name) for e in st.targets[0].elts):
                tnames = [e.id for e in st.targets[0].elts]
                ok = True
                for j, e in enumerate(st.value.elts):
                    if j and ({x.id for x in ast.walk(e) if isinstance(x, ast.Name)} & set(tnames[:j])):
                        ok = False
                if ok:
                    def f(b2, c, si=si):
                        s2 = b2[si]
                        b2[si:si + 1] = [ast.Assign(targets=[t], value=v) for t, v in zip(s2.targets[0].elts, s2.value.elts)]
                    yield 'untuple', 'line %d tuple assignment split' % st.lineno, block_edit(bi, f)


def rename_locals(fn, suffix='_q'):
    """Rename every local of a private copy of fn (parameters, globals and names of nested scopes excepted)."""
    c = copy.deepcopy(fn)
    params = {a.arg for a in c.args.posonlyargs + c.args.args + c.args.kwonlyargs}
    if c.args.vararg:
        params.add(c.args.vararg.arg)
    if c.args.kwarg:
        params.add(c.args.kwarg.arg)
    glob = {x for n in ast.walk(c) if isinstance(n, (ast.Global, ast.Nonlocal)) for x in n.names}
    nested = set()
    for n in ast.walk(c):
        if n is not c and isinstance(n, (ast.FunctionDef, ast.AsyncFunctionDef, ast.Lambda, ast.ClassDef)):
            for x in ast.walk(n):
                if isinstance(x, ast.Name):
                    nested.add(x.id)
                elif isinstance(x, ast.arg):
                    nested.add(x.arg)
    stores = {n.id for n in _nodes(c) if isinstance(n, ast.Name) and isinstance(n.ctx, ast.Store)}
    locs = stores - params - glob - nested
    for n in _nodes(c):
        if isinstance(n, ast.Name) and n.id in locs:
            n.id = n.id + suffix
        elif isinstance(n, ast.ExceptHandler) and n.name in locs:
            n.name = n.name + suffix
    return c


def combo(fn, resolve_callee, seed, steps=3):
    """A 'refactoring commit': `steps` randomly chosen idiom edits applied one after the other, then all locals renamed."""
    import random
    rng = random.Random(seed)
    cur = fn
    done = []
    for _ in range(steps):
        cands = list(variants(cur, resolve_callee))
        n = None
        for _try in range(5):
            if not cands:
                break
            c, d, thunk = cands[rng.randrange(len(cands))]
            n = thunk()
            if n is not None:
                break
        if n is None:
            break
        done.append(c)
        cur = n
    cur = rename_locals(cur)
    ast.fix_missing_locations(cur)
    return '+'.join(done) + '+rename', cur


def splice(source, fn, new_fn):
    """Replace the text of fn (decorators included) in source by the unparsed new_fn, keeping indentation."""
    lines = source.split('\n')
    first = min([fn.lineno] + [d.lineno for d in fn.decorator_list])
    pad = ' ' * fn.col_offset
    text = ast.unparse(new_fn)
    new_lines = [(pad + l if l.strip() else l) for l in text.split('\n')]
    return '\n'.join(lines[:first - 1] + new_lines + lines[fn.end_lineno:])

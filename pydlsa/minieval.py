"""A tiny abstract evaluator for integer index arithmetic: decides, by exhaustive enumeration of a small finite domain, what a
straight-line / if-else block of the analysed source computes for an index.  It interprets the *syntax tree* of the block with its own
semantics for the handful of constructs index arithmetic uses (+ - * // % comparisons, and/or/not, conditional expressions, int, min,
max, abs, assignments to local names, if/elif/else); nothing of the analysed program is imported or executed.  Anything else raises
Unknown, which the calling rule turns into 'no verdict' (ANALYSIS-ERROR), never into a violation.

Values: Python ints / bools, or TOP (value not known).  A test whose value is TOP forks: both arms are interpreted and the results
joined.  Subscripts and attributes are looked up, by their normalised source text, in `opaque`; unknown ones evaluate to TOP.
`on_stmt(stmt, env)` is called for every simple statement reached, with the environment in force (used to record the value of an index
at a store site)."""

import ast

from .astutil import src


class Unknown(Exception):
    pass


class _Top:
    def __repr__(self):
        return 'TOP'


TOP = _Top()


def _key(e):
    return src(e).replace(' ', '')


def ev(e, env, opaque):
    if isinstance(e, ast.Constant):
        if isinstance(e.value, (int, bool)):
            return e.value
        if isinstance(e.value, float) and e.value == int(e.value):
            return int(e.value)
        return TOP
    if isinstance(e, ast.Name):
        if e.id in env:
            return env[e.id]
        k = e.id
        return opaque.get(k, TOP)
    if isinstance(e, (ast.Subscript, ast.Attribute)):
        return opaque.get(_key(e), TOP)
    if isinstance(e, ast.UnaryOp):
        v = ev(e.operand, env, opaque)
        if v is TOP:
            return TOP
        if isinstance(e.op, ast.USub):
            return -v
        if isinstance(e.op, ast.UAdd):
            return +v
        if isinstance(e.op, ast.Not):
            return not v
        raise Unknown(src(e))
    if isinstance(e, ast.BinOp):
        a = ev(e.left, env, opaque)
        b = ev(e.right, env, opaque)
        if a is TOP or b is TOP:
            return TOP
        try:
            if isinstance(e.op, ast.Add):
                return a + b
            if isinstance(e.op, ast.Sub):
                return a - b
            if isinstance(e.op, ast.Mult):
                return a * b
            if isinstance(e.op, ast.FloorDiv):
                return a // b
            if isinstance(e.op, ast.Div):
                return a / b
            if isinstance(e.op, ast.Mod):
                return a % b
        except ZeroDivisionError:
            raise Unknown('division by zero in ' + src(e))
        raise Unknown(src(e))
    if isinstance(e, ast.Compare):
        left = ev(e.left, env, opaque)
        res = True
        for op, c in zip(e.ops, e.comparators):
            if isinstance(op, (ast.Is, ast.IsNot)) and isinstance(c, ast.Constant) and c.value is None:
                if left is TOP:
                    return TOP
                r = isinstance(op, ast.IsNot)          # a number is never None
                if not r:
                    return False
                continue
            if isinstance(op, (ast.In, ast.NotIn)) and isinstance(c, (ast.Tuple, ast.List, ast.Set)):
                members = [ev(x, env, opaque) for x in c.elts]
                if left is TOP or any(m is TOP for m in members):
                    return TOP
                r = (left in members) == isinstance(op, ast.In)
                if not r:
                    return False
                continue
            right = ev(c, env, opaque)
            if left is TOP or right is TOP:
                if '__assume__' in opaque:
                    return opaque['__assume__'](e)
                return TOP
            if isinstance(op, ast.Lt):
                r = left < right
            elif isinstance(op, ast.LtE):
                r = left <= right
            elif isinstance(op, ast.Gt):
                r = left > right
            elif isinstance(op, ast.GtE):
                r = left >= right
            elif isinstance(op, ast.Eq):
                r = left == right
            elif isinstance(op, ast.NotEq):
                r = left != right
            else:
                raise Unknown(src(e))
            if not r:
                return False
            left = right
        return res
    if isinstance(e, ast.BoolOp):
        top = False
        for v in e.values:
            x = ev(v, env, opaque)
            if x is TOP:
                top = True
                continue
            if isinstance(e.op, ast.And) and not x:
                return False
            if isinstance(e.op, ast.Or) and x:
                return True
        if top:
            return TOP
        return isinstance(e.op, ast.And)
    if isinstance(e, ast.IfExp):
        t = ev(e.test, env, opaque)
        if t is TOP:
            a, b = ev(e.body, env, opaque), ev(e.orelse, env, opaque)
            return a if (a is not TOP and b is not TOP and a == b) else TOP
        return ev(e.body, env, opaque) if t else ev(e.orelse, env, opaque)
    if isinstance(e, ast.Call) and _key(e) in opaque:
        return opaque[_key(e)]
    if isinstance(e, ast.Call) and isinstance(e.func, ast.Name) and not e.keywords:
        args = [ev(a, env, opaque) for a in e.args]
        if any(a is TOP for a in args):
            return TOP
        if e.func.id == 'int' and len(args) == 1:
            return int(args[0])
        if e.func.id == 'float' and len(args) == 1:
            return args[0] if isinstance(args[0], (int, bool)) else float(args[0])
        if e.func.id in ('min', 'max') and len(args) >= 2:
            return (min if e.func.id == 'min' else max)(args)
        if e.func.id == 'abs' and len(args) == 1:
            return abs(args[0])
        if e.func.id == 'divmod':
            raise Unknown(src(e))
        return TOP
    if isinstance(e, ast.Call):
        k = _key(e)
        if k in opaque:
            return opaque[k]
        if isinstance(e.func, ast.Attribute) and e.func.attr in ('mod', 'remainder', 'fmod') and len(e.args) == 2 and not e.keywords:
            a, b = ev(e.args[0], env, opaque), ev(e.args[1], env, opaque)
            if a is TOP or b is TOP:
                return TOP
            if e.func.attr == 'fmod':
                import math
                return int(math.fmod(a, b))
            return a % b
        return TOP
    return TOP


def _join(e1, e2):
    out = {}
    for k in set(e1) | set(e2):
        a, b = e1.get(k, TOP), e2.get(k, TOP)
        out[k] = a if (a is not TOP and b is not TOP and a == b and type(a) is type(b)) else TOP
    return out


def run(stmts, env, opaque, on_stmt):
    """Interpret a statement list; returns the environment(s) joined at the end (None when every path left the block by
    continue / break / return / raise)."""
    cur = dict(env)
    for st in stmts:
        if isinstance(st, ast.Assign) and len(st.targets) == 1 and isinstance(st.targets[0], ast.Name):
            on_stmt(st, cur)
            cur[st.targets[0].id] = ev(st.value, cur, opaque)
        elif isinstance(st, ast.AugAssign) and isinstance(st.target, ast.Name):
            on_stmt(st, cur)
            cur[st.target.id] = ev(ast.BinOp(left=ast.Name(id=st.target.id, ctx=ast.Load()), op=st.op, right=st.value), cur, opaque)
        elif isinstance(st, (ast.Assign, ast.AugAssign, ast.Expr, ast.Pass, ast.AnnAssign)):
            on_stmt(st, cur)
            if isinstance(st, ast.Assign):
                for t in st.targets:
                    for x in ast.walk(t):
                        if isinstance(x, ast.Name) and isinstance(x.ctx, ast.Store):
                            cur[x.id] = TOP
        elif isinstance(st, ast.If):
            t = ev(st.test, cur, opaque)
            if t is TOP:
                a = run(st.body, cur, opaque, on_stmt)
                b = run(st.orelse, cur, opaque, on_stmt)
                if a is None and b is None:
                    return None
                cur = a if b is None else b if a is None else _join(a, b)
            else:
                r = run(st.body if t else st.orelse, cur, opaque, on_stmt)
                if r is None:
                    return None
                cur = r
        elif isinstance(st, (ast.Continue, ast.Break, ast.Return, ast.Raise)):
            return None
        else:
            raise Unknown('statement not understood by the index evaluator: ' + src(st).split('\n')[0][:60])
    return cur


def run_while(loop, env, opaque, on_stmt=lambda s, e: None, max_iter=64):
    """Interpret a while loop; returns the environment at its exit.  A test of unknown value raises Unknown."""
    cur = dict(env)
    for _ in range(max_iter):
        t = ev(loop.test, cur, opaque)
        if t is TOP:
            raise Unknown('loop test of unknown value: ' + src(loop.test)[:60])
        if not t:
            return cur
        nxt = run(loop.body, cur, opaque, on_stmt)
        if nxt is None:
            raise Unknown('loop body leaves the loop: ' + src(loop.test)[:40])
        cur = nxt
    raise Unknown('loop does not end within %d passes' % max_iter)

"""Rule functions over pydl/pydlutils/bspline.py shared by C08, C09 and C10."""

import ast

from .. import AnalysisError
from ..astutil import kwarg, src, call_name, dotted, walk_local, try_fold, ancestors, fold, NoFold
from ..fn import FA, expand
from ..permtype import OrderAnalysis, fmt, ID, N, T
from ..poly import poly_of, NotPoly, Poly

BSPLINE = 'pydl/pydlutils/bspline.py'
MATH = 'pydl/pydlutils/math.py'


def order_violations(oa, expr, at):
    return [t for t in oa.tags_at(expr, at) if t[0] in ('BAD', 'G') or (t[0] == 'SUB' and t[1][0] == 'G')]


# ------------------------------------------------------------------------------------------ C08

def check_value_unsort(ctx, repo, rule):
    f = repo.func(BSPLINE, 'bspline.value')
    fa = FA(f)
    ctx.cover(f)
    oa = OrderAnalysis(fa, aligned_params=['x', 'x2'], tuple_aligned_calls={'action': (0,)}).run()
    rets = [r for r in walk_local(f.node) if isinstance(r, ast.Return) and isinstance(r.value, ast.Tuple) and len(r.value.elts) == 2]
    ctx.need(rets, 'bspline.value: `return (values, mask)` not found')
    for r in rets:
        for pos, what in ((0, 'values'), (1, 'mask')):
            e = r.value.elts[pos]
            bad = order_violations(oa, e, r)
            tags = sorted(fmt(t) for t in oa.tags_at(e, r))
            ctx.check(rule, not bad, f, r, 'bspline.value returns its %s in the caller\'s order (tags %s)' % (what, tags),
                      msg='bspline.value returns its %s (`%s`) in sorted order / mixed order, not in the caller\'s order: %s'
                          % (what, src(e), '; '.join(fmt(t) for t in bad)[:200]),
                      construct='returned %s order: %s' % (what, '; '.join(sorted(t[1][:70] if t[0] == 'BAD' else fmt(t) for t in bad))))
    # the permutation is argsort of x and the work arrays are gathers by it
    perms = [st for st in walk_local(f.node) if isinstance(st, ast.Assign) and isinstance(st.value, ast.Call) and call_name(st.value) == 'argsort']
    ctx.check(rule, len(perms) == 1 and src(perms[0].value) in ('x.argsort()', 'np.argsort(x)'), f, perms[0] if perms else f.node,
              'the sort permutation is argsort of the evaluation points', msg='the sort permutation is not x.argsort()', construct='value permutation')
    act = [c for c in walk_local(f.node) if isinstance(c, ast.Call) and isinstance(c.func, ast.Attribute) and c.func.attr == 'action']
    for c in act:
        tags = oa.tags_at(c.args[0], c) if c.args else frozenset()
        ok = tags and all(t[0] == 'G' for t in tags)
        ctx.check(rule, ok, f, c, 'self.action() receives the sorted abscissae (%s)' % sorted(fmt(t) for t in tags),
                  msg='self.action() is called with abscissae that are not gathered by the sort permutation: %s' % sorted(fmt(t) for t in tags),
                  construct='action argument order')


def check_pad(ctx, repo, rule):
    f = repo.func(BSPLINE, 'bspline.__init__')
    fa = FA(f)
    ctx.cover(f)
    loops = [n for n in walk_local(f.node) if isinstance(n, ast.For) and any(isinstance(c, ast.Call) and call_name(c) == 'insert' for c in walk_local(n))]
    ctx.need(len(loops) == 1, 'bspline.__init__: padding loop not found')
    lp = loops[0]
    it = lp.iter
    okr = isinstance(it, ast.Call) and call_name(it) in ('arange', 'range') and len(it.args) >= 2 and try_fold(it.args[0]) == 1 and src(it.args[1]) == 'nord'
    ctx.check(rule, okr, f, lp, 'padding loop runs for i = 1 .. nord-1 (%s)' % src(it), msg='the padding loop is %s: it does not add nord-1 knots' % src(it),
              construct='padding range ' + src(it))
    i = lp.target.id if isinstance(lp.target, ast.Name) else '?'
    ins = [c for c in walk_local(lp) if isinstance(c, ast.Call) and call_name(c) == 'insert']
    lowok = highok = False
    arr = None
    step_names = set()
    for c in ins:
        if len(c.args) < 3:
            continue
        pos, val = c.args[1], c.args[2]

        def at(e):
            if isinstance(e, ast.Subscript):
                return src(e)
            return None
        try:
            p = poly_of(val, atom=at)
        except NotPoly:
            continue
        # the step: the coefficient of <spacing> * i, whatever the spacing variable is called (the same one on both sides)
        pairs = [(m, c_) for m, c_ in p.t.items() if len(m) == 2 and any(a == i and pw == 1 for a, pw in m) and all(pw == 1 for a, pw in m)]
        step = None
        if len(pairs) == 1:
            sname = [a for a, pw in pairs[0][0] if a != i][0]
            step_names.add(sname)
            step = pairs[0][1]
        if try_fold(pos) == 0 and step == -1:
            base = [a for a in p.atoms() if a.endswith('[0]')]
            lowok = len(base) == 1
            arr = base[0][:-3] if base else arr
        elif step == 1 and ('shape[0]' in src(pos) or 'size' in src(pos) or 'len(' in src(pos)):
            base = [a for a in p.atoms() if a.endswith('[nshortbkpt - 1]') or a.endswith('[-1]')]
            highok = len(base) == 1
    ctx.check(rule, lowok and highok and len(ins) == 2 and len(step_names) == 1, f, lp,
              'each iteration inserts one knot below index 0 (first - bkspace*i) and one above the end (last + bkspace*i)',
              msg='a padding iteration does not add exactly one knot on each side stepping by bkspace*i', construct='padding inserts')
    return arr, lp


_DTYPE_KEEPING = ('copy', 'sort', 'ravel', 'flatten', 'compress', 'take', 'unique', 'squeeze', 'reshape', 'extract')


def _dtype_preserving_root(v):
    """Name at the root of a chain of subscripts and dtype-keeping calls (x[w], x[w].copy(), np.sort(x), np.compress(w, x)), else None."""
    while True:
        if isinstance(v, ast.Subscript):
            v = v.value
        elif isinstance(v, ast.Call) and call_name(v) in _DTYPE_KEEPING and not v.keywords:
            if isinstance(v.func, ast.Attribute) and not (isinstance(v.func.value, ast.Name) and v.func.value.id in ('np', 'numpy')):
                v = v.func.value
            else:
                cands = [a for a in v.args if isinstance(a, (ast.Name, ast.Subscript, ast.Call))]
                if not cands:
                    return None
                v = cands[-1] if call_name(v) in ('compress', 'extract') else cands[0]
        elif isinstance(v, ast.Name):
            return v.id
        else:
            return None


def check_cover(ctx, repo, rule):
    f = repo.func(BSPLINE, 'bspline.__init__')
    fa = FA(f)
    reps = []
    for n in walk_local(f.node):
        if isinstance(n, ast.If) and isinstance(n.test, ast.Compare) and len(n.test.ops) == 1:
            t = n.test
            sides = (src(expand(t.left, fa, depth=3, calls=True)), src(expand(t.comparators[0], fa, depth=3, calls=True)))
            for st in n.body:
                if isinstance(st, ast.Assign) and isinstance(st.targets[0], ast.Subscript) and isinstance(st.targets[0].value, ast.Name):
                    tgt = st.targets[0]
                    vs = src(expand(st.value, fa, depth=3, calls=True))
                    if vs in ('x.min()', 'x.max()') and vs in sides:
                        reps.append((n, st, tgt.value.id, src(tgt.slice), vs, isinstance(t.ops[0], (ast.Lt, ast.Gt))))
    kinds = sorted(r[4] for r in reps)
    ctx.check(rule, kinds == ['x.max()', 'x.min()'], f, reps[0][0] if reps else f.node,
              'both "breakpoint does not cover x" repairs exist (x.min() into the arg-min knot, x.max() into the arg-max knot)',
              msg='a coverage repair is missing: found %s' % kinds, construct='cover repairs')
    if len(reps) != 2:
        return
    # whatever way the breakpoints were specified, they are stretched to the data: the repairs are not under a further condition
    from ..astutil import path_conditions
    for n, st, arr, idx, val, strict in reps:
        conds = [t for t, pol in path_conditions(n)]
        ctx.check(rule, not conds, f, n, 'the coverage repair for %s applies to every way of specifying breakpoints (no enclosing condition)' % val,
                  msg='the coverage repair `%s` runs only under `%s`: breakpoints produced by the other placements (every-n positions stop short of the last '
                      'datum whenever nbkpts - 1 does not divide nx) are not stretched to the data range' % (src(st), src(conds[0])[:60] if conds else ''),
                  construct='conditional coverage repair')
    arrs = {r[2] for r in reps}
    for n, st, arr, idx, val, strict in reps:
        d = None
        for dd, v in fa.defs(st.targets[0].slice) if isinstance(st.targets[0].slice, ast.Name) else []:
            d = v
        want = 'argmin' if val == 'x.min()' else 'argmax'
        ctx.check(rule, d is not None and call_name(d) == want and arr in src(d), f, st, '%s is stored at %s[%s] = %s.%s()' % (val, arr, idx, arr, want),
                  msg='the repair stores %s at %s[%s], which is not the %s of the same array' % (val, arr, idx, want), construct='repair index ' + src(st))
    # the repairs write data values (x.min(), x.max()) into the breakpoint array: on the path where that array is the caller's own
    # `bkpt=` argument it must first have become a floating array of the constructor's own (an integer array truncates the repair and the
    # padding knots; the caller's array would be changed behind its back)
    for n, st, arr, idx, val, strict in reps[:1]:
        nm = st.targets[0].value
        raw = [d for d, v in fa.defs(nm) if isinstance(d, ast.arg)]
        conv = [v for d, v in fa.defs(nm) if v is not None and isinstance(v, ast.Call) and call_name(v) in ('array', 'asarray', 'astype', 'asfarray', 'copy')
                and any(isinstance(x, ast.Name) and x.id == nm.id for x in ast.walk(v))]
        okc = not raw and (nm.id not in f.params or bool(conv))
        if conv:
            okc = okc and all(call_name(v) != 'copy' and (floating_dtype(kwarg(v, 'dtype', 1 if call_name(v) != 'astype' else 0), fa)
                                                            if kwarg(v, 'dtype', 1 if call_name(v) != 'astype' else 0) is not None else call_name(v) == 'asfarray')
                              for v in conv)
        ctx.check(rule, okc, f, st, 'explicit breakpoints are converted to a floating array of the constructor\'s own before the coverage repair writes into them',
                  msg='bspline.__init__ writes the coverage repair `%s` into the caller\'s own `%s` array: integer breakpoints truncate the repair (and the padding '
                      'knots), so the knot vector does not cover the data, and the caller\'s array is modified' % (src(st), nm.id),
                  construct='repair written into the bkpt argument')
    # the same for every other way of specifying breakpoints: a definition of the repaired array that is merely a selection / copy /
    # sort of a caller-supplied array (`placed[w]`) keeps that array's dtype - integer positions truncate the repair and the padding
    for n, st, arr, idx, val, strict in reps[:1]:
        nm = st.targets[0].value
        for d, v in fa.defs(nm):
            if v is None or isinstance(d, ast.arg):
                continue
            root = _dtype_preserving_root(v)
            bad_root = root is not None and root in f.params and root != nm.id
            ctx.check(rule, not bad_root, f, d if hasattr(d, 'lineno') else st,
                      'breakpoints defined by `%s` are a floating array of the constructor\'s own before the coverage repair' % src(v)[:60],
                      msg='bspline.__init__ takes its breakpoints as `%s`, which keeps the dtype of the caller\'s `%s`: integer positions truncate the '
                          'coverage repair `%s` (and the padding knots), so the knot vector does not cover the data' % (src(v)[:60], root, src(st)),
                      construct='repair written into a selection of the %s argument' % root)
    # the padding (and the spacing) must read the repaired array
    ctx.need(len(arrs) == 1, 'bspline.__init__: the two repairs modify different arrays')
    B = arrs.pop()
    last_rep = max(r[1].lineno for r in reps)
    derived = {B}
    for st in walk_local(f.node):
        if isinstance(st, ast.Assign) and isinstance(st.targets[0], ast.Name) and st.lineno > last_rep:
            if isinstance(st.value, ast.Call) and call_name(st.value) in ('copy', 'array', 'asarray') and any(isinstance(x, ast.Name) and x.id in derived for x in ast.walk(st.value)):
                derived.add(st.targets[0].id)
    bad = []
    for n in walk_local(f.node):
        if isinstance(n, ast.Subscript) and isinstance(n.value, ast.Name) and isinstance(n.ctx, ast.Load) and n.lineno > last_rep:
            nm = n.value.id
            ds = fa.defs(n.value)
            is_bk = nm in ('bkpt', 'fullbkpt') or any(v is not None and ('bkpt' in src(v)) for d, v in ds)
            if is_bk and nm not in derived:
                # fullbkpt grown by np.insert from a derived array is fine
                if all(v is not None and isinstance(v, ast.Call) and call_name(v) == 'insert' for d, v in ds if d is not None):
                    continue
                bad.append(n)
    ctx.check(rule, not bad, f, bad[0] if bad else reps[0][1],
              'spacing and padding read the repaired breakpoint array `%s` (or a copy taken after the repair)' % B,
              msg='after the coverage repair was written into `%s`, the spacing/padding still reads `%s`, which does not contain the repair: '
                  'the padded knot vector can be non-monotone' % (B, src(bad[0]) if bad else ''), construct='padding reads unrepaired array')


def check_action_sibling(ctx, repo, rule):
    f = repo.func(BSPLINE, 'bspline.action')
    fa = FA(f)
    ctx.cover(f)
    for name in ('upper', 'lower'):
        stores = [st for st in walk_local(f.node) if isinstance(st, ast.Assign) and isinstance(st.targets[0], ast.Subscript)
                  and isinstance(st.targets[0].value, ast.Name) and st.targets[0].value.id == name]
        ok = False
        why = 'no store'
        for st in stores:
            idx = st.targets[0].slice
            # index must be <interval index array>[<uniq result>] - nord + 1
            names = {n.id for n in ast.walk(idx) if isinstance(n, ast.Name)}
            has_intrv = False
            has_uniq = False
            for nm in names:
                for n2 in ast.walk(idx):
                    if isinstance(n2, ast.Name) and n2.id == nm:
                        d = fa.deep(n2)
                        s = src(d)
                        if 'intrv(' in s or (isinstance(d, ast.Subscript) and 'intrv(' in src(fa.deep(d.value))):
                            has_intrv = True
                        if isinstance(d, ast.Call) and call_name(d) == 'uniq':
                            has_uniq = True
            ok = has_intrv and has_uniq
            why = src(st)
        ctx.check(rule, ok, f, stores[0] if stores else f.node,
                  'action(): `%s` row bounds are scattered per interval through the interval index of a uniq() pass (%s)' % (name, why[:60]),
                  msg='action() does not derive the `%s` row bound of every interval from its own uniq() pass over the interval index (%s): intervals '
                      'without points are then given the bounds of their neighbours' % (name, why[:80]), construct='%s bounds: %s' % (name, why[:80]))


# oracle: de Boor's BSPLVN recurrence (A Practical Guide to Splines, ch. X), in this module's variable roles
_RECUR_ORACLE = """
vm = V[:, l] / (DP[:, l] + DM[:, j - l])
V[:, l] = vm * DP[:, l] + vmprev
vmprev = vm * DM[:, j - l]
"""
_DELTA_ORACLE = """
DP[:, j] = K[ileft + j + 1] - x
DM[:, j] = x - K[ileft - j]
"""


def _subst_single_defs(e, fa, keep):
    """Copy of e in which names with exactly one plain (non-call) definition, other than the loop roles in `keep`, are replaced
    by that definition.  Resolution is done on the original nodes (they carry the parent links the CFG lookup needs)."""
    def sub(x, depth=0):
        if isinstance(x, list):
            return [sub(y, depth) for y in x]
        if not isinstance(x, ast.AST):
            return x
        if isinstance(x, ast.Name) and isinstance(x.ctx, ast.Load) and x.id not in keep and depth < 6:
            d = fa.resolve(x)
            if d is not None and not isinstance(d, ast.Call):
                return sub(d, depth + 1)
        new = x.__class__()
        for fld in x._fields:
            if hasattr(x, fld):
                setattr(new, fld, sub(getattr(x, fld), depth))
        return new
    return sub(e)


def check_recurrence(ctx, repo, rule):
    from ..astutil import canon
    f = repo.func(BSPLINE, 'bspline.bsplvn')
    fa = FA(f)
    ctx.cover(f)
    inner = [n for n in walk_local(f.node) if isinstance(n, ast.For) and any(isinstance(a, ast.While) for a in ancestors(n))]
    ctx.need(len(inner) == 1, 'bsplvn: inner recurrence loop not found')
    lp = inner[0]
    stmts = [st for st in lp.body if isinstance(st, ast.Assign)]
    ctx.need(len(stmts) == 3, 'bsplvn: the recurrence is not three assignments')
    loopvars = {lp.target.id}
    w = next(a for a in ancestors(lp) if isinstance(a, ast.While))
    roles = {'vm', 'vmprev', 'j', lp.target.id, 'x', 'ileft'}
    got = ast.Module(body=[ast.Assign(targets=st.targets, value=_subst_single_defs(st.value, fa, roles), lineno=0) for st in stmts], type_ignores=[])
    want = ast.parse(_RECUR_ORACLE)
    cg, _ = canon(got)
    cw, _ = canon(want)
    ctx.check(rule, cg == cw, f, stmts[0], 'bsplvn inner loop is the Cox-de Boor recurrence: term l divides by deltap[l] + deltam[j-l]',
              msg='the basis recurrence in bsplvn differs from the Cox-de Boor form vm = B[l]/(dp[l] + dm[j-l]); B[l] = vm*dp[l] + prev; prev = vm*dm[j-l] '
                  '(found: %s): on non-uniform knots the basis no longer sums to one' % '; '.join(src(x).replace('\n', ' ') for x in got.body)[:200],
              construct='bsplvn recurrence: ' + '; '.join(src(x) for x in got.body)[:200])
    deltas = [st for st in w.body if isinstance(st, ast.Assign) and isinstance(st.targets[0], ast.Subscript) and src(st.targets[0].value) in ('deltap', 'deltam')]
    got2 = ast.Module(body=[ast.Assign(targets=st.targets, value=_subst_single_defs(st.value, fa, roles | {'bkpt'}), lineno=0) for st in deltas], type_ignores=[])
    c2, _ = canon(got2)
    w2, _ = canon(ast.parse(_DELTA_ORACLE))
    ctx.check(rule, c2 == w2, f, deltas[0] if deltas else w, 'knot differences: deltap[j] = t[ileft+j+1] - x, deltam[j] = x - t[ileft-j]',
              msg='the knot differences in bsplvn are not t[ileft+j+1] - x and x - t[ileft-j]', construct='bsplvn deltas: ' + '; '.join(src(x) for x in got2.body)[:160])


def check_intrv(ctx, repo, rule):
    f = repo.func(BSPLINE, 'bspline.intrv')
    ctx.cover(f)
    incs = [st for st in walk_local(f.node) if isinstance(st, ast.AugAssign) and src(st.target) == 'ileft' and isinstance(st.op, ast.Add)]
    ctx.need(incs, 'intrv: interval advance not found')
    for st in incs:
        par = st._parent
        ok = isinstance(par, ast.While) and 'x[i] > gb[ileft + 1]' in src(par.test) and 'ileft < n - 1' in src(par.test)
        ctx.check(rule, ok, f, par if isinstance(par, (ast.While, ast.If)) else st,
                  'intrv advances the interval index repeatedly (while x[i] > knot[ileft+1] and ileft < n-1)',
                  msg='intrv advances the interval index under `%s %s`: a point that lies more than one breakpoint interval beyond the previous point is '
                      'assigned the wrong interval' % (type(par).__name__.lower(), src(par.test)[:60] if hasattr(par, 'test') else ''),
                  construct='interval advance under %s' % type(par).__name__)
    store = [st for st in walk_local(f.node) if isinstance(st, ast.Assign) and src(st.targets[0]) == 'indx[i]']
    ctx.check(rule, len(store) == 1 and src(store[0].value) == 'ileft' and not isinstance(store[0]._parent, ast.While), f, store[0] if store else f.node,
              'every point receives the current interval index', msg='indx[i] is not assigned the current interval for every point', construct='indx store')


def check_everyn_bound(ctx, repo, rule):
    """every-n placement: the positions used to pick breakpoints out of x are bounded by nx - 1."""
    f = repo.func(BSPLINE, 'bspline.__init__')
    fa = FA(f)
    picks = [n for n in walk_local(f.node) if isinstance(n, ast.Subscript) and isinstance(n.slice, ast.Name) and isinstance(n.ctx, ast.Load)
             and 'x' in {y.id for y in ast.walk(fa.deep(n.value) if isinstance(n.value, ast.Name) else n.value) if isinstance(y, ast.Name)}
             and any(isinstance(a, ast.If) and 'everyn' in src(a.test) for a in ancestors(n))]
    ctx.need(picks, 'bspline.__init__: every-n pick x[<positions>] not found')
    for pk in picks:
        base = fa.deep(pk.value) if isinstance(pk.value, ast.Name) else pk.value
        bs = src(base).replace(' ', '')
        is_sorted = (isinstance(base, ast.Call) and call_name(base) in ('sort', 'sorted')) or bs in ('x[x.argsort()]', 'x[np.argsort(x)]')
        ctx.check(rule, is_sorted, f, pk, 'every-n breakpoints are picked out of the sorted abscissae (%s)' % src(base)[:40],
                  msg='the every-n breakpoints are `%s[...]`: positions count data points in the caller\'s order, so for unsorted x the knot vector '
                      'is not non-decreasing' % src(pk.value)[:30], construct='every-n pick from unsorted ' + src(pk.value)[:30])
        forms = [(d, v) for d, v in fa.defs(pk.slice) if v is not None]
        bad = []
        for d, v in forms:
            s = src(v).replace(' ', '')
            if isinstance(v, (ast.List, ast.Tuple)) and all(try_fold(e) == 0 for e in v.elts):
                continue
            clamped = any(isinstance(c, ast.Call) and call_name(c) in ('minimum', 'clip', 'fmin') and ('nx-1' in src(c).replace(' ', '') or 'x.size-1' in src(c).replace(' ', ''))
                          for c in ast.walk(v))
            safe_step = '(nx-1)//(nbkpts-1)' in s or 'int((nx-1)/(nbkpts-1))' in s
            if not (clamped or safe_step):
                bad.append(v)
        ctx.check(rule, not bad, f, pk, 'every-n positions are bounded by nx - 1 (%s)' % [src(v)[:50] for d, v in forms],
                  msg='the every-n positions `%s` reach index nx whenever nbkpts - 1 divides nx (IDL clamps an out-of-range subscript, numpy raises IndexError): '
                      'about one in five (nx, everyn) combinations cannot build a spline at all' % (src(bad[0])[:60] if bad else ''),
                  construct='every-n positions ' + (src(bad[0])[:60] if bad else ''))


def check_nbkpt(ctx, repo, rule):
    f = repo.func(BSPLINE, 'bspline.__init__')
    fa = FA(f)
    n = 0
    for st in walk_local(f.node):
        if isinstance(st, ast.Assign) and src(st.targets[0]) == 'bkpt' and isinstance(st.value, (ast.BinOp, ast.Call)):
            uses = [x for x in ast.walk(st.value) if isinstance(x, ast.Name) and x.id == 'nbkpts']
            # also the spacing computed from nbkpts just before
            for x in ast.walk(st.value):
                if isinstance(x, ast.Name) and x.id == 'tempbkspace':
                    d = fa.resolve(x)
                    if d is not None:
                        uses += [y for y in ast.walk(d) if isinstance(y, ast.Name) and y.id == 'nbkpts']
            if not uses:
                # the count may enter through the positions picked out of the data (every-n placement)
                for x in ast.walk(st.value):
                    if isinstance(x, ast.Name) and x.id not in ('np', 'x'):
                        for d, v in fa.defs(x):
                            if v is not None:
                                uses += [y for y in ast.walk(v) if isinstance(y, ast.Name) and y.id == 'nbkpts']
            if not uses:
                continue
            n += 1
            lows = []
            for d, v in fa.defs(uses[0]):
                if d is None or isinstance(d, ast.arg):
                    lows.append(None)
                elif v is not None and isinstance(v, ast.Call) and call_name(v) == 'max' and len(v.args) == 2:
                    lows.append(max([try_fold(a) for a in v.args if isinstance(try_fold(a), int)] or [None], key=lambda q: -1 if q is None else q))
                elif v is not None and isinstance(try_fold(v), int):
                    lows.append(try_fold(v))
                else:
                    lows.append(None)
            # the clamp idiom: an assignment nbkpts = 2 under `nbkpts < 2` among the reaching definitions covers the unbounded ones
            clamp = any(isinstance(d, ast.Assign) and try_fold(d.value) == 2 and isinstance(d._parent, ast.If) and src(d._parent.test) in ('nbkpts < 2', 'nbkpts <= 1')
                        for d, v in fa.defs(uses[0]) if d is not None)
            ok = clamp or all(isinstance(l, int) and l >= 2 for l in lows)
            ctx.check(rule, ok, f, st, 'breakpoint count used to place `bkpt` is clamped to >= 2 (lower bounds %s%s)' % (lows, ', clamp idiom' if clamp else ''),
                      msg='the number of breakpoints used to build `%s` can be %s: with fewer than two breakpoints the knot vector cannot cover the data range'
                          % (src(st.value)[:50], [l for l in lows if not (isinstance(l, int) and l >= 2)]), construct='breakpoint count lower bound %s' % lows)
    return n


def check_requiren(ctx, repo, rule):
    """The `requiren` bookkeeping of iterfit counts the positively weighted points of every breakpoint interval; an interval with
    too few is dropped.  The counting loops walk a data index i: they must be able to visit the LAST data point (bound i < nx, tested
    before xwork[i] is read).  With the bound i < nx - 1 the last point is never counted, the last interval (whose left breakpoint
    is x.max()) always looks empty and its breakpoint is masked: the fitted curve is declared invalid at the last points."""
    f = repo.func(BSPLINE, 'iterfit')
    fa = FA(f)
    blk = [n for n in walk_local(f.node) if isinstance(n, ast.If) and any(isinstance(x, ast.Name) and x.id == 'requiren' for x in ast.walk(n.test))
           and any(isinstance(x, ast.While) for b in n.body for x in ast.walk(b))]
    ctx.need(blk, 'iterfit: requiren block not found')
    loops = [w for b in blk[0].body for w in ast.walk(b) if isinstance(w, ast.While)]
    n = 0
    for w in loops:
        counts = any(isinstance(st, ast.AugAssign) and isinstance(st.target, ast.Name) and not (try_fold(st.value) == 1) for st in w.body)
        incs = [st for st in w.body if isinstance(st, ast.AugAssign) and isinstance(st.target, ast.Name) and try_fold(st.value) == 1 and isinstance(st.op, ast.Add)]
        if not incs or not counts:
            continue
        i = incs[0].target.id
        conj = w.test.values if isinstance(w.test, ast.BoolOp) and isinstance(w.test.op, ast.And) else [w.test]
        bounds = [c for c in conj if isinstance(c, ast.Compare) and len(c.ops) == 1 and isinstance(c.left, ast.Name) and c.left.id == i
                  and isinstance(c.ops[0], (ast.Lt, ast.LtE)) and not any(isinstance(x, ast.Subscript) for x in ast.walk(c.comparators[0]))]
        if not bounds:
            continue
        n += 1
        b = bounds[0]
        def size_atom(e, depth=0):
            if isinstance(e, ast.Attribute) and e.attr == 'size':
                return 'N'
            if isinstance(e, ast.Call) and call_name(e) == 'len':
                return 'N'
            if isinstance(e, ast.Subscript) and isinstance(e.value, ast.Attribute) and e.value.attr == 'shape':
                return 'N'
            if isinstance(e, ast.Name) and depth < 2:
                v = fa.resolve(e)
                if v is not None:
                    return size_atom(v, depth + 1)
            return None
        try:
            lim = poly_of(b.comparators[0], atom=size_atom)
            if isinstance(b.ops[0], ast.LtE):
                lim = lim + Poly.const(1)
            if lim.atoms() != {'N'}:
                raise NotPoly(src(b))
            full = lim == Poly.atom('N')
        except NotPoly:
            raise AnalysisError('C10: iterfit: the bound of the requiren counting loop (`%s`) is not an idiom this checker can judge' % src(b))
        first = conj.index(b) < min([conj.index(c) for c in conj if any(isinstance(x, ast.Subscript) and isinstance(x.slice, ast.Name) and x.slice.id == i
                                                                         for x in ast.walk(c))] or [len(conj)])
        ctx.check(rule, full and first, f, w, 'the requiren counting loop can visit every data point (`%s`, tested before the data are indexed)' % src(b),
                  msg='the loop that counts the good points of a breakpoint interval for `requiren` is bounded by `%s`%s: the last data point is never counted, so '
                      'the last interval always looks empty, its breakpoint is masked and the curve is invalid at the last points (combine1fiber loses the inverse '
                      'variance of its last pixels)' % (src(b), '' if full else ''), construct='requiren counting loop bound ' + src(b))
    ctx.need(n >= 1, 'iterfit: requiren counting loop not found')


# ------------------------------------------------------------------------------------------ C09

def num_kind(e, fa, depth=0):
    """'float' | 'int' | None (unknown)."""
    if depth > 6:
        return None
    if isinstance(e, ast.Constant):
        if isinstance(e.value, bool):
            return 'int'
        if isinstance(e.value, float):
            return 'float'
        if isinstance(e.value, int):
            return 'int'
        return None
    if isinstance(e, ast.UnaryOp):
        return num_kind(e.operand, fa, depth + 1)
    if isinstance(e, ast.BinOp):
        if isinstance(e.op, ast.Div):
            return 'float'
        a, b = num_kind(e.left, fa, depth + 1), num_kind(e.right, fa, depth + 1)
        if 'float' in (a, b):
            return 'float'
        if a == 'int' and b == 'int':
            return 'int'
        return None
    if isinstance(e, ast.Call):
        nm = call_name(e)
        if nm in ('int', 'len', 'round') and isinstance(e.func, ast.Name):
            return 'int' if nm != 'round' or len(e.args) == 1 else None
        if nm in ('ceil', 'floor', 'sqrt', 'float', 'float32', 'float64', 'rint', 'trunc', 'mean', 'log', 'log10', 'exp', 'around'):
            return 'float'
        if nm in ('sum', 'size', 'argmin', 'argmax', 'count_nonzero', 'searchsorted', 'nonzero', 'argsort', 'arange') and nm != 'arange':
            return 'int' if nm != 'sum' else None
        if nm in ('unique', 'clip', 'maximum', 'minimum', 'where', 'atleast_1d', 'asarray', 'abs') and e.args:
            ks = [num_kind(a, fa, depth + 1) for a in e.args[:1]]
            return ks[0]
        if nm == 'astype' and e.args:
            t = try_fold(e.args[0])
            d = dotted(e.args[0]) or ''
            if (isinstance(t, str) and t[:1] in 'iu') or 'int' in d:
                return 'int'
            if (isinstance(t, str) and t[:1] in 'fd') or 'float' in d:
                return 'float'
        return None
    if isinstance(e, ast.Name):
        ds = [(d, v) for d, v in fa.defs(e) if d is not None]
        if not ds:
            return None
        ks = set()
        for d, v in ds:
            if isinstance(d, ast.For):
                it = d.iter
                if isinstance(it, ast.Call) and call_name(it) == 'range':
                    ks.add('int')
                elif isinstance(it, ast.Call) and call_name(it) == 'arange':
                    dt = [k.value for k in it.keywords if k.arg == 'dtype']
                    ks.add('float' if dt and 'float' in src(dt[0]) else None)
                else:
                    ks.add(None)
            elif v is None:
                ks.add(None)
            else:
                ks.add(num_kind(v, fa, depth + 1))
        return ks.pop() if len(ks) == 1 else None
    if isinstance(e, ast.Subscript):
        return num_kind(e.value, fa, depth + 1)
    return None


def check_int_sinks(ctx, repo, rule):
    n = 0
    for q in ('bspline.maskpoints', 'bspline.fit', 'cholesky_band', 'bspline.value', 'bspline.action'):
        f = repo.func(BSPLINE, q)
        fa = FA(f)
        ctx.cover(f)
        for c in walk_local(f.node):
            if isinstance(c, ast.Call) and isinstance(c.func, ast.Name) and c.func.id == 'range':
                for a in c.args:
                    n += 1
                    k = num_kind(a, fa)
                    ctx.check(rule, k != 'float', f, c, '%s: range argument `%s` is not float-valued (%s)' % (q, src(a)[:40], k or 'unknown'),
                              msg='%s: a float value `%s` reaches range(): TypeError instead of the documented status code' % (q, src(a)), construct='float into range: ' + src(a))
            if isinstance(c, ast.Subscript) and not isinstance(c.slice, (ast.Slice, ast.Tuple, ast.Constant)):
                k = num_kind(c.slice, fa)
                if isinstance(c.slice, ast.Name) and k is None:
                    continue
                if isinstance(c.slice, (ast.Compare, ast.BoolOp)) or (isinstance(c.slice, ast.UnaryOp) and isinstance(c.slice.op, (ast.Invert, ast.Not))):
                    continue
                n += 1
                ctx.check(rule, k != 'float', f, c, '%s: index `%s` is not float-valued (%s)' % (q, src(c.slice)[:40], k or 'unknown'),
                          msg='%s: a float-valued expression `%s` is used as an array index (IndexError: arrays used as indices must be of integer type)'
                              % (q, src(c.slice)), construct='float index: ' + src(c)[:70])
    return n


def check_ict(ctx, repo, rule):
    """Row-range guard and slices: an interval with exactly one row must be used."""
    for q in ('bspline.fit', 'bspline.value'):
        f = repo.func(BSPLINE, q)
        fa = FA(f)

        def at(e):
            if isinstance(e, ast.Subscript) and isinstance(e.value, ast.Name) and e.value.id in ('upper', 'lower'):
                return e.value.id
            return None
        guards = []
        for n in walk_local(f.node):
            if isinstance(n, ast.If) and isinstance(n.test, ast.Compare) and len(n.test.ops) == 1:
                t = n.test
                try:
                    l = poly_of(t.left, atom=at, resolve=fa.resolve)
                    r = poly_of(t.comparators[0], atom=at, resolve=fa.resolve)
                except NotPoly:
                    continue
                d = l - r
                if not d.atoms() or not d.atoms() <= {'upper', 'lower'}:
                    continue                    # a test about something else than the row range of the interval
                op = t.ops[0]
                # `if <empty>: continue` states the condition under which the interval is skipped: read its negation
                if not n.orelse and len(n.body) == 1 and isinstance(n.body[0], (ast.Continue, ast.Pass)) and isinstance(n.body[0], ast.Continue):
                    op = {ast.Gt: ast.LtE, ast.GtE: ast.Lt, ast.Lt: ast.GtE, ast.LtE: ast.Gt}.get(type(op), type(op))()
                # normalise to E >= 0 over the integers
                if isinstance(op, ast.Gt):
                    E = d - Poly.const(1)
                elif isinstance(op, ast.GtE):
                    E = d
                elif isinstance(op, ast.Lt):
                    E = -d - Poly.const(1)
                elif isinstance(op, ast.LtE):
                    E = -d
                else:
                    continue
                guards.append((n, E))
        ctx.need(guards, '%s: row-count guard not found' % q)
        want = Poly.atom('upper') - Poly.atom('lower')
        for n, E in guards:
            ctx.check(rule, E == want, f, n, '%s: an interval is used when upper - lower >= 0, i.e. it holds at least one row (`%s`)' % (q, src(n.test)),
                      msg='%s: the row-count guard `%s` means %s >= 0: an interval holding exactly one data point is skipped and drops out of the '
                          'normal equations' % (q, src(n.test), E), construct='row guard %s' % src(n.test))
        # slices lower[k] : upper[k] + 1
        for s in walk_local(f.node):
            if isinstance(s, ast.Slice) and s.lower is not None and s.upper is not None and 'lower[' in src(s.lower):
                try:
                    ok = poly_of(s.upper, atom=at) - poly_of(s.lower, atom=at) == want + Poly.const(1)
                except NotPoly:
                    ok = False
                ctx.check(rule, ok, f, s, '%s: row slice %s includes the upper row' % (q, src(s)),
                          msg='%s: row slice `%s` is not lower[k] : upper[k]+1' % (q, src(s)), construct='row slice ' + src(s))


def check_proto(ctx, repo, rule):
    f = repo.func(BSPLINE, 'cholesky_band')
    fa = FA(f)
    ctx.cover(f)
    rets = [r for r in walk_local(f.node) if isinstance(r, ast.Return)]
    kinds = []
    for r in rets:
        ok = isinstance(r.value, ast.Tuple) and len(r.value.elts) == 2
        k = None
        if ok:
            e = r.value.elts[0]
            if try_fold(e) == -1:
                k = 'success(-1)'
            elif src(e).replace(' ', '').endswith('.nonzero()[0]'):
                k = 'index-array'
            elif num_kind(e, fa) == 'int' or (isinstance(e, ast.BinOp) and isinstance(e.left, ast.Name)):
                k = 'int-index'
        kinds.append(k)
        ctx.check(rule, ok and k is not None, f, r, 'cholesky_band returns (%s, matrix)' % k,
                  msg='cholesky_band returns `%s`: not (status-or-index, matrix)' % src(r.value)[:60], construct='cholesky_band return ' + src(r.value)[:60])
    ctx.check(rule, 'success(-1)' in kinds and kinds.count('success(-1)') == 1, f, f.node, 'exactly one success return (-1, L)',
              msg='cholesky_band success return changed: %s' % kinds, construct='success returns')
    # no path falls off the end / stores a mis-shaped block: the value stored into L[:, 0:n] comes only from the banded factorisation of l[:, 0:n]
    stores = [st for st in walk_local(f.node) if isinstance(st, ast.Assign) and isinstance(st.targets[0], ast.Subscript) and src(st.targets[0]).startswith('L[')]
    for st in stores:
        slot = src(st.targets[0].slice)
        ds = [(d, v) for d, v in fa.defs(st.value) if d is not None] if isinstance(st.value, ast.Name) else [(st, st.value)]
        good = bool(ds) and all(v is not None and isinstance(v, ast.Call) and call_name(v) == 'cholesky_banded' and v.args and
                                isinstance(v.args[0], ast.Subscript) and src(v.args[0].slice) == slot for d, v in ds)
        ctx.check('C09.SHAPE-JOIN', good, f, st, 'every definition of the block stored into L[%s] is cholesky_banded(l[%s]) (same shape)' % (slot, slot),
                  msg='a value reaching `%s` is not the factor of l[%s]: %s -- shapes differ and the store raises ValueError instead of '
                      'signalling through the return value' % (src(st), slot, [src(v)[:40] if v is not None else '?' for d, v in ds]),
                  construct='L block definitions: %s' % [src(v)[:40] if v is not None else '?' for d, v in ds])
    # fit(): protocol on the caller side
    g = repo.func(BSPLINE, 'bspline.fit')
    ga = FA(g)
    ctx.cover(g)
    # by role: E = the result of cholesky_band, S = its first element, P = `isinstance(S, int) and S == -1` (in canonical form, names
    # that stand for it expanded).  Under P fit solves and returns status 0; under not P the status is maskpoints(S).
    from ..astutil import path_conditions, clone
    from ..normal import canon_test, canon_key
    from ..fn import expand
    cb = [st for st in walk_local(g.node) if isinstance(st, ast.Assign) and isinstance(st.value, ast.Call) and call_name(st.value) == 'cholesky_band']
    ctx.need(len(cb) == 1 and len(cb[0].targets) == 1, 'fit: the call of cholesky_band not found')
    tgt = cb[0].targets[0]
    if isinstance(tgt, ast.Name):
        S = '%s[0]' % tgt.id
    elif isinstance(tgt, ast.Tuple) and tgt.elts and isinstance(tgt.elts[0], ast.Name):
        S = tgt.elts[0].id
    else:
        raise AnalysisError('C09: fit: the result of cholesky_band is bound in a way this checker does not follow')
    want = {canon_key(ast.parse('isinstance(%s, int)' % S, mode='eval').body), canon_key(ast.parse('%s == -1' % S, mode='eval').body)}

    def polarity(node):
        """+1 when node is only reached under P, -1 under not P, 0 otherwise."""
        def conj(e):
            e = canon_test(e)
            return {canon_key(x) for x in (e.values if isinstance(e, ast.BoolOp) and isinstance(e.op, ast.And) else [e])}
        for t, pol in path_conditions(node):
            te = expand(t, ga, 4)
            holds = conj(te if pol else ast.UnaryOp(op=ast.Not(), operand=clone(te)))          # what is known here
            fails = conj(ast.UnaryOp(op=ast.Not(), operand=clone(te)) if pol else te)          # what is known NOT to hold here
            if want <= holds:
                return 1
            if fails == want:
                return -1
        return 0
    solves = [c for c in walk_local(g.node) if isinstance(c, ast.Call) and call_name(c) == 'cholesky_solve']
    ok = bool(solves) and all(polarity(c) == 1 for c in solves)
    ctx.check(rule, ok, g, solves[0] if solves else g.node, 'fit distinguishes success exactly by `isinstance(%s, int) and %s == -1`: the solve runs only then' % (S, S),
              msg='fit no longer recognises success by the -1 status of cholesky_band', construct='fit success test')
    mp = [c for c in walk_local(g.node) if isinstance(c, ast.Call) and isinstance(c.func, ast.Attribute) and c.func.attr == 'maskpoints']
    okm = len(mp) == 1 and len(mp[0].args) == 1 and src(expand(mp[0].args[0], ga, 3)).replace(' ', '') == S and polarity(mp[0]) == -1
    # every return behind the factorisation: status 0 under P, maskpoints(S) under not P
    okr = True
    for r in walk_local(g.node):
        if isinstance(r, ast.Return) and r.value is not None and getattr(r, 'lineno', 0) > cb[0].lineno:
            v = r.value
            pol = polarity(r)
            if isinstance(v, ast.IfExp) and pol == 0:
                e = canon_test(expand(v.test, ga, 4))
                cj = {canon_key(x) for x in (e.values if isinstance(e, ast.BoolOp) and isinstance(e.op, ast.And) else [e])}
                if cj != want:
                    okr = False
                continue
            st0 = v.elts[0] if isinstance(v, ast.Tuple) and v.elts else None
            if pol == 1:
                okr = okr and st0 is not None and try_fold(st0) == 0
            elif pol == -1:
                okr = okr and st0 is not None and any(st0 is x or any(y is mp_ for y in ast.walk(st0)) for mp_ in mp for x in [st0])
            else:
                okr = False
    ctx.check(rule, okm and okr, g, mp[0] if mp else g.node,
              'every non-success value flows into maskpoints(%s), reached only when the success test fails; success returns status 0' % S,
              msg='the failure value of cholesky_band does not flow into maskpoints', construct='maskpoints call')
    # maskpoints normalises an int before subscripting
    h = repo.func(BSPLINE, 'bspline.maskpoints')
    ha = FA(h)
    ctx.cover(h)
    p = h.params[1]
    subs = [n for n in walk_local(h.node) if isinstance(n, ast.Subscript) and isinstance(n.value, ast.Name) and n.value.id == p]
    ok = True
    for s in subs:
        ds = [(d, v) for d, v in ha.defs(s.value) if d is not None]
        if not all(v is not None and isinstance(v, ast.Call) and call_name(v) in ('atleast_1d', 'asarray', 'array') for d, v in ds):
            ok = False
    ctx.check(rule, ok and bool(subs), h, subs[0] if subs else h.node, 'maskpoints converts its argument with atleast_1d before subscripting (accepts the int index)',
              msg='maskpoints subscripts its argument although cholesky_band can hand it a plain int', construct='maskpoints argument handling')


def check_status(ctx, repo, rule):
    g = repo.func(BSPLINE, 'bspline.fit')
    ga = FA(g)
    rets = [r for r in walk_local(g.node) if isinstance(r, ast.Return)]
    for r in rets:
        ok = isinstance(r.value, ast.Tuple) and len(r.value.elts) == 2
        e = r.value.elts[0] if ok else None
        ok = ok and (isinstance(try_fold(e), int) or (isinstance(e, ast.Call) and call_name(e) == 'maskpoints'))
        ctx.check(rule, ok, g, r, 'fit returns (status, yfit): %s' % (src(e) if e is not None else '?'),
                  msg='fit returns `%s`, not (status code, yfit)' % src(r.value)[:50], construct='fit return ' + src(r.value)[:50])
    early = [r for r in rets if isinstance(r.value, ast.Tuple) and try_fold(r.value.elts[0]) == -2]
    ok = bool(early) and isinstance(early[0]._parent, ast.If) and 'nn < self.nord' in src(early[0]._parent.test)
    if ok:
        act = [c for c in walk_local(g.node) if isinstance(c, ast.Call) and isinstance(c.func, ast.Attribute) and c.func.attr == 'action']
        ok = bool(act) and early[0].lineno < act[0].lineno
    ctx.check(rule, ok, g, early[0] if early else g.node, 'too few good breakpoints returns (-2, zeros) before the data are touched',
              msg='fit no longer returns -2 before touching the data when too few breakpoints are good', construct='early -2 return')
    # maskpoints returns only -1 / -2
    h = repo.func(BSPLINE, 'bspline.maskpoints')
    vals = {try_fold(r.value) for r in walk_local(h.node) if isinstance(r, ast.Return) and r.value is not None}
    ctx.check(rule, vals == {-2, -1}, h, h.node, 'maskpoints returns only the documented codes -1 and -2', msg='maskpoints returns %s' % vals, construct='maskpoints codes')


def check_clip(ctx, repo, rule):
    h = repo.func(BSPLINE, 'bspline.maskpoints')
    ha = FA(h)
    alloc = {}
    for st in walk_local(h.node):
        if isinstance(st, ast.Assign) and isinstance(st.targets[0], ast.Name) and isinstance(st.value, ast.Call) and call_name(st.value) in ('zeros', 'ones', 'empty') and st.value.args:
            alloc[st.targets[0].id] = st.value.args[0]

    def at(e):
        if isinstance(e, ast.Attribute) and isinstance(e.value, ast.Name) and e.value.id == 'self':
            return 'self.' + e.attr
        return None

    def P(e):
        return poly_of(e, atom=at, resolve=lambda n: None if n.id in ('nbkpt',) else ha.resolve(n))
    n = 0
    for st in walk_local(h.node):
        if isinstance(st, ast.Assign) and isinstance(st.targets[0], ast.Subscript) and isinstance(st.targets[0].value, ast.Name) \
                and st.targets[0].value.id in alloc:
            arr = st.targets[0].value.id
            idx = st.targets[0].slice
            # idx = clip(X, lo, hi) + c  (possibly through a name)
            add = Poly.const(0)
            e = idx
            if isinstance(e, ast.BinOp) and isinstance(e.op, ast.Add):
                add = P(e.right)
                e = e.left
            e = ha.deep(e)
            if isinstance(e, ast.BinOp) and isinstance(e.op, ast.Add) and not (isinstance(e, ast.Call)):
                add = add + P(e.right)
                e = ha.deep(e.left)
            if not (isinstance(e, ast.Call) and call_name(e) == 'clip' and len(e.args) == 3):
                raise AnalysisError('C09: maskpoints index `%s` is not a clipped expression' % src(idx))
            try:
                lo, hi = P(e.args[1]) + add, P(e.args[2]) + add
                size = P(alloc[arr])
            except NotPoly as ex:
                raise AnalysisError('C09: maskpoints bounds are not affine: %s' % ex)
            slack_hi = size - Poly.const(1) - hi
            n += 1
            ok = slack_hi.is_const() and slack_hi.const_value() >= 0 and (lo.is_const() and lo.const_value() >= 0 or lo == Poly.atom('self.nord'))
            ctx.check(rule, ok, h, st, 'maskpoints: index into `%s` (size %s) is clamped to [%s, %s] (slack %s)' % (arr, size, lo, hi, slack_hi),
                      msg='maskpoints: the index stored through into `%s` (size %s) is clamped to [%s, %s]: it can reach one past the end (IndexError instead '
                          'of status -1)' % (arr, size, lo, hi), construct='clamp [%s, %s] vs size %s' % (lo, hi, size))
    ctx.need(n >= 1, 'maskpoints: clamped store not found')


def check_coeff_agree(ctx, repo, rule):
    """fit() stores coefficients through the boolean mask self.mask[self.nord:]; value() must read them through the same selection."""
    f = repo.func(BSPLINE, 'bspline.fit')
    v = repo.func(BSPLINE, 'bspline.value')
    fa, va = FA(f), FA(v)
    wsel = set()
    for st in walk_local(f.node):
        if isinstance(st, ast.Assign) and isinstance(st.targets[0], ast.Subscript) and src(st.targets[0].value) == 'self.coeff':
            sl = st.targets[0].slice
            nm = sl.elts[-1] if isinstance(sl, ast.Tuple) else sl
            d = fa.deep(nm)
            wsel.add(src(d).replace(' ', ''))
    rsel = set()
    for n in walk_local(v.node):
        if isinstance(n, ast.Subscript) and src(n.value) == 'self.coeff' and isinstance(n.ctx, ast.Load):
            sl = n.slice
            nm = sl.elts[-1] if isinstance(sl, ast.Tuple) else sl
            d = va.deep(nm)
            rsel.add(src(d).replace(' ', ''))
    norm = lambda s: s.replace('.nonzero()[0]', '')
    ok = bool(wsel) and bool(rsel) and {norm(x) for x in wsel} == {norm(x) for x in rsel} == {'self.mask[self.nord:]'}
    ctx.check(rule, ok, v, v.node, 'coefficients are written (fit) and read (value) through the same selection self.mask[self.nord:]',
              msg='fit() stores coefficients through %s but value() reads them through %s: after a breakpoint has been masked the evaluation uses '
                  'coefficients from the wrong slots' % (sorted(wsel), sorted(rsel)), construct='coefficient selection write %s read %s' % (sorted(wsel), sorted(rsel)))


def check_chol_nomut(ctx, repo, rule):
    for q in ('cholesky_band', 'cholesky_solve'):
        f = repo.func(BSPLINE, q)
        fa = FA(f)
        ctx.cover(f)
        params = set(f.params)
        bad = []
        for c in walk_local(f.node):
            if isinstance(c, ast.Call):
                for k in c.keywords:
                    if k.arg and k.arg.startswith('overwrite') and try_fold(k.value) is True:
                        if any(isinstance(x, ast.Name) and x.id in params for a in c.args for x in ast.walk(a)):
                            bad.append((c, 'passes %s=True to %s with a view of its own argument' % (k.arg, call_name(c))))
        for st in walk_local(f.node):
            tg = None
            if isinstance(st, ast.Assign):
                tg = [t for t in st.targets if isinstance(t, ast.Subscript)]
            elif isinstance(st, ast.AugAssign):
                tg = [st.target]
            for t in tg or []:
                b = t
                while isinstance(b, (ast.Subscript, ast.Attribute)):
                    b = b.value
                if isinstance(b, ast.Name) and b.id in params and any(isinstance(d, ast.arg) for d, v in fa.rd.reaching(b.id, st)):
                    bad.append((st, 'writes into its argument `%s`' % b.id))
        ctx.check(rule, not bad, f, bad[0][0] if bad else f.node, '%s does not modify the caller\'s matrix' % q,
                  msg='%s %s: the caller\'s A is overwritten, so L*L^T = A and A*x = b no longer hold for the matrix the caller holds'
                      % (q, bad[0][1] if bad else ''), construct='%s mutates its input' % q)


# ------------------------------------------------------------------------------------------ C10

def check_iterfit_order(ctx, repo, rule):
    f = repo.func(BSPLINE, 'iterfit')
    fa = FA(f)
    ctx.cover(f)
    oa = OrderAnalysis(fa, aligned_params=['xdata', 'ydata', 'invvar', 'x2'],
                       tuple_aligned_calls={'djs_reject': (0,), 'fit': (1,)}).run()
    rets = [r for r in walk_local(f.node) if isinstance(r, ast.Return) and isinstance(r.value, ast.Tuple) and len(r.value.elts) == 2]
    ctx.need(rets, 'iterfit: `return (sset, outmask)` not found')
    for r in rets:
        e = r.value.elts[1]
        bad = order_violations(oa, e, r)
        tags = sorted(fmt(t) for t in oa.tags_at(e, r))
        ctx.check(rule, not bad, f, r, 'iterfit returns its mask in the caller\'s order at line %d (tags %s)' % (r.lineno, tags),
                  msg='iterfit returns a mask (`%s`) that is in sorted order / mixed order, not in the caller\'s order: %s'
                      % (src(e), '; '.join(fmt(t) for t in bad)[:200]),
                  construct='returned mask order: %s' % '; '.join(sorted(t[1][:70] if t[0] == 'BAD' else fmt(t) for t in bad)))
    # work arrays are gathers
    for nm in ('xwork', 'ywork', 'invwork'):
        st = [s for s in walk_local(f.node) if isinstance(s, ast.Assign) and src(s.targets[0]) == nm]
        tg = oa.tags_at(st[0].value, st[0]) if len(st) == 1 else frozenset()
        ok = len(st) == 1 and any(t[0] == 'G' for t in tg) and all(t[0] in ('G', 'N', 'T') for t in tg)
        ctx.check(rule, ok, f, st[0] if st else f.node, '%s is the input gathered by the sort permutation' % nm,
                  msg='%s is not the corresponding input gathered by xsort' % nm, construct='%s definition' % nm)
    # constructor receives sorted abscissae
    ctor = [c for c in walk_local(f.node) if isinstance(c, ast.Call) and isinstance(c.func, ast.Name) and c.func.id == 'bspline']
    for c in ctor:
        tags = oa.tags_at(c.args[0], c)
        gish = [t for t in tags if t[0] == 'G' or (t[0] == 'SUB' and t[1][0] == 'G')]
        callerish = [t for t in tags if t == ID or (t[0] == 'SUB' and t[1] == ID) or t[0] == 'BAD']
        sorted_ok = bool(gish) and not callerish
        ctx.check('C10.CTOR-SORTED', sorted_ok, f, c, 'the spline set is built from the sorted good abscissae (%s)' % sorted(fmt(t) for t in tags),
                  msg='bspline(...) is constructed from abscissae in %s: breakpoint placement by every-n / positions then depends on the input order'
                      % sorted(fmt(t) for t in tags), construct='bspline constructor argument: ' + src(c.args[0]))
    return oa


def check_iterfit_masks(ctx, repo):
    f = repo.func(BSPLINE, 'iterfit')
    fa = FA(f)
    fits = [c for c in walk_local(f.node) if isinstance(c, ast.Call) and isinstance(c.func, ast.Attribute) and c.func.attr == 'fit' and len(c.args) >= 3]
    ctx.need(fits, 'iterfit: sset.fit call not found')
    for c in fits:
        w = c.args[2]
        ok = isinstance(w, ast.BinOp) and isinstance(w.op, ast.Mult) and {src(w.left), src(w.right)} == {'invwork', 'maskwork'}
        ctx.check('C10.WEIGHT-MASK', ok, f, c, 'the fit is weighted by invwork*maskwork (rejected and zero-weight points carry no weight)',
                  msg='sset.fit is weighted by `%s`, not by inverse variance times the working mask' % src(w), construct='fit weights ' + src(w))
    mw = [st for st in walk_local(f.node) if isinstance(st, ast.Assign) and src(st.targets[0]) == 'maskwork']
    first = mw[0] if mw else None
    ok = first is not None and 'invvar > 0' in src(fa.deep(first.value) if isinstance(first.value, ast.Name) else first.value) or \
        (first is not None and any('invvar > 0' in src(v) for n in ast.walk(first.value) if isinstance(n, ast.Name) for d, v in fa.defs(n) if v is not None))
    ctx.check('C10.WEIGHT-MASK', bool(ok), f, first or f.node, 'the working mask starts as invvar > 0 (non-positive weights are never used)',
              msg='the initial working mask does not contain invvar > 0', construct='initial maskwork')
    # MASK-EXITS: every returned mask has been combined with the working mask (which carries invvar > 0)
    rets = [r for r in walk_local(f.node) if isinstance(r, ast.Return) and isinstance(r.value, ast.Tuple) and len(r.value.elts) == 2]
    ctx.need(rets, 'iterfit: no (sset, mask) return found')
    cfg = fa.cfg
    for r in rets:
        mk = r.value.elts[1]
        ok = False
        why = 'the returned mask `%s` is not a plain name' % src(mk)
        if isinstance(mk, ast.Name):
            scat = [st for st in walk_local(f.node) if isinstance(st, ast.Assign) and isinstance(st.targets[0], ast.Subscript)
                    and isinstance(st.targets[0].value, ast.Name) and st.targets[0].value.id == mk.id and 'maskwork' in src(st.value)]
            direct = [st for st in walk_local(f.node) if isinstance(st, ast.Assign) and isinstance(st.targets[0], ast.Name) and st.targets[0].id == mk.id
                      and ('maskwork' in src(st.value) or 'invvar > 0' in src(st.value))]
            through = [n for st in scat + direct for n in cfg.nodes_of(st)]
            targets = cfg.nodes_of(r)
            seen = cfg.reachable_from([cfg.entry], avoid=through)
            ok = bool(through) and bool(targets) and not any(t.id in seen for t in targets)
            why = 'a path reaches `return (..., %s)` at line %d without `%s[xsort] = maskwork`: the all-True initial mask is returned' % (mk.id, r.lineno, mk.id)
        ctx.check('C10.MASK-EXITS', ok, f, r, 'return at line %d: the mask has received the working mask (invvar > 0 and rejections) on every path' % r.lineno,
                  msg='iterfit: %s, so points with non-positive inverse variance are flagged True' % why,
                  construct='mask returned without the working mask: ' + src(r)[:60])
    rej = [c for c in walk_local(f.node) if isinstance(c, ast.Call) and call_name(c) == 'djs_reject']
    ctx.need(rej, 'iterfit: djs_reject call not found')
    for c in rej:
        kw = {k.arg: k.value for k in c.keywords}
        inm = kw.get('inmask')
        okin = inm is not None
        if okin:
            d = fa.deep(inm)
            okin = src(d) == 'maskwork' or src(inm) == 'maskwork'
        if not okin:
            # equivalent idiom: sticky=True with the working mask as outmask (djs_reject then ANDs the previous mask itself)
            okin = try_fold(kw.get('sticky')) is True and src(kw.get('outmask')) == 'maskwork'
        ctx.check('C10.INMASK', okin, f, c, 'djs_reject receives the previous working mask as inmask (points rejected earlier never return)',
                  msg='djs_reject is called with inmask=%s, not the previous working mask' % (src(inm) if inm is not None else 'None'), construct='inmask argument')
        ctx.check('C10.INMASK', src(kw.get('outmask')) == 'maskwork' and src(kw.get('invvar')) == 'invwork' and [src(a) for a in c.args[:2]] == ['ywork', 'yfit'], f, c,
                  'djs_reject compares ywork with yfit using invwork and updates maskwork', msg='djs_reject arguments changed: %s' % src(c)[:100], construct='reject arguments')
        ctx.check('C10.LIMITS', src(kw.get('lower')) == 'lower' and src(kw.get('upper')) == 'upper', f, c, 'lower and upper reach djs_reject unchanged',
                  msg='iterfit passes lower=%s, upper=%s to djs_reject' % (src(kw.get('lower')), src(kw.get('upper'))), construct='limits arguments')
    for p in ('lower', 'upper'):
        re = [st for st in walk_local(f.node) if isinstance(st, (ast.Assign, ast.AugAssign)) and any(
            isinstance(t, ast.Name) and t.id == p for t in (st.targets if isinstance(st, ast.Assign) else [st.target]))]
        ctx.check('C10.LIMITS', not re, f, re[0] if re else f.node, '%s is not rebound inside iterfit' % p, msg='%s is modified before it reaches djs_reject' % p, construct='%s rebound' % p)


def check_iterfit_loop(ctx, repo):
    f = repo.func(BSPLINE, 'iterfit')
    fa = FA(f)
    loops = [n for n in walk_local(f.node) if isinstance(n, ast.While) and any(isinstance(c, ast.Call) and call_name(c) == 'djs_reject' for c in walk_local(n))]
    ctx.need(len(loops) == 1, 'iterfit: rejection loop not found')
    lp = loops[0]
    t = lp.test
    s = src(t)
    ctx.check('C10.LOOP', 'iiter <= maxiter' in s and isinstance(t, ast.BoolOp) and isinstance(t.op, ast.And), f, lp,
              'the loop is bounded by iiter <= maxiter (the first fit happens for maxiter = 0)', msg='the loop is not bounded by iiter <= maxiter: %s' % s, construct='loop bound')
    inc = [st for st in walk_local(lp) if isinstance(st, ast.AugAssign) and src(st.target) == 'iiter' and isinstance(st.op, ast.Add)]
    ctx.check('C10.LOOP', bool(inc) and inc[0] in lp.body, f, inc[0] if inc else lp, 'iiter is incremented once per pass',
              msg='iiter is not incremented unconditionally in the loop body', construct='iiter increment')
    # the completion flag: djs_reject returns a bool; the loop must continue exactly while it is False
    qnames = set()
    for st in walk_local(lp):
        if isinstance(st, ast.Assign) and isinstance(st.targets[0], ast.Tuple) and isinstance(st.value, ast.Call) and call_name(st.value) == 'djs_reject':
            if len(st.targets[0].elts) == 2 and isinstance(st.targets[0].elts[1], ast.Name):
                qnames.add(st.targets[0].elts[1].id)
    ctx.need(len(qnames) == 1, 'iterfit: completion flag of djs_reject not bound to a name')
    q = qnames.pop()
    sub = None
    for x in ast.walk(t):
        if isinstance(x, (ast.Compare, ast.UnaryOp, ast.Name)) and any(isinstance(y, ast.Name) and y.id == q for y in ast.walk(x)):
            if isinstance(x, ast.Name):
                par = getattr(x, '_parent', None)
                if isinstance(par, (ast.Compare,)) or (isinstance(par, ast.UnaryOp) and isinstance(par.op, ast.Not)):
                    continue
            if not any(isinstance(y, ast.Name) and y.id != q for y in ast.walk(x)):
                sub = x
                break
    ctx.need(sub is not None, 'iterfit: the loop condition does not mention the completion flag')

    def ev(val):
        try:
            return bool(fold(sub, env={q: val}))
        except NoFold:
            return None
    on_false, on_true = ev(False), ev(True)
    ctx.check('C10.LOOP', on_false is True and on_true is False, f, lp,
              'the loop continues while djs_reject reports a changed mask: `%s` is True for %s=False and False for %s=True' % (src(sub), q, q),
              msg='the loop condition tests `%s`, which is %s when djs_reject returns False (mask changed) and %s when it returns True: the documented '
                  'fit - reject - refit iteration stops after the first rejection pass, so the returned curve still contains the outliers'
                  % (src(sub), on_false, on_true), construct='completion test ' + src(sub))
    # the flag's initial value lets the first pass run
    init = [st for st in walk_local(f.node) if isinstance(st, ast.Assign) and src(st.targets[0]) == q and st.lineno < lp.lineno]
    ok = bool(init) and ev(try_fold(init[-1].value)) is True
    ctx.check('C10.LOOP', ok, f, init[-1] if init else lp, 'the initial value of %s lets the first pass run' % q,
              msg='the initial value of %s does not let the first fit run' % q, construct='initial completion flag')
    # the curve that is returned is the one the last rejection pass judged: no fit of the spline set outside the loop
    fits = [c for c in walk_local(f.node) if isinstance(c, ast.Call) and isinstance(c.func, ast.Attribute) and c.func.attr == 'fit'
            and not any(a is lp for a in ancestors(c))]
    ctx.check('C10.LOOP', not fits, f, fits[0] if fits else lp, 'the spline set is fitted inside the fit-reject loop only',
              msg='iterfit fits the spline set again outside the fit - reject loop (`%s`): the returned curve is then a fit to a mask that no rejection pass has '
                  'judged, one iteration beyond maxiter' % (src(fits[0])[:60] if fits else ''), construct='fit outside the loop')
    # the un-sort scatter post-dominates the loop on the normal path
    sc = [st for st in walk_local(f.node) if isinstance(st, ast.Assign) and src(st.targets[0]) == 'outmask[xsort]']
    sc = [st for st in sc if st.lineno > lp.end_lineno]        # (early exits scatter too; this obligation is about the normal path)
    ctx.check('C10.LOOP', len(sc) == 1 and src(sc[0].value) == 'maskwork', f, sc[0] if sc else lp,
              'after the loop the working mask is scattered back: outmask[xsort] = maskwork', msg='the final un-sort of the mask is missing or altered', construct='final scatter')


FLOATS = {'float64', 'float32', 'float', 'float_', 'double', 'longdouble', 'd', 'f8', 'f4', 'f'}


def floating_dtype(e, fa, depth=0):
    """True when the dtype expression is floating whatever the type of the data it may be derived from."""
    if isinstance(e, ast.Constant):
        return e.value in FLOATS
    d = dotted(e)
    if d and d.split('.')[-1] in FLOATS:
        return True
    if isinstance(e, ast.Call) and call_name(e) in ('result_type', 'promote_types'):
        return any(floating_dtype(a, fa, depth + 1) for a in e.args)
    if isinstance(e, ast.Name) and depth < 4:
        ds = fa.defs(e)
        return bool(ds) and all(v is not None and floating_dtype(v, fa, depth + 1) for d_, v in ds)
    return False


def check_float_work(ctx, repo, rule):
    """The arrays that receive basis values (bsplvn) and spline values (value) are floating whatever the dtype of the evaluation
    points: with dtype=x.dtype integer abscissae truncate every basis value to 0 or 1, and a dtype borrowed from the breakpoints
    truncates for whole-number breakpoint arrays."""
    n = 0
    for q in ('bspline.bsplvn', 'bspline.value'):
        f = repo.func(BSPLINE, q)
        fa = FA(f)
        for c in walk_local(f.node):
            if isinstance(c, ast.Call) and call_name(c) in ('zeros', 'ones', 'empty') and any(k.arg == 'dtype' for k in c.keywords):
                dt = [k.value for k in c.keywords if k.arg == 'dtype'][0]
                if isinstance(dt, ast.Constant) and isinstance(dt.value, str) and dt.value[:1] in 'iub?':
                    continue              # index / mask arrays
                if dotted(dt) and dotted(dt).split('.')[-1] in ('bool', 'bool_', 'int32', 'int64', 'intp'):
                    continue
                n += 1
                ctx.check(rule, floating_dtype(dt, fa), f, c, '%s: work array `%s` is floating for every input type' % (q, src(c)[:60]),
                          msg='%s allocates `%s`: the dtype is inherited from the data (%s), so integer evaluation points or whole-number breakpoints '
                              'truncate the basis / spline values to integers' % (q, src(c)[:70], src(dt)), construct='%s work dtype %s' % (q, src(dt)))
    ctx.need(n >= 2, 'bsplvn / value: work array allocations not found')


def check_chol_screen(ctx, repo, rule):
    """cholesky_band: a non-finite entry ANYWHERE in the band is reported through the return value (an explicit isfinite screen over the
    whole matrix precedes the factorisation); a failure value that may be an empty index list is handled by maskpoints; the
    weighted design matrix of fit() is weighted on every path."""
    f = repo.func(BSPLINE, 'cholesky_band')
    fa = FA(f)
    ctx.cover(f)
    lname = f.params[0]
    screens = [c for c in walk_local(f.node) if isinstance(c, ast.Call) and call_name(c) == 'isfinite' and c.args and src(c.args[0]) == lname]
    facts = [c for c in walk_local(f.node) if isinstance(c, ast.Call) and call_name(c) == 'cholesky_banded']
    ctx.need(facts, 'cholesky_band: call of cholesky_banded not found')
    guarded = False
    for sc in screens:
        for a in ancestors(sc):
            if isinstance(a, ast.If) and any(sc is x for x in ast.walk(a.test)) and any(isinstance(st, ast.Return) for st in a.body) \
                    and a.lineno < facts[0].lineno:
                guarded = True
    ctx.check(rule, guarded, f, screens[0] if screens else facts[0], 'every entry of the band is screened with np.isfinite before the factorisation, with a failure return',
              msg='cholesky_band factors the matrix without an np.isfinite screen over the whole band (%s): a NaN in an off-diagonal band with a positive '
                  'diagonal comes back as success (-1) with a non-finite factor, or as an exception from scipy'
                  % ('only part of it is tested' if not screens else 'the screen does not lead to a failure return'), construct='no finite screen in cholesky_band')
    # the failure value may be empty -> maskpoints must cope
    g = repo.func(BSPLINE, 'bspline.maskpoints')
    ctx.cover(g)
    rets = [r for r in walk_local(f.node) if isinstance(r, ast.Return) and r.value is not None and isinstance(r.value, ast.Tuple)
            and 'nonzero' in src(r.value.elts[0])]
    may_be_empty = False
    for r in rets:
        for a in ancestors(r):
            if isinstance(a, ast.If) and isinstance(a.test, ast.BoolOp) and isinstance(a.test.op, ast.Or) and len(a.test.values) > 1:
                may_be_empty = True
    if may_be_empty:
        err = g.params[1] if len(g.params) > 1 else 'err'
        first_index = [n for n in walk_local(g.node) if isinstance(n, ast.Subscript) and isinstance(n.value, ast.Name) and n.value.id == err and isinstance(n.ctx, ast.Load)]
        guards = [n for n in walk_local(g.node) if isinstance(n, ast.If) and any(isinstance(st, ast.Return) for st in n.body)
                  and src(n.test).replace(' ', '') in ('%s.size==0' % err, 'len(%s)==0' % err, 'not%s.size' % err, '%s.size<1' % err)]
        ok = bool(guards) and (not first_index or guards[0].lineno < first_index[0].lineno)
        ctx.check(rule, ok, g, first_index[0] if first_index else g.node, 'maskpoints returns a status for an empty list of failing columns',
                  msg='cholesky_band can hand back an empty index list (non-finite entries, no non-positive diagonal) and maskpoints indexes it without a guard: '
                      'fit() raises IndexError instead of returning a status code', construct='maskpoints on an empty failure list')
    # weighted design
    h = repo.func(BSPLINE, 'bspline.fit')
    ha = FA(h)
    uses = [n for n in walk_local(h.node) if isinstance(n, ast.Name) and n.id == 'a2' and isinstance(n.ctx, ast.Load)]
    ctx.need(uses, 'bspline.fit: weighted design a2 not found')
    bad = []
    for u_ in uses[:1]:
        for d, v in ha.defs(u_):
            if v is None:
                continue
            names = {x.id for x in ast.walk(v) if isinstance(x, ast.Name)}
            deep_names = set(names)
            for x in ast.walk(v):
                if isinstance(x, ast.Name) and x.id not in ('a1', 'np'):
                    for d2, v2 in ha.defs(x):
                        if v2 is not None:
                            deep_names |= {y.id for y in ast.walk(v2) if isinstance(y, ast.Name)}
            if not ('a1' in names and 'invvar' in deep_names):
                bad.append(v)
    ctx.check(rule, not bad, h, bad[0] if bad else uses[0], 'the design matrix entering the normal equations is a1 times the weights on every path',
              msg='on some path the weighted design is `a2 = %s`, without the inverse variances: the matrix and the min_influence threshold (still scaled by '
                  'invvar.sum()) no longer match, and all-zero weights produce a status-0 fit' % (src(bad[0])[:40] if bad else ''),
              construct='unweighted design a2 = ' + (src(bad[0])[:40] if bad else ''))

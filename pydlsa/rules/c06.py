"""C06 -- SDSS objID / specObjID packing is a bijection with the documented bit layout.

Everything that matters is constants and their agreement: the pack expression, the range guards
that dominate it, the unpack shift/mask pairs, the MJD offset on every path and the run2d radix
are extracted from the AST and compared with the published SDSS layout (frozen oracle).
"""

import ast
import re

from .. import AnalysisError
from ..astutil import clone, src, fold, NoFold, try_fold, call_name, dotted, walk_local, docstring_of, ancestors, parent
from ..fn import FA
from ..intset import IntSet
from ..pred import rejected, NotRange
from ..poly import poly_of, NotPoly, Poly

META = {
    'property': 'C06',
    'title': 'SDSS objID/specObjID packing is a bijection with the documented bit layout',
    'technique': 'constant/table extraction from the AST compared with a frozen bit-layout oracle; guard dominance on '
                 'the CFG; integer-interval extraction from guard predicates; reaching-definition offset normal forms; '
                 'polynomial form of the run2d radix',
    'explanation': (
        'Decided (pydl/pydlutils/sdss.py sdss_objid, sdss_specobjid, unwrap_specobjid; pydl/photoop/photoobj.py '
        'unwrap_objid): C06.PACK - the returned expression is an OR of (field << shift) terms whose (field, shift, '
        'width) equal the published SDSS layout, widths tile without overlap and the top field ends at bit 62/63; '
        'C06.DOC - the bit table in each docstring equals the same layout; C06.GUARD - every packed field has range '
        'guards raising ValueError that dominate the pack and reject exactly the complement of the documented range '
        '(interval arithmetic on the guard predicate: looser wraps into neighbouring bits, tighter rejects valid IDs); '
        'C06.SHAPE - all packed fields are shape-compared under a ValueError guard; C06.EXCL - line and index both '
        'given raises ValueError before anything else; C06.CAST - every operand of the specObjID pack is cast to '
        'uint64; C06.UNPACK - each unpacked field uses the pack shift, mask 2^w-1 and the negated pack offset; '
        'C06.PATH-OFFSET - every definition of a packed field reaching the pack is parameter + c with the same c on '
        'every path (scalar and array calls agree); C06.RUN2D - the vN_M_P radix agrees between pack, unpack and the '
        'regex; C06.NOMUT - no in-place write to a caller-supplied array; C06.STRCONV - string IDs are converted with '
        'astype to the 64-bit type before shifting. C06.WIDE - every shifted objID operand is 64 bits wide on every path (the caller\'s own int16/int32 array is never shifted in its own width); C06.RUN2D also: the run2d column is filled per element (a value taken from element 0 is broadcast only under an .all() guard). Table-driven spellings are partially evaluated first (pydlsa/normalize.py), so the same rules judge `for name in (...)` versions of packer and unpacker. NOT decided: numpy integer semantics (trusted base); nothing '
        'else behavioural remains.'),
    'floors': {'C06.WIDE': 6, 'C06.PACK': 13, 'C06.GUARD': 13, 'C06.SHAPE': 11, 'C06.EXCL': 1, 'C06.CAST': 6, 'C06.UNPACK': 12,
               'C06.PATH-OFFSET': 13, 'C06.RUN2D': 6, 'C06.DOC': 2},
    'trusted_base': ['published SDSS objID / specObjID bit layouts (frozen oracle in pydlsa/rules/c06.py)'],
}

SDSS = 'pydl/pydlutils/sdss.py'
PHOTOOBJ = 'pydl/photoop/photoobj.py'

# (field = API parameter name, shift, width)
OBJID = [('skyversion', 59, 4), ('rerun', 48, 11), ('run', 32, 16), ('camcol', 29, 3),
         ('firstfield', 28, 1), ('field', 16, 12), ('objnum', 0, 16)]
SPECOBJID = [('plate', 50, 14), ('fiber', 38, 12), ('mjd', 24, 14), ('run2d', 10, 14), ('line', 0, 10), ('index', 0, 10)]
VALID = {'camcol': IntSet.range(1, 6)}
PACK_OFFSET = {'mjd': -50000}
UNPACK_NAMES = {'field': 'frame', 'objnum': 'id'}          # record-array column names that differ
DOC_NAMES = {'skyversion': 'skyversion', 'rerun': 'rerun', 'run': 'run', 'camcol': 'camcol', 'firstfield': 'firstfield',
             'field': 'field', 'object': 'objnum', 'plate id': 'plate', 'fiber id': 'fiber', 'mjd': 'mjd', 'run2d': 'run2d',
             'line/index': 'line'}
CASTS = {'astype', 'uint64', 'int64', 'uint32', 'int32', 'asarray', 'array', 'atleast_1d', 'int', 'ascontiguousarray'}


def valid_range(field, width):
    return VALID.get(field, IntSet.range(0, 2 ** width - 1))


def strip_casts(e):
    """X.astype(T) / np.uint64(X) / np.asarray(X) / np.array([X]) / int(X) -> X."""
    while True:
        if isinstance(e, ast.Call):
            nm = call_name(e)
            if nm == 'astype' and isinstance(e.func, ast.Attribute):
                e = e.func.value
                continue
            if nm in CASTS and e.args:
                a = e.args[0]
                if isinstance(a, (ast.List, ast.Tuple)) and len(a.elts) == 1:
                    a = a.elts[0]
                e = a
                continue
        return e


def is_uint64_cast(e, module_imports=None):
    if isinstance(e, ast.Call):
        nm = call_name(e)
        if nm == 'astype' and e.args:
            t = e.args[0]
            d = dotted(t)
            if d and d.split('.')[-1] == 'uint64':
                return True
            if isinstance(t, ast.Constant) and t.value in ('u8', 'uint64', '<u8', '=u8'):
                return True
            return False
        if nm == 'uint64':
            return True
        if nm in ('array', 'asarray', 'zeros'):
            for k in e.keywords:
                if k.arg == 'dtype':
                    d = dotted(k.value)
                    if (d and d.split('.')[-1] == 'uint64') or (isinstance(k.value, ast.Constant) and k.value.value in ('u8', 'uint64')):
                        return True
    return False


def flatten_or(e):
    if isinstance(e, ast.BinOp) and isinstance(e.op, (ast.BitOr, ast.Add)):
        return flatten_or(e.left) + flatten_or(e.right)
    if isinstance(e, ast.Call) and call_name(e) in ('bitwise_or', 'add') and len(e.args) == 2:
        return flatten_or(e.args[0]) + flatten_or(e.args[1])
    return [e]


def shift_term(e, resolver):
    """(operand expr, shift) for X << k, X * 2**k, np.left_shift(X, k), X."""
    if isinstance(e, ast.BinOp) and isinstance(e.op, ast.LShift):
        amount = e.right
        while isinstance(amount, ast.Call) and call_name(amount) in ('uint64', 'int64', 'int', 'uint32', 'int32') and len(amount.args) == 1:
            amount = amount.args[0]
        k = try_fold(amount, resolver=resolver)
        if isinstance(k, int):
            return e.left, k
        raise AnalysisError('C06: shift amount %s is not a constant' % src(e.right))
    if isinstance(e, ast.BinOp) and isinstance(e.op, ast.Mult):
        for a, b in ((e.left, e.right), (e.right, e.left)):
            c = try_fold(b, resolver=resolver)
            if isinstance(c, int) and c > 0 and c & (c - 1) == 0:
                return a, c.bit_length() - 1
    if isinstance(e, ast.Call) and call_name(e) == 'left_shift' and len(e.args) == 2:
        k = try_fold(e.args[1], resolver=resolver)
        if isinstance(k, int):
            return e.args[0], k
    return e, 0


class Origins:
    """Normal form `parameter + c` of every definition of a name that reaches a use."""

    def __init__(self, fa):
        self.fa = fa
        self.params = set(fa.func.params)

    def of_name(self, name_node, seen=None, at=None):
        seen = seen if seen is not None else set()
        out = []
        for d, v in (self.fa.rd.reaching(name_node.id, at) if at is not None else self.fa.defs(name_node)):
            if d is None:
                continue
            key = (id(d), name_node.id)
            if key in seen:
                continue
            seen2 = seen | {key}
            if isinstance(d, ast.arg):
                out.append((d.arg, 0, 'param', d))
                continue
            br = self._branch_kind(d, name_node.id)
            if br == 'str':
                out.append((name_node.id if name_node.id in self.params else None, 'str', 'string-decoded', d))
                continue
            if isinstance(d, ast.AugAssign):
                c = try_fold(d.value, resolver=self.fa.resolve)
                inner = self.of_name(d.target, seen2, at=d)
                if isinstance(d.op, (ast.Add, ast.Sub)) and isinstance(c, int):
                    sgn = 1 if isinstance(d.op, ast.Add) else -1
                    out.extend((p, (o + sgn * c) if isinstance(o, int) else o, k, d) for p, o, k, _ in inner)
                else:
                    out.append((None, '?', 'augmented assignment ' + src(d), d))
                continue
            if v is None:
                out.append((None, '?', 'unpacked or opaque binding ' + src(d).split('\n')[0], d))
                continue
            out.extend(self._of_expr(v, d, name_node.id, seen2))
        return out

    def _branch_kind(self, d, name):
        for a in ancestors(d):
            if isinstance(a, ast.If):
                t = a.test
                if isinstance(t, ast.Call) and call_name(t) == 'isinstance' and len(t.args) == 2:
                    ty = dotted(t.args[1])
                    if ty in ('str', 'bytes') and isinstance(t.args[0], ast.Name) and _in_body(a, d):
                        return 'str'
        return None

    def _default_guard(self, d, value_const_expr):
        """The definition sits in the true branch of `p == E` (E structurally equal to the constant
        expression assigned) or of `p is None` -> the value equals the parameter / its documented default."""
        for a in ancestors(d):
            if isinstance(a, ast.If) and _in_body(a, d):
                t = a.test
                if isinstance(t, ast.Compare) and len(t.ops) == 1 and isinstance(t.left, ast.Name) and t.left.id in self.params:
                    if isinstance(t.ops[0], ast.Is) and isinstance(t.comparators[0], ast.Constant) and t.comparators[0].value is None:
                        return t.left.id
                    if isinstance(t.ops[0], ast.Eq) and value_const_expr is not None:
                        if ast.dump(t.comparators[0]) == ast.dump(value_const_expr):
                            return t.left.id
                        a1 = try_fold(t.comparators[0])
                        a2 = try_fold(value_const_expr)
                        if a1 is not None and a1 == a2:
                            return t.left.id
        return None

    def _of_expr(self, v, d, name, seen):
        if isinstance(v, ast.BoolOp) and isinstance(v.op, ast.Or) and len(v.values) == 2 and isinstance(v.values[0], ast.Name) \
                and v.values[0].id in self.params:
            # `p or E` replaces every falsy p -- including the legitimate field value 0 -- by E
            e = try_fold(v.values[1])
            if e == 0:
                return [(p, o, k, d) for p, o, k, _ in self.of_name(v.values[0], seen)]
            return [(v.values[0].id, 'or-default', '`%s` replaces the valid value 0 by %s' % (src(v), src(v.values[1])), d)]
        if isinstance(v, ast.Name):
            return [(p, o, k, d) for p, o, k, _ in self.of_name(v, seen)]
        if isinstance(v, ast.BinOp) and isinstance(v.op, (ast.Add, ast.Sub)):
            # zeros(...) + E   (constant array)
            for a, b in ((v.left, v.right), (v.right, v.left)):
                if isinstance(a, ast.Call) and call_name(a) in ('zeros', 'zeros_like') and isinstance(v.op, ast.Add):
                    if isinstance(b, (ast.BoolOp, ast.Name)) and not isinstance(self._default_guard(d, b), str):
                        inner = self._of_expr(b, d, name, seen)
                        if inner and all(x[0] is not None for x in inner):
                            return inner          # zeros(shape) + <scalar expression of a parameter>: broadcast of that value
                    p = self._default_guard(d, b)
                    if p is not None:
                        return [(p, 0, 'default/constant branch', d)]
                    return [(None, '?', 'constant array outside a `param == const` branch: ' + src(v), d)]
            c = try_fold(v.right, resolver=self.fa.resolve)
            if isinstance(c, int):
                sgn = 1 if isinstance(v.op, ast.Add) else -1
                inner = self._of_expr(v.left, d, name, seen)
                return [(p, (o + sgn * c) if isinstance(o, int) else o, k, d) for p, o, k, _ in inner]
            c = try_fold(v.left, resolver=self.fa.resolve)
            if isinstance(c, int) and isinstance(v.op, ast.Add):
                inner = self._of_expr(v.right, d, name, seen)
                return [(p, (o + c) if isinstance(o, int) else o, k, d) for p, o, k, _ in inner]
        if isinstance(v, ast.Call):
            nm = call_name(v)
            if nm in ('zeros', 'zeros_like'):
                p = self._default_guard(d, ast.Constant(value=0))
                if p is not None:
                    return [(p, 0, 'default/constant branch', d)]
            s = strip_casts(v)
            if s is not v:
                return self._of_expr(s, d, name, seen)
            p = self._default_guard(d, v)
            if p is not None:
                return [(p, 0, 'default/constant branch', d)]
        if isinstance(v, ast.Constant):
            p = self._default_guard(d, v)
            if p is not None:
                return [(p, 0, 'default/constant branch', d)]
        return [(None, '?', 'definition not of the form parameter + c: ' + src(v)[:80], d)]


def _kind_guard(t):
    """For a guard `X.dtype.kind != 'i'` / `X.dtype.kind not in 'iu'` (the raising condition): the set of kinds that pass; else None."""
    if isinstance(t, ast.Compare) and len(t.ops) == 1 and isinstance(t.left, ast.Attribute) and t.left.attr == 'kind' \
            and isinstance(t.left.value, ast.Attribute) and t.left.value.attr == 'dtype':
        c = t.comparators[0]
        vals = None
        if isinstance(c, ast.Constant) and isinstance(c.value, str):
            vals = set(c.value) if isinstance(t.ops[0], (ast.In, ast.NotIn)) else {c.value}
        elif isinstance(c, (ast.Tuple, ast.List, ast.Set)) and all(isinstance(e, ast.Constant) and isinstance(e.value, str) for e in c.elts):
            vals = {e.value for e in c.elts}
        if vals is None:
            return None
        if isinstance(t.ops[0], (ast.NotEq, ast.NotIn)):
            return vals                       # raises unless kind in vals
        if isinstance(t.ops[0], (ast.Eq, ast.In)):
            return set('biufcmMOSUV') - vals  # raises when kind in vals
    return None


def _in_body(ifnode, d):
    for st in ifnode.body:
        for n in ast.walk(st):
            if n is d:
                return True
    return False


def find_pack(fa):
    rets = [r for r in fa.returns() if r.value is not None]
    if len(rets) != 1:
        raise AnalysisError('C06: %s has %d value returns, expected exactly one pack expression' % (fa.func.qualname, len(rets)))
    e = fa.deep(rets[0].value)
    terms = flatten_or(e)
    if len(terms) < 2 and isinstance(e, ast.Name):
        # accumulated form: acc = np.zeros(...) / 0, then acc |= term (or +=) in straight-line code
        body = fa.func.node.body
        init = [st for st in body if isinstance(st, ast.Assign) and src(st.targets[0]) == e.id]
        accs = [st for st in body if isinstance(st, ast.AugAssign) and src(st.target) == e.id and isinstance(st.op, (ast.BitOr, ast.Add))]
        others = [st for st in walk_local(fa.func.node) if isinstance(st, (ast.Assign, ast.AugAssign)) and st not in init and st not in accs
                  and any(isinstance(t, ast.Name) and t.id == e.id for t in (st.targets if isinstance(st, ast.Assign) else [st.target]))]
        zero = len(init) == 1 and ((isinstance(init[0].value, ast.Call) and call_name(init[0].value) in ('zeros', 'zeros_like', 'uint64', 'int64')) or try_fold(init[0].value) == 0)
        if zero and len(accs) >= 2 and not others and all(a.lineno > init[0].lineno for a in accs):
            terms = []
            for a in accs:
                terms.extend(flatten_or(a.value))
            e = accs[0].value            # anchor for dominance queries: guards must precede the first accumulation
    if len(terms) < 2:
        raise AnalysisError('C06: return value of %s is not an OR of shifted fields: %s' % (fa.func.qualname, src(e)[:80]))
    return rets[0], e, terms


def check_pack_function(ctx, fa, oracle, kind):
    f = fa.func
    # a field of another length is refused, not stretched: no broadcast / resize / tile of a field argument
    for c in walk_local(f.node):
        if isinstance(c, ast.Call) and call_name(c) in ('broadcast_to', 'broadcast_arrays', 'resize', 'tile', 'repeat') and c.args:
            a0 = c.args[0]
            base = a0
            while isinstance(base, (ast.Subscript, ast.Attribute)):
                base = base.value
            if isinstance(base, ast.Name) and base.id in f.params and call_name(c) != 'broadcast_arrays':
                ctx.fail('C06.SHAPE', f, c, 'stretched field ' + src(c)[:50],
                         '%s stretches the field `%s` to the length of the others (`%s`): an array of inconsistent length (one element against many) is packed '
                         'into every ID instead of being rejected with ValueError' % (f.qualname, base.id, src(c)[:60]))
    ret, packexpr, terms = find_pack(fa)
    org = Origins(fa)
    by_field = {}
    oracle_map = {n: (s, w) for n, s, w in oracle}
    # ---- PACK + PATH-OFFSET
    packed = []       # (field, shift, raw term operand, base Name)
    for t in terms:
        operand, k = shift_term(t, fa.resolve)
        base = strip_casts(operand)
        if not isinstance(base, ast.Name):
            ctx.fail('C06.PACK', f, t, t, 'pack term is not a (cast of a) field variable shifted by a constant')
            continue
        os_ = org.of_name(base)
        unknown = [o for o in os_ if o[0] is None]
        if unknown:
            raise AnalysisError('C06: %s: cannot normalise a definition of packed variable %s: %s'
                                % (f.qualname, base.id, unknown[0][2]))
        params = {o[0] for o in os_}
        if len(params) != 1:
            ctx.fail('C06.PACK', f, t, t, 'packed variable %s derives from several parameters %s' % (base.id, sorted(params)))
            continue
        field = params.pop()
        packed.append((field, k, operand, base, os_))
    fields_seen = {}
    for field, k, operand, base, os_ in packed:
        if field not in oracle_map:
            ctx.fail('C06.PACK', f, operand, '%s << %d' % (field, k), 'field %s is not part of the documented %s layout' % (field, kind))
            continue
        s, w = oracle_map[field]
        ctx.check('C06.PACK', k == s, f, operand,
                  '%s: %s at shift %d width %d (bits %d-%d) matches the documented layout' % (kind, field, k, w, s, s + w - 1),
                  msg='%s is packed at shift %d, documented shift is %d (bits %d-%d)' % (field, k, s, s, s + w - 1),
                  construct='%s << %d' % (field, k))
        fields_seen[field] = fields_seen.get(field, 0) + 1
        # offsets
        ordef = [o for o in os_ if o[1] == 'or-default']
        if ordef:
            ctx.fail('C06.PATH-OFFSET', f, base, '%s: %s' % (field, ordef[0][2]),
                     '%s: %s: the scalar call then packs a different value than the array call with the same element' % (field, ordef[0][2]))
            os_ = [o for o in os_ if o[1] != 'or-default']
        offs = {o[1] for o in os_ if o[1] != 'str'}
        want = PACK_OFFSET.get(field, 0)
        bad = sorted(str(o) for o in offs if o != want)
        paths = sorted({'%s%+d via line %s' % (o[0], o[1], getattr(o[3], 'lineno', '?')) if isinstance(o[1], int)
                        else '%s (%s)' % (o[0], o[2]) for o in os_})
        ctx.check('C06.PATH-OFFSET', not bad, f, base,
                  '%s: every definition reaching the pack is %s%+d (%d definition path(s): %s)'
                  % (field, field, want, len(os_), '; '.join(paths)[:200]),
                  msg='%s reaches the pack with offset(s) %s on some path(s), expected %+d on every path '
                      '(scalar and array calls would disagree)' % (field, ', '.join(bad), want),
                  construct='%s: path offsets %s' % (field, sorted(str(o) for o in offs)))
    for n, s, w in oracle:
        if n not in fields_seen:
            ctx.fail('C06.PACK', f, ret, 'missing field %s' % n, 'documented field %s (bits %d-%d) is not packed' % (n, s, s + w - 1))
        elif fields_seen[n] > 1:
            ctx.fail('C06.PACK', f, ret, 'field %s packed %d times' % (n, fields_seen[n]), 'field packed more than once')
    # tiling: widths from oracle, shifts from code
    occupied = {}
    for field, k, operand, base, os_ in packed:
        if field in oracle_map:
            w = oracle_map[field][1]
            for other, (k2, w2) in occupied.items():
                if other in ('line', 'index') and field in ('line', 'index'):
                    continue
                if not (k + w <= k2 or k2 + w2 <= k):
                    ctx.fail('C06.PACK', f, operand, '%s overlaps %s' % (field, other),
                             'bit ranges of %s [%d,%d] and %s [%d,%d] overlap' % (field, k, k + w - 1, other, k2, k2 + w2 - 1))
            occupied[field] = (k, w)
    # ---- GUARD
    guards = fa.guards()
    shape_edges = []
    range_by_var = {}
    for g in guards:
        pr = _shape_pair(g.test)
        if pr is not None:
            if fa.guard_dominates(g, packexpr):
                shape_edges.append((pr, g))
            continue
        kind = _kind_guard(g.test)
        if kind is not None:
            # a type guard on <field>.dtype.kind: whole numbers come signed ('i') and unsigned ('u'); FITS columns of SDSS files are both
            accepted = kind if not g.negated else None
            ok_kind = accepted is not None and {'i', 'u'} <= accepted
            ctx.check('C06.GUARD', ok_kind, f, g.stmt, 'the integer-type guard `%s` lets signed and unsigned integer arrays through' % src(g.test),
                      msg='%s refuses arrays by `%s`: unsigned integer arrays (uint16 / uint64 columns, the type of the packed ID itself) are whole numbers in range '
                          'and are rejected with ValueError instead of being packed' % (f.qualname, src(g.test)), construct='dtype.kind guard ' + src(g.test))
            continue
        try:
            r = rejected(g.test, resolver=fa.resolve)
        except NotRange as e:
            names = {n.id for n in ast.walk(g.test) if isinstance(n, ast.Name)}
            if names & {b.id for _, _, _, b, _ in packed} and _has_comparison(g.test) and not _is_none_guard(g.test) \
                    and not _is_isinstance(g.test):
                raise AnalysisError('C06: %s: guard at line %d mentions a packed field but is not a recognised '
                                    'range test (%s)' % (f.qualname, g.stmt.lineno, e))
            continue
        if g.negated:
            try:
                from ..pred import _not
                r = {k: _not({k: v})[k] for k, v in r.items()}
            except NotRange:
                continue
        for var, (must, may) in r.items():
            range_by_var.setdefault(var, []).append((g, must, may))
    for field, k, operand, base, os_ in packed:
        if field not in oracle_map:
            continue
        w = oracle_map[field][1]
        valid = valid_range(field, w)
        must = IntSet.empty()
        may = IntSet.empty()
        used = []
        wrong_exc = []
        for g, mu, ma in range_by_var.get(base.id, []):
            gname = [n for n in ast.walk(g.test) if isinstance(n, ast.Name) and n.id == base.id][0]
            if not fa.guard_dominates(g, packexpr) or not fa.same_value(gname, base):
                continue
            if g.exc != 'ValueError':
                wrong_exc.append(g)
            must = must | mu
            may = may | ma
            used.append(g)
        if not used:
            ctx.fail('C06.GUARD', f, base, 'no range guard for %s' % field,
                     'packed field %s has no range guard dominating the pack: out-of-range values wrap into neighbouring bits' % field)
            continue
        loose = (~valid) - must
        tight = may & valid
        ok = not loose and not tight and not wrong_exc
        msg = None
        if loose:
            msg = 'guard on %s does not reject %s (documented range %s): such values wrap into neighbouring bits' % (field, loose, valid)
        elif tight:
            msg = 'guard on %s rejects valid values %s (documented range %s)' % (field, tight, valid)
        elif wrong_exc:
            msg = 'out-of-range %s raises %s, not ValueError' % (field, wrong_exc[0].exc)
        ctx.check('C06.GUARD', ok, f, used[0].stmt,
                  '%s: guards at line(s) %s reject exactly the complement of %s and dominate the pack'
                  % (field, ','.join(str(g.stmt.lineno) for g in used), valid),
                  msg=msg, construct='guard(%s): rejects %s; may reject %s' % (field, must, may))
    # ---- SHAPE
    uf = {}

    def find(x):
        while uf.setdefault(x, x) != x:
            x = uf[x]
        return x
    for (a, b), g in shape_edges:
        uf[find(a)] = find(b)
    basenames = []
    for field, k, operand, base, os_ in packed:
        if base.id not in basenames:
            basenames.append(base.id)
    if basenames:
        root = find(basenames[0])
        for nm in basenames[1:]:
            g = [gg for (a, b), gg in shape_edges if nm in (a, b)]
            okexc = all(x.exc == 'ValueError' for x in g)
            ctx.check('C06.SHAPE', find(nm) == root and okexc, f, g[0].stmt if g else ret,
                      '%s is shape-compared with %s under a ValueError guard dominating the pack' % (nm, basenames[0]),
                      msg='packed field %s is not shape-checked against the other fields (inconsistent array lengths '
                          'would broadcast silently)' % nm if okexc else 'shape mismatch of %s does not raise ValueError' % nm,
                      construct='shape(%s)' % nm)
    return packed, packexpr


def _has_comparison(t):
    return any(isinstance(n, ast.Compare) for n in ast.walk(t))


def _is_none_guard(t):
    return any(isinstance(n, ast.Compare) and any(isinstance(o, (ast.Is, ast.IsNot)) for o in n.ops) for n in ast.walk(t))


def _is_isinstance(t):
    return any(isinstance(n, ast.Call) and call_name(n) == 'isinstance' for n in ast.walk(t))


def _is_shape_guard(t):
    return any(isinstance(n, ast.Attribute) and n.attr in ('shape', 'size') for n in ast.walk(t)) or \
        any(isinstance(n, ast.Call) and call_name(n) in ('len', 'shape') for n in ast.walk(t))


def _shape_of(e):
    if isinstance(e, ast.Attribute) and e.attr in ('shape', 'size') and isinstance(e.value, ast.Name):
        return e.value.id
    if isinstance(e, ast.Call) and call_name(e) in ('len', 'shape') and e.args and isinstance(e.args[0], ast.Name):
        return e.args[0].id
    return None


def _shape_pair(t):
    if isinstance(t, ast.Compare) and len(t.ops) == 1 and isinstance(t.ops[0], (ast.NotEq, ast.Eq)):
        a, b = _shape_of(t.left), _shape_of(t.comparators[0])
        if a and b:
            return (a, b)
    return None


# ---- unpack ---------------------------------------------------------------------------

def parse_unpack(e, fa):
    """(shift, mask, offset) for bitwise_and(x >> k, m) [+ c] | (x >> k) & m | (x & M) >> k | x & m."""
    e = fa.deep(e)
    off = 0
    if isinstance(e, ast.BinOp) and isinstance(e.op, (ast.Add, ast.Sub)):
        c = try_fold(e.right, resolver=fa.resolve)
        if isinstance(c, int):
            off = c if isinstance(e.op, ast.Add) else -c
            e = fa.deep(e.left)
    e = strip_casts(e) if isinstance(e, ast.Call) and call_name(e) in ('astype', 'int32', 'int64') else e

    def shr(x):
        x = fa.deep(x)
        if isinstance(x, ast.BinOp) and isinstance(x.op, ast.RShift):
            k = try_fold(x.right, resolver=fa.resolve)
            if isinstance(k, int):
                return x.left, k
        if isinstance(x, ast.Call) and call_name(x) == 'right_shift' and len(x.args) == 2:
            k = try_fold(x.args[1], resolver=fa.resolve)
            if isinstance(k, int):
                return x.args[0], k
        return x, None

    def band(x):
        x = fa.deep(x)
        if isinstance(x, ast.BinOp) and isinstance(x.op, ast.BitAnd):
            return x.left, x.right
        if isinstance(x, ast.Call) and call_name(x) == 'bitwise_and' and len(x.args) == 2:
            return x.args[0], x.args[1]
        return None
    b = band(e)
    if b is not None:
        for val, m in (b, b[::-1]):
            mk = try_fold(m, resolver=fa.resolve)
            if isinstance(mk, int):
                inner, k = shr(val)
                return (k if k is not None else 0), mk, off, inner
    inner, k = shr(e)
    if k is not None:
        b = band(inner)
        if b is not None:
            for val, m in (b, b[::-1]):
                M = try_fold(m, resolver=fa.resolve)
                if isinstance(M, int):
                    if M & ((1 << k) - 1):
                        return k, ('lowbits', M), off, val
                    return k, M >> k, off, val
    return None


def check_unpack_function(ctx, fa, oracle, kind, int_type):
    f = fa.func
    found = {}
    rec_names = set()
    for st in fa.stmts(ast.Assign):
        if len(st.targets) != 1:
            continue
        t = st.targets[0]
        names = None
        if isinstance(t, ast.Attribute) and isinstance(t.value, ast.Name):
            names = [t.attr]
            rec = t.value.id
        elif isinstance(t, ast.Subscript) and isinstance(t.value, ast.Name):
            rec = t.value.id
            c = try_fold(t.slice)
            if isinstance(c, str):
                names = [c]
            elif isinstance(t.slice, ast.IfExp) and isinstance(try_fold(t.slice.body), str) and isinstance(try_fold(t.slice.orelse), str):
                names = [try_fold(t.slice.body), try_fold(t.slice.orelse)]
            elif isinstance(t.slice, ast.Name):
                vals = []
                for d, v in fa.defs(t.slice):
                    cv = try_fold(v) if v is not None else None
                    if isinstance(cv, str):
                        vals.append(cv)
                    elif isinstance(v, ast.IfExp) and isinstance(try_fold(v.body), str) and isinstance(try_fold(v.orelse), str):
                        vals.extend([try_fold(v.body), try_fold(v.orelse)])
                    else:
                        vals = None
                        break
                names = vals
        if not names:
            continue
        pu = parse_unpack(st.value, fa)
        if pu is None:
            continue
        for nm in names:
            found.setdefault(nm, []).append((st, pu))
        rec_names.add(rec)
    for field, s, w in oracle:
        col = UNPACK_NAMES.get(field, field)
        hits = found.get(col, [])
        if field == 'run2d' and not hits:
            # run2d is first unpacked into a local and then either stored or re-encoded as a string
            for st in fa.stmts(ast.Assign):
                if len(st.targets) == 1 and isinstance(st.targets[0], ast.Name) and st.targets[0].id == 'run2d':
                    pu = parse_unpack(st.value, fa)
                    if pu is not None:
                        hits = [(st, pu)]
        if not hits:
            ctx.fail('C06.UNPACK', f, f.node, 'no unpack of %s' % col,
                     'documented field %s is not unpacked by shift-and-mask into column %r' % (field, col))
            continue
        for st, (k, m, off, inner) in hits:
            want_off = -PACK_OFFSET.get(field, 0)
            want_m = 2 ** w - 1
            ok = (k == s and m == want_m and off == want_off)
            why = []
            # the value that is shifted must be the VALUE of the id: .view() re-interprets the bytes (a big-endian FITS column is read byte-swapped)
            chain = fa.deep(inner) if inner is not None else None
            if chain is not None and any(isinstance(c_, ast.Call) and call_name(c_) == 'view' for c_ in ast.walk(chain)):
                ok = False
                why.append('the id is re-interpreted with .view() instead of converted (astype / copy): non-native byte order is read byte-swapped')
            if k != s:
                why.append('shift %s, pack shift is %d' % (k, s))
            if m != want_m:
                why.append('mask %s, field width %d needs %s' % (hex(m) if isinstance(m, int) else m, w, hex(want_m)))
            if off != want_off:
                why.append('offset %+d, pack applies %+d so unpack must add %+d' % (off, PACK_OFFSET.get(field, 0), want_off))
            ctx.check('C06.UNPACK', ok, f, st,
                      '%s: %s = (id >> %d) & %s %+d inverts the pack' % (kind, col, s, hex(want_m), want_off),
                      msg='unpack of %s: %s' % (col, '; '.join(why)),
                      construct='unpack(%s): shift=%s mask=%s offset=%s' % (col, k, hex(m) if isinstance(m, int) else m, off))
    # string / integer conversion before shifting
    conv = []
    for st in fa.stmts(ast.Assign):
        if isinstance(st.value, ast.Call) and call_name(st.value) == 'astype' and st.value.args:
            d = dotted(st.value.args[0]) or ''
            base = st.value.func.value
            if isinstance(base, ast.Name) and base.id in fa.func.params:
                conv.append((st, d.split('.')[-1]))
    ctx.check('C06.STRCONV', any(t == int_type for _, t in conv), f, conv[0][0] if conv else f.node,
              '%s: string IDs are converted with astype(%s) before shifting' % (kind, int_type),
              msg='string input is not converted to %s before shifting' % int_type,
              construct='astype conversions: %s' % [t for _, t in conv])
    strconv = [st for st, t in conv if t == int_type]
    if strconv:
        kinds = string_kinds(fa, strconv[0])
        if kinds is None:
            raise AnalysisError('C06: %s: the type test that selects decimal-string IDs is not an idiom this checker can read' % f.qualname)
        ctx.check('C06.STRCONV', {'S', 'U'} <= kinds, f, strconv[0], '%s: decimal-string IDs of both numpy string kinds (bytes and unicode) are converted' % kind,
                  msg='%s converts decimal-string IDs only for numpy string kind(s) %s: %s arrays (what FITS tables and np.loadtxt(dtype="S") give) are refused '
                      'with ValueError although they hold the same IDs' % (f.qualname, sorted(kinds), 'byte-string' if 'S' not in kinds else 'unicode'),
                  construct='string kinds accepted: %s' % sorted(kinds))


def string_kinds(fa, conv_stmt):
    """The numpy string kinds ('S' bytes, 'U' unicode) for which the string-to-integer conversion `conv_stmt` is reached, read off the
    type tests on the way to it.  None when a test is not of a recognised form."""
    from ..astutil import path_conditions
    from ..normal import canon_test
    BYTES = {'string_', 'bytes_', 'bytes'}
    UNI = {'unicode_', 'str_', 'str'}
    BOTH = {'character', 'flexible'}

    def kind_of_type(e, depth=0):
        d = dotted(e) or ''
        last = d.split('.')[-1]
        if last in BYTES:
            return {'S'}
        if last in UNI:
            return {'U'}
        if last in BOTH:
            return {'S', 'U'}
        if isinstance(e, ast.Name) and depth < 3:
            out = set()
            if not hasattr(e, '_parent'):
                # a node of a normalised copy: reaching definitions are those of the same name at the conversion
                e = next((x for x in ast.walk(fa.node) if isinstance(x, ast.Name) and x.id == e.id and isinstance(x.ctx, ast.Load)), e)
            for dd, v in fa.defs(e):
                if dd is None:
                    continue
                if v is None:
                    return None
                k = kind_of_type(v, depth + 1)
                if k is None:
                    return None
                out |= k
            return out or None
        return None

    def admitted(t):
        """kinds admitted by one (positive) test, or None."""
        if isinstance(t, ast.BoolOp) and isinstance(t.op, ast.Or):
            out = set()
            for v in t.values:
                k = admitted(v)
                if k is None:
                    return None
                out |= k
            return out
        if isinstance(t, ast.Compare) and len(t.ops) == 1:
            l, r, op = t.left, t.comparators[0], t.ops[0]
            if isinstance(l, ast.Attribute) and l.attr == 'type' and isinstance(op, (ast.Is, ast.Eq)):
                return kind_of_type(r)
            if isinstance(r, ast.Attribute) and r.attr == 'type' and isinstance(op, (ast.Is, ast.Eq)):
                return kind_of_type(l)
            if isinstance(l, ast.Attribute) and l.attr == 'type' and isinstance(op, ast.In) and isinstance(r, (ast.Tuple, ast.List, ast.Set)):
                out = set()
                for e in r.elts:
                    k = kind_of_type(e)
                    if k is None:
                        return None
                    out |= k
                return out
            if isinstance(l, ast.Attribute) and l.attr == 'kind' and isinstance(r, ast.Constant) and isinstance(r.value, str):
                if isinstance(op, ast.In):
                    return set(r.value) & {'S', 'U'}
                if isinstance(op, ast.Eq):
                    return {r.value} & {'S', 'U'}
            if isinstance(r, ast.Attribute) and r.attr == 'kind' and isinstance(l, ast.Constant) and isinstance(op, ast.Eq):
                return {l.value} & {'S', 'U'}
        if isinstance(t, ast.Call) and call_name(t) == 'issubdtype' and len(t.args) == 2:
            return kind_of_type(t.args[1])
        return None
    got = None
    from ..fn import expand
    for t_, pol in path_conditions(conv_stmt):
        t_ = expand(t_, fa, depth=3)
        t2 = canon_test(t_ if pol else ast.UnaryOp(op=ast.Not(), operand=clone(t_)))
        if not any(isinstance(x, ast.Attribute) and x.attr in ('type', 'kind', 'dtype') for x in ast.walk(t2)):
            continue
        k = admitted(t2)
        if k is None:
            if pol:
                return None
            continue            # the negation of an earlier branch (e.g. `not integer`): no information about string kinds
        got = k if got is None else (got & k)
    return got


# ---- docstring tables -------------------------------------------------------------------

DOC_ROW = re.compile(r'^\s*(\d+)(?:-(\d+))?\s+(\S(?:.*?\S)?)(?:\s{2,}.*)?$')


def doc_table(fn):
    rows = {}
    for line in docstring_of(fn).splitlines():
        m = DOC_ROW.match(line)
        if not m:
            continue
        lo = int(m.group(1))
        hi = int(m.group(2)) if m.group(2) else lo
        name = m.group(3).strip().lower()
        name = re.split(r'\s{2,}', name)[0]
        rows[name] = (lo, hi)
    return rows


def check_doc(ctx, f, oracle, kind):
    rows = doc_table(f.node)
    mapped = {}
    for name, (lo, hi) in rows.items():
        key = DOC_NAMES.get(name)
        if key is None:
            for dn, fld in DOC_NAMES.items():
                if name.startswith(dn):
                    key = fld
                    break
        if key:
            mapped[key] = (lo, hi)
    want = {n: (s, s + w - 1) for n, s, w in oracle if n != 'index'}
    if not set(want) & set(mapped):
        ctx.notes.setdefault('doc_tables_not_parsed', []).append(f.qualname)
        return
    diffs = ['%s documented bits %s, layout %s' % (k, mapped.get(k), want[k]) for k in want if mapped.get(k) != want[k]]
    ctx.check('C06.DOC', not diffs, f, f.node,
              '%s docstring bit table (%d rows) equals the published layout' % (kind, len(mapped)),
              msg='docstring bit table disagrees with the layout: ' + '; '.join(diffs), construct='doc table ' + kind)


# ---- run2d --------------------------------------------------------------------------------

def check_run2d(ctx, fa_pack, fa_unpack):
    f = fa_pack.func
    # pack side: the expression assigned to run2d in the isinstance(run2d, str) branch
    pack_expr = None
    regex = None
    for n in walk_local(fa_pack.node):
        if isinstance(n, ast.Call) and call_name(n) in ('match', 'search', 'fullmatch', 'compile') and n.args \
                and isinstance(n.args[0], ast.Constant) and isinstance(n.args[0].value, str) and 'v' in n.args[0].value:
            regex = n
        if isinstance(n, ast.Assign) and len(n.targets) == 1 and isinstance(n.targets[0], ast.Name) and n.targets[0].id == 'run2d':
            v = strip_casts(n.value)
            if isinstance(v, ast.BinOp) and any(isinstance(x, ast.Mult) for x in ast.walk(v)):
                pack_expr = (n, v)
    if pack_expr is None or regex is None:
        raise AnalysisError('C06: vN_M_P decoding not found in sdss_specobjid')
    groups_order = None
    for n in walk_local(fa_pack.node):
        if isinstance(n, ast.Assign) and isinstance(n.targets[0], (ast.Tuple, ast.List)) and isinstance(n.value, ast.Call) \
                and call_name(n.value) == 'groups':
            groups_order = [e.id for e in n.targets[0].elts if isinstance(e, ast.Name)]
    if not groups_order or len(groups_order) != 3:
        raise AnalysisError('C06: cannot see how the three regex groups are bound in sdss_specobjid')

    def atom(e):
        if isinstance(e, ast.Call) and call_name(e) == 'int' and e.args and isinstance(e.args[0], ast.Name):
            return e.args[0].id
        return None
    try:
        p = poly_of(pack_expr[1], atom=atom)
    except NotPoly as e:
        raise AnalysisError('C06: run2d encoding is not polynomial: %s' % e)
    N, M, P = groups_order
    coeffs = (p.coeff(N), p.coeff(M), p.coeff(P), p.const_value())
    ctx.check('C06.RUN2D', coeffs == (10000, 100, 1, -50000) and p.degree() == 1, f, pack_expr[0],
              'pack: run2d = (N-5)*10000 + M*100 + P with (N,M,P) the regex groups in order [polynomial %s]' % p,
              msg='run2d encoding is %s, documented (N-5)*10000 + M*100 + P' % p, construct='run2d pack polynomial %s' % p)
    import re._parser as sp
    pat = sp.parse(regex.args[0].value)
    ngroups = sum(1 for op, av in pat if str(op) == 'SUBPATTERN')
    ctx.check('C06.RUN2D', ngroups == 3, f, regex, 'regex %r has three integer groups' % regex.args[0].value,
              msg='run2d regex has %d groups, three expected' % ngroups, construct='run2d regex groups')
    # unpack side
    u = fa_unpack.func
    defs = {}
    fmt = None
    ziporder = None
    for n in walk_local(fa_unpack.node):
        if isinstance(n, ast.Assign) and len(n.targets) == 1 and isinstance(n.targets[0], ast.Name):
            defs[n.targets[0].id] = n
        if isinstance(n, ast.Call) and call_name(n) == 'format' and isinstance(n.func, ast.Attribute) \
                and isinstance(n.func.value, ast.Constant) and isinstance(n.func.value.value, str) and n.func.value.value.startswith('v'):
            fmt = n
        if isinstance(n, ast.Call) and call_name(n) == 'zip':
            ziporder = [a.id for a in n.args if isinstance(a, ast.Name)]
    if fmt is None or not ziporder or len(ziporder) != 3:
        raise AnalysisError('C06: vN_M_P rebuild not found in unwrap_specobjid')

    # decided by enumeration of the whole 14-bit domain: the three zipped sequences must be N = r//10000 + 5, M = (r % 10000)//100,
    # P = r % 100 for every packed value r (the expressions are interpreted by the index evaluator, nothing is run)
    from .. import minieval
    from ..fn import expand

    def strip(e):
        while isinstance(e, ast.Call) and call_name(e) in ('tolist', 'astype') and isinstance(e.func, ast.Attribute):
            e = e.func.value
        return e
    exprs = []
    for nm in ziporder:
        d = defs.get(nm)
        ctx.need(d is not None, 'unwrap_specobjid: definition of the zipped sequence %s not found' % nm)
        e = strip(d.value)
        # follow temporaries down to the packed run2d value
        def unfold(x, depth=0):
            """temporaries replaced by their definitions, down to (not through) the value unpacked from the ID by shift and mask"""
            if depth > 5:
                return x
            if isinstance(x, ast.Name) and isinstance(x.ctx, ast.Load):
                v = fa_unpack.resolve(x) if hasattr(x, '_parent') else None
                if v is None or any(isinstance(y, ast.BinOp) and isinstance(y.op, (ast.RShift, ast.BitAnd)) for y in ast.walk(v)):
                    return x
                return unfold(strip(v), depth + 1)
            out = clone(x)
            for fld, val in ast.iter_fields(x):
                if isinstance(val, ast.AST):
                    setattr(out, fld, unfold(val, depth))
                elif isinstance(val, list):
                    setattr(out, fld, [unfold(y, depth) if isinstance(y, ast.AST) else y for y in val])
            return out
        e = unfold(e)

        class S(ast.NodeTransformer):
            def visit_Call(self, n):
                self.generic_visit(n)
                return strip(n)
        exprs.append(S().visit(clone(e)))
    base_names = set()
    for e in exprs:
        base_names |= {x.id for x in ast.walk(e) if isinstance(x, ast.Name)}
    ctx.need(len(base_names) == 1, 'unwrap_specobjid: the vN_M_P parts are not computed from one packed value (%s)' % sorted(base_names))
    rname = base_names.pop()
    bad = None
    try:
        for r in range(0, 2 ** 14):
            got = tuple(minieval.ev(e, {rname: r}, {}) for e in exprs)
            want = (r // 10000 + 5, (r % 10000) // 100, r % 100)
            if got != want:
                bad = (r, got, want)
                break
    except minieval.Unknown as e:
        raise AnalysisError('C06: unwrap_specobjid: the vN_M_P arithmetic is not an idiom the index evaluator understands (%s)' % e)
    if bad is not None and any(x is minieval.TOP for x in bad[1]):
        raise AnalysisError('C06: unwrap_specobjid: the vN_M_P arithmetic is not an idiom the index evaluator understands (%s)' % [src(e) for e in exprs])
    ctx.check('C06.RUN2D', bad is None, u, defs.get(ziporder[0], fmt),
              'unpack: (N, M, P) = (r//10000 + 5, (r %% 10000)//100, r %% 100) for every 14-bit run2d value r, in zip order [%s]' % '; '.join(src(e) for e in exprs),
              msg='run2d decoding %s does not invert (N-5)*10000 + M*100 + P: run2d = %s gives %s, expected %s'
                  % ([src(e) for e in exprs], bad[0] if bad else '', bad[1] if bad else '', bad[2] if bad else ''), construct='run2d unpack radix')
    fields = re.findall(r'\{(\d*)(?::[^}]*)?\}', fmt.func.value.value)
    bodyfmt = re.sub(r'\{[^}]*\}', '{}', fmt.func.value.value)
    argnames = [a.id if isinstance(a, ast.Name) else src(a) for a in fmt.args]
    elt = None
    star = None
    for n in walk_local(fa_unpack.node):
        if isinstance(n, ast.ListComp) and any(c is fmt for c in ast.walk(n)):
            tgt = n.generators[0].target
            elt = [e.id for e in tgt.elts] if isinstance(tgt, ast.Tuple) else None
            if isinstance(tgt, ast.Name) and len(fmt.args) == 1 and isinstance(fmt.args[0], ast.Starred) and isinstance(fmt.args[0].value, ast.Name) \
                    and fmt.args[0].value.id == tgt.id:
                star = True
    if star:
        order_ok = [int(i) if i else j for j, i in enumerate(fields)] == [0, 1, 2]
    else:
        order_ok = elt is not None and [argnames[int(i) if i else j] for j, i in enumerate(fields)] == elt
    ctx.check('C06.RUN2D', bodyfmt == 'v{}_{}_{}' and order_ok, u, fmt,
              "format string %r takes (N, M, P) in that order" % fmt.func.value.value,
              msg='format string %r / argument order %s does not rebuild vN_M_P' % (fmt.func.value.value, argnames),
              construct='run2d format')


def check_run2d_elementwise(ctx, fa_unpack):
    """C06.RUN2D (per element): every store into the run2d column is computed from the element's own run2d; a value taken from
    element 0 may be broadcast only under a guard that ALL elements equal it."""
    u = fa_unpack.func

    def first_only(e, depth=0):
        for x in ast.walk(e):
            if isinstance(x, ast.Subscript) and isinstance(x.slice, ast.Constant) and x.slice.value == 0 and 'run2d' in src(x.value):
                return x
            if isinstance(x, ast.Name) and depth < 3 and isinstance(x.ctx, ast.Load) and x.id not in ('run2d', 'np'):
                d = fa_unpack.resolve(x)
                if d is not None and d is not e:
                    r = first_only(d, depth + 1)
                    if r is not None:
                        return r
        return None
    stores = [st for st in walk_local(u.node) if isinstance(st, ast.Assign) and isinstance(st.targets[0], ast.Attribute)
              and st.targets[0].attr == 'run2d']
    ctx.need(stores, 'unwrap_specobjid: no store into the run2d column')
    for st in stores:
        one = first_only(st.value)
        ok = True
        if one is not None:
            ok = False
            child = st
            for a in ancestors(st):
                if isinstance(a, ast.If) and any(child is b for b in a.body):
                    for c in ast.walk(a.test):
                        if isinstance(c, ast.Call) and isinstance(c.func, ast.Attribute) and c.func.attr == 'all' and 'run2d' in src(c.func.value):
                            ok = True
                        if isinstance(c, ast.Compare) and src(c).replace(' ', '') in ('run2d.size==1', 'len(run2d)==1'):
                            ok = True
                child = a
        ctx.check('C06.RUN2D', ok, u, st, 'the run2d column is filled element by element (%s)' % src(st.value)[:50],
                  msg='unwrap_specobjid fills the whole run2d column from element 0 (`%s`) without a guard that all elements are equal: every row of '
                      'an array call gets row 0\'s reduction, the scalar call does not' % src(one)[:40] if one is not None else '',
                  construct='run2d column from element 0: ' + src(st)[:70])


# ---- purity ---------------------------------------------------------------------------------

def check_nomut(ctx, fa):
    f = fa.func
    n = 0
    for st in fa.stmts():
        tgt = None
        if isinstance(st, ast.AugAssign):
            tgt = st.target
        elif isinstance(st, ast.Assign):
            for t in st.targets:
                if isinstance(t, ast.Subscript):
                    tgt = t
        if tgt is None:
            continue
        base = tgt
        while isinstance(base, (ast.Subscript, ast.Attribute)):
            base = base.value
        if not isinstance(base, ast.Name):
            continue
        defs = fa.rd.reaching(base.id, st)
        from_param = [d for d, v in defs if isinstance(d, ast.arg)]
        # an int parameter is rebound, not mutated: only flag when the parameter can be an array here, i.e. the
        # statement is not inside the true branch of isinstance(p, int)
        if from_param and not _under_isinstance_int(st, base.id):
            n += 1
            ctx.fail('C06.NOMUT', f, st, st, 'in-place write to caller-supplied array %s (a repeated or later call sees the '
                                             'modified values; scalar and array calls stop agreeing)' % base.id)
    if n == 0:
        ctx.ok('C06.NOMUT', f, f.node, '%s: no augmented assignment or subscript store targets an alias of a parameter' % f.qualname)


def _under_isinstance_int(st, name):
    for a in ancestors(st):
        if isinstance(a, ast.If) and _in_body(a, st):
            t = a.test
            if isinstance(t, ast.Call) and call_name(t) == 'isinstance' and len(t.args) == 2 and isinstance(t.args[0], ast.Name) \
                    and t.args[0].id == name and (dotted(t.args[1]) in ('int', 'str', 'float')):
                return True
    return False


def run(ctx):
    repo = ctx.repo
    f_obj = repo.func(SDSS, 'sdss_objid')
    f_spec = repo.func(SDSS, 'sdss_specobjid')
    f_uspec = repo.func(SDSS, 'unwrap_specobjid')
    f_uobj = repo.func(PHOTOOBJ, 'unwrap_objid')
    fa_obj, fa_spec, fa_uspec, fa_uobj = FA(f_obj), FA(f_spec), FA(f_uspec), FA(f_uobj)
    ctx.cover(f_obj, f_spec, f_uspec, f_uobj)

    packed_obj, _pe = check_pack_function(ctx, fa_obj, OBJID, 'objID')
    packed, packexpr = check_pack_function(ctx, fa_spec, SPECOBJID, 'specObjID')

    # C06.WIDE: a shift that reaches bit 31 or beyond needs a 64-bit operand on EVERY path; the caller's own array (int16 / int32
    # columns of a FITS table) is shifted in its own width by NumPy
    def is_64(e):
        if isinstance(e, ast.Call):
            nm = call_name(e)
            if nm == 'astype' and e.args:
                d = dotted(e.args[0]) or (e.args[0].value if isinstance(e.args[0], ast.Constant) else '')
                return str(d).split('.')[-1] in ('int64', 'uint64', 'i8', 'u8')
            if nm in ('int64', 'uint64'):
                return True
            if nm in ('array', 'asarray', 'zeros', 'ones', 'full', 'atleast_1d'):
                for k_ in e.keywords:
                    if k_.arg == 'dtype':
                        d = dotted(k_.value) or (k_.value.value if isinstance(k_.value, ast.Constant) else '')
                        return str(d).split('.')[-1] in ('int64', 'uint64', 'i8', 'u8')
            return False
        if isinstance(e, ast.BinOp) and isinstance(e.op, (ast.Add, ast.Sub, ast.BitOr, ast.Mult)):
            return is_64(e.left) or is_64(e.right)      # NumPy promotes to the wider integer
        return False
    for field, k, operand, base, os_ in packed_obj:
        width = dict((n, w) for n, s_, w in OBJID).get(field, 0)
        if k == 0:
            continue
        if is_64(operand):
            ok, why = True, 'cast at the shift: %s' % src(operand)[:40]
        else:
            defs = fa_obj.defs(base)
            narrow = [(d, v) for d, v in defs if d is not None and not (v is not None and is_64(v))]
            ok = bool(defs) and not narrow
            why = ('every definition reaching the shift is 64-bit' if ok else
                   'the caller\'s own `%s` reaches `%s << %d` on the path where it is not a Python int' % (field, field, k))
        ctx.check('C06.WIDE', ok, f_obj, operand, 'objID: %s (bits %d-%d) is 64 bits wide when shifted (%s)' % (field, k, k + width - 1, why),
                  msg='sdss_objid: %s: an int16/int32 array (as read from a FITS table) is shifted by %d in its own width, the high bits are lost '
                      'and the array call disagrees with the scalar call' % (why, k), construct='narrow shift: %s << %d' % (field, k))

    # C06.WIDE (specObjID): an offset applied to the caller's own array is computed in that array's type: `mjd - 50000` on an unsigned
    # 16-bit column wraps an out-of-range MJD back into range before the range check sees it
    for st in walk_local(f_spec.node):
        if isinstance(st, ast.Assign) and isinstance(st.value, ast.BinOp) and isinstance(st.value.op, (ast.Add, ast.Sub)):
            c_ = try_fold(st.value.right)
            opd = st.value.left
            if not isinstance(c_, int) or c_ == 0:
                continue
            raw = isinstance(opd, ast.Name) and opd.id in f_spec.params and any(isinstance(d, ast.arg) for d, _ in fa_spec.defs(opd))
            boxed = isinstance(opd, ast.Call) and call_name(opd) in ('array', 'asarray') and opd.args and isinstance(opd.args[0], ast.List)
            if not (raw or boxed or is_64(opd)):
                continue
            ctx.check('C06.WIDE', not raw, f_spec, st, 'specObjID: the offset `%s` is applied to a 64-bit value (%s)' % (src(st.value), 'boxed Python int' if boxed else 'explicit cast'),
                      msg='sdss_specobjid computes `%s` in the dtype of the caller\'s array: for an unsigned 16-bit MJD column a value below %d wraps around '
                          'and can pass the range check, so an out-of-range MJD is packed instead of rejected' % (src(st.value), abs(c_)),
                      construct='narrow offset: ' + src(st.value))

    # C06.CAST
    for field, k, operand, base, os_ in packed:
        ctx.check('C06.CAST', is_uint64_cast(operand), fa_spec.func, operand,
                  '%s is cast to uint64 before shifting by %d' % (field, k),
                  msg='%s is shifted/ORed without a uint64 cast (plate >= 8192 reaches bit 63; mixed signed/unsigned OR)' % field,
                  construct='cast(%s): %s' % (field, src(operand)))

    # C06.EXCL
    excl = None
    from ..normal import canon_expr
    for g in fa_spec.guards():
        t = canon_expr(g.test)               # `not (line is None or index is None)` reads as `line is not None and index is not None`
        if isinstance(t, ast.BoolOp) and isinstance(t.op, ast.And):
            names = set()
            for v in t.values:
                if isinstance(v, ast.Compare) and isinstance(v.ops[0], ast.IsNot) and isinstance(v.left, ast.Name) \
                        and isinstance(v.comparators[0], ast.Constant) and v.comparators[0].value is None:
                    names.add(v.left.id)
            if names == {'line', 'index'}:
                excl = g
    if excl is None:
        ctx.fail('C06.EXCL', fa_spec.func, fa_spec.node, 'no line/index exclusion guard',
                 'simultaneous line and index is not rejected (both are ORed into bits 0-9)')
    else:
        doms = fa_spec.guard_dominates(excl, packexpr)
        early = True
        for st in fa_spec.stmts((ast.Assign, ast.AugAssign)):
            tg = st.targets if isinstance(st, ast.Assign) else [st.target]
            if any(isinstance(t, ast.Name) and t.id in ('line', 'index') for t in tg):
                if not fa_spec.guard_dominates(excl, st):
                    early = False
        ctx.check('C06.EXCL', doms and early and excl.exc == 'ValueError', fa_spec.func, excl.stmt,
                  'line and index both given raises ValueError before either is defaulted and before the pack',
                  msg='line/index exclusion guard does not dominate the defaults and the pack, or does not raise ValueError',
                  construct='excl guard')

    check_unpack_function(ctx, fa_uobj, OBJID, 'objID', 'int64')
    check_unpack_function(ctx, fa_uspec, [x for x in SPECOBJID if x[0] != 'index'], 'specObjID', 'uint64')
    # 'line' column name may be 'index' (specLineIndex): both must resolve to the same unpack statement
    check_doc(ctx, f_obj, OBJID, 'objID')
    check_doc(ctx, f_spec, SPECOBJID, 'specObjID')
    check_run2d(ctx, fa_spec, fa_uspec)
    check_run2d_elementwise(ctx, fa_uspec)
    for fa in (fa_obj, fa_spec, fa_uobj, fa_uspec):
        check_nomut(ctx, fa)

"""C17 -- rejection, mask interpolation and sky masking act on exactly the intended pixels."""

import ast

from .. import AnalysisError
from ..astutil import src, call_name, dotted, walk_local, try_fold, ancestors, parent, enclosing_stmt, path_conditions, kwarg
from ..fn import FA, expand
from ..permtype import OrderAnalysis, fmt
from ..poly import poly_of, NotPoly, Poly

META = {
    'property': 'C17',
    'title': 'Rejection, mask interpolation and sky masking act on exactly the intended pixels',
    'technique': 'call-site agreement over the axis-dispatch sites (every ndim / axis combination covered), store-index discipline, order typestate '
                 '(argsort/gather/scatter), index-space typing of the grow loop, mask-product dataflow, integer-signedness typing',
    'explanation': (
        'Decided: C17.MI-SITES - in djs_maskinterp every call of djs_maskinterp1 uses the same index tuple on the '
        'assignment target, on yval, on mask (and on xval when present), every loop variable ranges over yval.shape[p] for '
        'its position p, xval= is passed exactly in the xval-is-not-None branches, const=const always; C17.MI1-STORE - in '
        'djs_maskinterp1 every store into the result goes through the bad-sample index (or, under const, through end '
        'slices bounded by the first/last good index), early exits return the input or the single good value; '
        'C17.MI1-ORDER - order typestate: the result is returned in the caller\'s order (no double gather, no index list over '
        'the sorted array applied to the unsorted one); C17.GROW - djs_reject rejects neighbours by indexing the mask with '
        'clamped index lists for k = 1..grow; C17.REJ-MASKS - badness is multiplied by inmask (and outmask under sticky), '
        'the result is ANDed with them, qdone is equality of the new mask with the incoming outmask before rebinding, lower '
        'uses diff < -lower*sigma and upper diff > upper*sigma in both the sigma and invvar branches; C17.AESTH - aesthetics '
        'interpolates with the mask invvar == 0, the mean store is indexed by the complement of invvar > 0, nothing returns '
        'a copy, and the input is returned unchanged when no pixel is bad; C17.SKY - skymask tests exactly BADSKYCHI and '
        'REDMONSTER on ormask, dilates each row with width 2*ngrow+1 using the edge-truncating smooth, multiplies invvar by the '
        'complement; C17.SKY-CAST - each & between the caller\'s mask and a uint64 flag value has an explicit conversion; C17.SKY-WIDTH - a mask widened to 64 bits is cut back to its own item size (or converted through the unsigned type of its own size) before the flag tests, on every path a signed mask can take: sign extension of a negative int16 entry would show bits 27 and 28 (decided for derivations made of conversions, selections and item-size masks; others get no verdict). '
        'C17.MEDIAN - djs_median does not pad with the non-repeating reflect mode of numpy.pad. C17.SMOOTH - smooth() uses the requested width made odd and returns its input unchanged only for widths below 3; C17.REJ-MASKS also: the model-less first pass hands back the input mask. C17.FLOAT-OUT - the arrays that djs_maskinterp fills with interpolated samples and djs_reject with scaled deviations are not allocated in the dtype of the data; C17.INMASK-TRUTH - djs_reject turns the caller\'s inmask into truth values before combining it bitwise; NOT decided: the explicit reflection slices of djs_median, maxrej/group logic, numerical interpolation values.'),
    'floors': {'C17.INMASK-TRUTH': 2, 'C17.FLOAT-OUT': 2, 'C17.SMOOTH': 1, 'C17.MI-SITES': 2, 'C17.MI1-STORE': 6, 'C17.MI1-ORDER': 1, 'C17.GROW': 4, 'C17.REJ-MASKS': 10, 'C17.AESTH': 4,
               'C17.SKY': 5, 'C17.SKY-CAST': 1, 'C17.SKY-WIDTH': 2, 'C17.MEDIAN': 1},
}

IMAGE = 'pydl/pydlutils/image.py'
MATH = 'pydl/pydlutils/math.py'
SPEC1D = 'pydl/pydlspec2d/spec1d.py'
SPEC2D = 'pydl/pydlspec2d/spec2d.py'


def idx_tuple(sub, fa=None):
    """The index of a subscript as a tuple of texts; a full slice reads ':' however it is spelled, an index held in a name is
    followed to its definition."""
    sl = sub.slice
    if isinstance(sl, ast.Name) and fa is not None:
        v = fa.resolve(sl)
        if v is not None:
            sl = v
    out = []
    for x in (sl.elts if isinstance(sl, ast.Tuple) else [sl]):
        if isinstance(x, ast.Call) and call_name(x) == 'slice' and len(x.args) == 1 and isinstance(x.args[0], ast.Constant) and x.args[0].value is None:
            out.append(':')
        elif isinstance(x, ast.Slice) and x.lower is None and x.upper is None and x.step is None:
            out.append(':')
        else:
            out.append(src(x))
    return tuple(out)


def _is_none_test(t, name):
    """+1 for `name is None`, -1 for `name is not None`, 0 otherwise."""
    if isinstance(t, ast.Compare) and len(t.ops) == 1 and isinstance(t.left, ast.Name) and t.left.id == name \
            and isinstance(t.comparators[0], ast.Constant) and t.comparators[0].value is None:
        return 1 if isinstance(t.ops[0], (ast.Is, ast.Eq)) else -1 if isinstance(t.ops[0], (ast.IsNot, ast.NotEq)) else 0
    return 0


def _generic_site(st, c, f, fa, yv, ax):
    """A dispatch written once for every dimension:  for index in np.ndindex(*[n for k, n in enumerate(yval.shape) if k != A]):
    V = index[:A] + (slice(None),) + index[A:]; ynew[V] = djs_maskinterp1(yval[V], ...).  Returns (A as an expression, the loop) or None."""
    if not (isinstance(st, ast.Assign) and isinstance(st.targets[0], ast.Subscript) and isinstance(st.targets[0].slice, ast.Name)):
        return None
    v = fa.resolve(st.targets[0].slice)
    if not (isinstance(v, ast.BinOp) and isinstance(v.op, ast.Add) and isinstance(v.left, ast.BinOp) and isinstance(v.left.op, ast.Add)):
        return None
    head, mid, tail = v.left.left, v.left.right, v.right
    if not (isinstance(mid, ast.Tuple) and len(mid.elts) == 1 and idx_tuple(ast.Subscript(value=ast.Name(id='_', ctx=ast.Load()), slice=mid.elts[0], ctx=ast.Load())) == (':',)):
        return None
    if not (isinstance(head, ast.Subscript) and isinstance(tail, ast.Subscript) and isinstance(head.value, ast.Name) and isinstance(tail.value, ast.Name)
            and head.value.id == tail.value.id and isinstance(head.slice, ast.Slice) and isinstance(tail.slice, ast.Slice)
            and head.slice.lower is None and tail.slice.upper is None and head.slice.step is None and tail.slice.step is None
            and head.slice.upper is not None and tail.slice.lower is not None and src(head.slice.upper) == src(tail.slice.lower)):
        return None
    A = head.slice.upper
    loop = None
    for a in ancestors(c):
        if isinstance(a, ast.For) and isinstance(a.target, ast.Name) and a.target.id == head.value.id:
            loop = a
            break
    if loop is None or not (isinstance(loop.iter, ast.Call) and call_name(loop.iter) == 'ndindex' and len(loop.iter.args) == 1
                            and isinstance(loop.iter.args[0], ast.Starred)):
        return None
    from ..fn import expand
    others = expand(loop.iter.args[0].value, fa, 3)
    while isinstance(others, ast.Call) and call_name(others) in ('tuple', 'list') and len(others.args) == 1:
        others = others.args[0]
    # every extent but the one at position A, in order
    ok = isinstance(others, (ast.ListComp, ast.GeneratorExp)) and len(others.generators) == 1 and isinstance(others.generators[0].iter, ast.Call) \
        and call_name(others.generators[0].iter) == 'enumerate' and src(others.generators[0].iter.args[0]) == '%s.shape' % yv \
        and isinstance(others.generators[0].target, ast.Tuple) and len(others.generators[0].target.elts) == 2
    if ok:
        k_, n_ = (t.id for t in others.generators[0].target.elts)
        cond = others.generators[0].ifs
        ok = isinstance(others.elt, ast.Name) and others.elt.id == n_ and len(cond) == 1 and src(cond[0]).replace(' ', '') in (
            '%s!=%s' % (k_, src(A)), '%s!=%s' % (src(A), k_))
    if not ok:
        return None
    return A, loop


def generic_positions(f, A, loop, yv, ax):
    """{(ndim, axis): position of the interpolated axis} of a generic dispatch site, by interpreting the statements in front of its loop."""
    from .. import minieval
    blk = None
    for owner in ast.walk(f.node):
        for fld in ('body', 'orelse'):
            v_ = getattr(owner, fld, None)
            if isinstance(v_, list) and any(x is loop for x in v_):
                blk = v_[:[k for k, x in enumerate(v_) if x is loop][0]]
    if blk is None:
        raise AnalysisError('C17: djs_maskinterp: the statements in front of the generic loop not found')
    nd = [st_.targets[0].id for st_ in walk_local(f.node) if isinstance(st_, ast.Assign) and isinstance(st_.targets[0], ast.Name)
          and src(st_.value) in ('%s.ndim' % yv, 'len(%s.shape)' % yv)]
    out = {}
    for d_ in (2, 3):
        for a_ in range(d_):
            env0 = {ax: a_}
            env0.update({n_: d_ for n_ in nd})
            try:
                env = minieval.run(blk, env0, {'%s.ndim' % yv: d_}, lambda s_, e_: None)
                pos = minieval.ev(A, env, {'%s.ndim' % yv: d_}) if env is not None else minieval.TOP
            except minieval.Unknown as e:
                raise AnalysisError('C17: djs_maskinterp: the position of the interpolated axis is not arithmetic the index evaluator understands (%s)' % e)
            if pos is minieval.TOP:
                raise AnalysisError('C17: djs_maskinterp: the position of the interpolated axis has no value for ndim=%d, axis=%d' % (d_, a_))
            out[(d_, a_)] = pos
    return out


def check_mi_sites(ctx, repo):
    f = repo.func(IMAGE, 'djs_maskinterp')
    g = repo.func(IMAGE, 'djs_maskinterp1')
    fa = FA(f)
    ctx.cover(f)
    P = f.params
    ctx.need(len(P) >= 5 and len(g.params) >= 4, 'djs_maskinterp / djs_maskinterp1: parameter lists changed')
    yv, mk, xv, ax, cn = P[:5]
    calls = [c for c in walk_local(f.node) if isinstance(c, ast.Call) and call_name(c) == 'djs_maskinterp1']
    shapes = set()
    for c in calls:
        st = c
        while not isinstance(st, ast.stmt):
            st = st._parent
        bound = dict(zip(g.params, c.args))
        bound.update({k.arg: k.value for k in c.keywords if k.arg})
        a_y, a_m, a_x, a_c = (bound.get(g.params[i]) for i in range(4))
        # is the site only reached with xval None / not None ?
        under = 0
        child = st
        for a in ancestors(c):
            if isinstance(a, ast.If) and _is_none_test(a.test, xv):
                inbody = any(child is b_ or child in list(ast.walk(b_)) for b_ in a.body)
                under = _is_none_test(a.test, xv) * (1 if inbody else -1)
                break
            child = a
        generic = _generic_site(st, c, f, fa, yv, ax)
        if isinstance(st, ast.Assign) and isinstance(st.targets[0], ast.Subscript):
            tgt = idx_tuple(st.targets[0], fa)
            whole = False
        else:
            tgt = ()
            whole = True

        def arg_ok(a, name):
            if whole:
                return isinstance(a, ast.Name) and a.id == name
            return isinstance(a, ast.Subscript) and isinstance(a.value, ast.Name) and a.value.id == name and idx_tuple(a, fa) == tgt
        okidx = arg_ok(a_y, yv) and arg_ok(a_m, mk)
        okargs = a_y is not None and a_m is not None and okidx

        def x_forms(e, depth=0):
            """{'none', 'sub', 'bad'}: how the xval argument can evaluate, with the xval-is-None condition it is selected under."""
            if e is None:
                return [('none', 0)]
            if isinstance(e, ast.Constant) and e.value is None:
                return [('none', 0)]
            if arg_ok(e, xv):
                return [('sub', 0)]
            if isinstance(e, ast.IfExp) and _is_none_test(e.test, xv):
                s_ = _is_none_test(e.test, xv)
                return [(k_, s_) for k_, _ in x_forms(e.body, depth + 1)] + [(k_, -s_) for k_, _ in x_forms(e.orelse, depth + 1)]
            if isinstance(e, ast.Name) and depth < 3:
                out = []
                for d, v in fa.defs(e):
                    if v is None:
                        return [('bad', 0)]
                    cond = 0
                    ch = d
                    for a in ancestors(d):
                        if isinstance(a, ast.If) and _is_none_test(a.test, xv):
                            inb = any(ch is b_ or ch in list(ast.walk(b_)) for b_ in a.body)
                            cond = _is_none_test(a.test, xv) * (1 if inb else -1)
                            break
                        ch = a
                    out += [(k_, cond or c_) for k_, c_ in x_forms(v, depth + 1)]
                return out or [('bad', 0)]
            return [('bad', 0)]
        forms = x_forms(a_x)
        # xval must be handed on exactly when there is one: 'none' only where xval is None, the slice of xval only where it is not
        okx = all((k_ == 'none' and (c_ or under) == 1) or (k_ == 'sub' and (c_ or under) == -1) for k_, c_ in forms)
        if whole and under == 0 and forms == [('sub', 0)]:
            okx = True                  # 1-D: xval handed on as it is, None included
        okrng = True
        for a in ancestors(c):
            if isinstance(a, ast.For) and isinstance(a.target, ast.Name) and a.target.id in tgt:
                pos = tgt.index(a.target.id)
                okrng = okrng and src(a.iter).replace(' ', '') in ('range(%s.shape[%d])' % (yv, pos), 'range(%s.shape[%d])' % (mk, pos))
        okconst = isinstance(a_c, ast.Name) and a_c.id == cn
        has_x = any(k_ == 'sub' for k_, _ in forms)
        ctx.check('C17.MI-SITES', okidx and okrng and okargs and okconst and okx, f, c,
                  'site %s: target/yval/mask%s share the index tuple, loop ranges match axis positions, const passed, xval %s'
                  % (tgt or '1-D', '/xval' if has_x else '', 'passed' if has_x else 'absent'),
                  msg='djs_maskinterp call site at line %d is inconsistent: %s' % (c.lineno, '; '.join(
                      w for w, ok in (('index tuples differ between target, yval, mask', okidx), ('a loop ranges over the wrong axis length', okrng),
                                      ('arguments are not yval/mask slices', okargs), ('const=const not passed', okconst),
                                      ('xval is not handed on as the same slice exactly when it is given', okx)) if not ok)),
                  construct='maskinterp site ' + src(st)[:90])
        if generic is None:
            shapes.add((len(tgt), tgt.index(':')) if ':' in tgt else (1, 0))
            continue
        # one site for every dimension: the position of the interpolated axis, by interpreting the code in front of the loop for every
        # (number of dimensions, axis) the routine accepts; `axis` counts from the last dimension
        A, loop = generic
        wrong = None
        for (d_, a_), pos in sorted(generic_positions(f, A, loop, yv, ax).items()):
            if pos != d_ - 1 - a_ and wrong is None:
                wrong = (d_, a_, pos)
            shapes.add((d_, d_ - 1 - a_))
        ctx.check('C17.MI-SITES', wrong is None, f, loop, 'generic site: axis a of a d-dimensional image is interpolated along position d-1-a (d = 2, 3)',
                  msg='djs_maskinterp interpolates a %s-dimensional image with axis=%s along position %s, not %s' % (
                      wrong + (wrong[0] - 1 - wrong[1],) if wrong else ('', '', '', '')), construct='generic maskinterp site: axis position')
    return shapes


def check_mi1(ctx, repo):
    f = repo.func(IMAGE, 'djs_maskinterp1')
    fa = FA(f)
    ctx.cover(f)
    rets = [r for r in walk_local(f.node) if isinstance(r, ast.Return) and r.value is not None]
    final = [r for r in rets if isinstance(r.value, ast.Name) and r.value.id not in f.params]
    ctx.need(final, 'djs_maskinterp1: final `return <result>` not found')
    out = final[-1].value.id
    stores = [st for st in walk_local(f.node) if isinstance(st, ast.Assign) and isinstance(st.targets[0], ast.Subscript)
              and isinstance(st.targets[0].value, ast.Name)]
    # which arrays flow into the returned one
    for st in stores:
        t = st.targets[0]
        idx = t.slice
        s = src(idx)
        under_const = any(isinstance(a, ast.If) and src(a.test) == 'const' for a in ancestors(st))
        ok = False
        why = ''
        if isinstance(idx, ast.Name) or (isinstance(idx, ast.Subscript) and isinstance(idx.slice, ast.Name)):
            nm = idx.id if isinstance(idx, ast.Name) else idx.slice.id
            node = idx if isinstance(idx, ast.Name) else idx.slice
            ds = [v for d, v in fa.defs(node) if v is not None]
            ok = bool(ds) and all('!= 0' in src(v) and src(v).replace(' ', '').endswith('.nonzero()[0]') and 'mask' in src(v) for v in ds)
            why = 'index %s = %s' % (s, [src(v) for v in ds])
        elif under_const and (isinstance(idx, ast.Slice) or (isinstance(idx, ast.Subscript) and isinstance(idx.slice, ast.Slice))):
            sl = idx if isinstance(idx, ast.Slice) else idx.slice
            lo, hi = src(sl.lower) if sl.lower is not None else '0', src(sl.upper) if sl.upper is not None else 'ny'
            ok = (lo == '0' and hi == 'igood[0]') or (lo == 'igood[ngood - 1] + 1' and hi == 'ny')
            why = 'end slice [%s:%s] under const' % (lo, hi)
        else:
            why = 'index ' + s
        ctx.check('C17.MI1-STORE', ok, f, st, 'store `%s`: %s' % (src(t)[:40], why),
                  msg='djs_maskinterp1 writes the result through %s: samples other than the masked ones (or the constant end runs) are modified'
                      % why, construct='store ' + src(st)[:80])
    # early exits
    early = [r for r in rets if r not in final]
    for r in early:
        ok = (isinstance(r.value, ast.Name) and r.value.id == f.params[0]) or ('zeros(' in src(r.value) and 'igood[0]' in src(r.value))
        ctx.check('C17.MI1-STORE', ok, f, r, 'early exit returns the input or the single good value broadcast: %s' % src(r.value)[:50],
                  msg='early exit returns %s' % src(r.value)[:60], construct='early return ' + src(r.value)[:60])
    # order typestate
    oa = OrderAnalysis(fa, aligned_params=[p for p in f.params if p in ('yval', 'mask', 'xval')]).run()
    bad = []
    for r in final:
        for t in oa.tags_at(r.value, r):
            if t[0] in ('BAD', 'G'):
                bad.append(t)
    ctx.check('C17.MI1-ORDER', not bad, f, final[-1], 'the interpolated array is returned in the caller\'s order (tags: %s)'
              % sorted(fmt(t) for r in final for t in oa.tags_at(r.value, r)),
              msg='djs_maskinterp1 returns its result out of the caller\'s order: %s' % '; '.join(fmt(t) for t in bad)[:300],
              construct='result order: ' + '; '.join(sorted(t[0] if t[0] != 'BAD' else t[1][:80] for t in bad)))


def check_reject(ctx, repo):
    f = repo.func(MATH, 'djs_reject')
    fa = FA(f)
    ctx.cover(f)
    # GROW
    grow_if = [n for n in walk_local(f.node) if isinstance(n, ast.If) and src(n.test) in ('grow > 0', '0 < grow', 'grow')]
    ctx.need(grow_if, 'djs_reject: grow block not found')
    g = grow_if[0]
    # the neighbours that are rejected are those of the points THIS pass rejected: the grow block works on the mask before it is
    # combined with inmask (and the sticky outmask); grown afterwards, the holes of inmask spread as well - and with sticky=True the
    # rejected region creeps outward on every pass
    combos = []
    for st in walk_local(f.node):
        v = t = None
        if isinstance(st, ast.AugAssign) and isinstance(st.op, ast.BitAnd):
            v, t = st.value, st.target
        elif isinstance(st, ast.Assign) and len(st.targets) == 1:
            v, t = st.value, st.targets[0]
        if v is None or not isinstance(t, ast.Name):
            continue
        if any(isinstance(x, ast.Name) and x.id in ('inmask', 'outmask') for x in ast.walk(v)) and (
                isinstance(st, ast.AugAssign) or any(isinstance(x, ast.BinOp) and isinstance(x.op, ast.BitAnd) for x in ast.walk(v))
                or any(isinstance(x, ast.Call) and call_name(x) in ('logical_and', 'where') for x in ast.walk(v))) \
                and any(isinstance(x, ast.Name) and x.id == t.id for x in ast.walk(v)) or (isinstance(st, ast.AugAssign) and isinstance(st.op, ast.BitAnd)
                                                                                         and any(isinstance(x, ast.Name) and x.id in ('inmask', 'outmask') for x in ast.walk(v))):
            if st.lineno > 0 and not any(a is g for a in ancestors(st)):
                combos.append(st)
    early = [st for st in combos if st.lineno < g.lineno]
    ctx.check('C17.GROW', bool(combos) and not early, f, early[0] if early else g, 'neighbours are grown before the mask is combined with inmask / outmask',
              msg='djs_reject grows the rejected region after the mask was combined with inmask / outmask (`%s` at line %d): points the caller excluded, and '
                  'with sticky=True the rejections of earlier passes, spread by `grow` pixels on every pass' % (
                      src(early[0])[:50] if early else '', early[0].lineno if early else 0), construct='grow after mask combination')
    loops = [n for n in walk_local(g) if isinstance(n, ast.For)]
    if not loops:
        return check_grow_vectorised(ctx, f, fa, g)
    lp = loops[0]
    rng = [try_fold(a) if not isinstance(a, ast.BinOp) else src(a) for a in lp.iter.args] if isinstance(lp.iter, ast.Call) and call_name(lp.iter) == 'range' else None
    ctx.check('C17.GROW', rng == [1, 'grow + 1'], f, lp, 'grow loop visits k = 1 .. grow',
              msg='the grow loop is %s: it does not visit k = 1..grow (the requested number of neighbours is not rejected)' % src(lp.iter),
              construct='grow range ' + src(lp.iter))
    k = lp.target.id
    stores = [st for st in lp.body if isinstance(st, ast.Assign) and isinstance(st.targets[0], ast.Subscript)]
    ctx.need(len(stores) >= 2, 'djs_reject: grow stores not found')
    for st in stores:
        idx = st.targets[0].slice
        ok = False
        if isinstance(idx, ast.Call) and call_name(idx) in ('maximum', 'minimum', 'clip'):
            inner = idx.args[0]
            ok = isinstance(inner, ast.BinOp) and isinstance(inner.op, (ast.Add, ast.Sub)) and src(inner.right) == k
            if ok:
                nm = inner.left
                ds = [v for d, v in fa.defs(nm) if v is not None] if isinstance(nm, ast.Name) else []
                ok = bool(ds) and all(src(v).replace(' ', '').endswith('.nonzero()[0]') for v in ds)
                bound = idx.args[1] if len(idx.args) > 1 else None
                if call_name(idx) == 'maximum':
                    ok = ok and isinstance(inner.op, ast.Sub) and try_fold(bound) == 0
                elif call_name(idx) == 'minimum':
                    ok = ok and isinstance(inner.op, ast.Add) and src(bound).replace(' ', '') in ('data.shape[0]-1', 'len(data)-1', 'data.size-1')
        ctx.check('C17.GROW', ok and try_fold(st.value) == 0, f, st, 'neighbour rejection indexes the mask with a clamped index list: %s' % src(idx)[:60],
                  msg='the grow step indexes the data-length mask with `%s`, which is not the reject index list shifted by k and clamped to the array '
                      '(a comparison here is a boolean over the reject list, not an index)' % src(idx)[:70], construct='grow store ' + src(st)[:80])
    # INMASK-TRUTH: the caller's mask enters bitwise combinations as truth values (the documentation speaks of entries that
    # "evaluate to False"): 1 & 2 == 0, so an even non-zero entry would otherwise count as excluded
    im = 'inmask' if 'inmask' in f.params else None
    if im:
        def truthy(v):
            if isinstance(v, ast.Compare) and len(v.ops) == 1 and isinstance(v.ops[0], (ast.NotEq, ast.Gt)) and try_fold(v.comparators[0]) == 0:
                return True
            if isinstance(v, ast.Call) and call_name(v) in ('astype', 'asarray', 'array'):
                return 'bool' in src(v)
            return False
        uses = []
        for n_ in walk_local(f.node):
            ops = None
            if isinstance(n_, ast.BinOp) and isinstance(n_.op, ast.BitAnd):
                ops = [n_.left, n_.right]
            elif isinstance(n_, ast.AugAssign) and isinstance(n_.op, ast.BitAnd):
                ops = [n_.value]
            for o in ops or []:
                if isinstance(o, ast.Name) and o.id == im:
                    uses.append((n_, o))
        for n_, o in uses:
            ds = [v for d, v in fa.defs(o) if v is not None]
            ok = any(truthy(v) for v in ds)
            ctx.check('C17.INMASK-TRUTH', ok, f, n_, '`%s`: inmask enters the bitwise AND as truth values' % src(n_)[:50],
                      msg='djs_reject combines the caller\'s inmask bitwise (`%s`) without turning it into truth values: a good point whose mask entry is an even '
                          'non-zero number (2, 4, ...) is reported as rejected' % src(n_)[:60], construct='bitwise use of inmask: ' + src(n_)[:60])
    # REJ-MASKS
    def has_stmt(pred):
        return [st for st in walk_local(f.node) if pred(st)]
    m1 = has_stmt(lambda s: isinstance(s, ast.AugAssign) and isinstance(s.op, ast.Mult) and src(s.target) == 'badness' and src(s.value) == 'inmask')
    ctx.check('C17.REJ-MASKS', len(m1) == 1 and isinstance(m1[0]._parent, ast.If) and src(m1[0]._parent.test) == 'inmask is not None', f, m1[0] if m1 else f.node,
              'badness *= inmask (when an input mask is given)', msg='badness is not multiplied by inmask', construct='badness*inmask')
    m2 = has_stmt(lambda s: isinstance(s, ast.AugAssign) and isinstance(s.op, ast.Mult) and src(s.target) == 'badness' and src(s.value) == 'outmask')
    ctx.check('C17.REJ-MASKS', len(m2) == 1 and isinstance(m2[0]._parent, ast.If) and src(m2[0]._parent.test) == 'sticky', f, m2[0] if m2 else f.node,
              'badness *= outmask under sticky', msg='badness is not multiplied by outmask under sticky', construct='badness*outmask')
    def and_stmt(other):
        out = []
        for st in walk_local(f.node):
            if isinstance(st, ast.AugAssign) and isinstance(st.op, ast.BitAnd) and {src(st.target), src(st.value)} == {'newmask', other}:
                out.append(st)
            elif isinstance(st, ast.Assign) and isinstance(st.value, ast.BinOp) and isinstance(st.value.op, ast.BitAnd) \
                    and {src(st.value.left), src(st.value.right)} == {'newmask', other} and src(st.targets[0]) in ('newmask', other):
                out.append(st)
        return out
    a1 = and_stmt('inmask')
    ctx.check('C17.REJ-MASKS', len(a1) == 1 and src(a1[0]._parent.test) == 'inmask is not None', f, a1[0] if a1 else f.node,
              'the new mask is ANDed with inmask', msg='the new mask is not ANDed with inmask', construct='newmask&inmask')
    a2 = and_stmt('outmask')
    ctx.check('C17.REJ-MASKS', len(a2) == 1 and src(a2[0]._parent.test) == 'sticky', f, a2[0] if a2 else f.node,
              'the new mask is ANDed with outmask under sticky', msg='the new mask is not ANDed with outmask under sticky', construct='newmask&outmask')
    # the model-less first pass returns the input mask (callers count good points with it)
    first = [n for n in walk_local(f.node) if isinstance(n, ast.If) and src(n.test).replace(' ', '') in ('modelisNone', 'Noneismodel')]
    if first:
        body = first[0].body
        rets = [r for r in body if isinstance(r, ast.Return)]
        hand = [st for st in walk_local(first[0]) if isinstance(st, ast.Assign) and src(st.targets[0]) == 'outmask' and 'inmask' in src(st.value)
                and isinstance(st._parent, ast.If) and 'inmask is not None' in src(st._parent.test)]
        direct = [r for r in rets if 'inmask' in src(r.value)]
        ctx.check('C17.REJ-MASKS', bool(rets) and (bool(hand) or bool(direct)), f, rets[0] if rets else first[0],
                  'without a model the input mask is handed back (outmask = inmask when inmask is given)',
                  msg='djs_reject returns `%s` on the model-less first pass without taking over inmask: points excluded by the input mask are '
                      'reported as good (pca_solve counts them in its use-mask)' % (src(rets[0].value) if rets else '?'), construct='model-less pass drops inmask')
    else:
        first_alt = [r for r in walk_local(f.node) if isinstance(r, ast.Return) and any(isinstance(a, ast.If) and 'model' in src(a.test) and 'None' in src(a.test) for a in ancestors(r))]
        ctx.need(first_alt, 'djs_reject: the model-less first pass was not found')
    check_qdone(ctx, f, fa, 'C17.REJ-MASKS')
    check_thresholds(ctx, f, fa, 'C17.REJ-MASKS')


def check_grow_vectorised(ctx, f, fa, g):
    """Loop-free grow: the neighbour indices are offsets in [-grow, grow] of the reject indices, kept when they fall inside
    [0, n-1].  The kept range is extracted from the filter predicate with interval arithmetic."""
    from ..pred import rejected, NotRange
    from ..intset import IntSet
    stores = [st for st in walk_local(g) if isinstance(st, ast.Assign) and isinstance(st.targets[0], ast.Subscript) and src(st.targets[0].value) == 'newmask']
    filt = [st for st in walk_local(g) if isinstance(st, ast.Assign) and isinstance(st.value, ast.Subscript) and isinstance(st.targets[0], ast.Name)
            and src(st.value.value) == src(st.targets[0]) and not isinstance(st.value.slice, (ast.Slice, ast.Constant, ast.Name))]
    offs = [c for c in walk_local(g) if isinstance(c, ast.Call) and call_name(c) == 'arange' and 'grow' in src(c)]
    if not stores or not filt or not offs:
        raise AnalysisError('C17: djs_reject grow block is neither the clamped loop nor a recognised vectorised form')
    rng = [src(a).replace(' ', '') for a in offs[0].args]
    ctx.check('C17.GROW', rng[:2] == ['-grow', 'grow+1'], f, offs[0], 'neighbour offsets cover -grow .. +grow (%s)' % src(offs[0]),
              msg='neighbour offsets are %s, not -grow .. +grow' % src(offs[0]), construct='grow offsets ' + src(offs[0]))
    cond = filt[0].value.slice
    var = src(filt[0].targets[0])

    def res(n):
        return None
    try:
        # treat `data.shape[0]` / len(data) as the symbolic size N = 10**9 for the interval computation
        class Sub(ast.NodeTransformer):
            def visit_Subscript(self, n):
                if src(n) in ('data.shape[0]',):
                    return ast.Constant(value=10 ** 9)
                return self.generic_visit(n)

            def visit_Call(self, n):
                if src(n) in ('len(data)',):
                    return ast.Constant(value=10 ** 9)
                return self.generic_visit(n)

            def visit_Attribute(self, n):
                if src(n) == 'data.size':
                    return ast.Constant(value=10 ** 9)
                return self.generic_visit(n)
        from ..astutil import clone
        r = rejected(Sub().visit(clone(cond)))
    except NotRange as e:
        raise AnalysisError('C17: grow filter `%s` is not a recognised range test: %s' % (src(cond), e))
    kept = r.get(var, (IntSet.empty(), IntSet.empty()))[0]
    want = IntSet.range(0, 10 ** 9 - 1)
    ctx.check('C17.GROW', kept == want, f, filt[0], 'neighbour indices are kept exactly when they lie in [0, n-1] (`%s`)' % src(cond),
              msg='the grow filter `%s` keeps indices %s (n = 10^9 stands for the array length): %s is never rejected as a neighbour'
                  % (src(cond), kept, 'pixel 0' if not (IntSet.range(0, 0) & kept) else 'the last pixel or an out-of-range index'),
              construct='grow filter ' + src(cond))
    ctx.check('C17.GROW', any(try_fold(st.value) == 0 and var in src(st.targets[0].slice) for st in stores), f, stores[0], 'the kept neighbours are rejected: newmask[%s] = 0' % var,
              msg='the filtered neighbour indices are not the ones rejected', construct='grow store')


def check_qdone(ctx, f, fa, rule):
    """qdone = all(newmask == outmask), with outmask still the incoming mask (no write to it since badness was formed;
    a rebinding `outmask = newmask`, if present, comes after)."""
    qd = [st for st in walk_local(f.node) if isinstance(st, ast.Assign) and src(st.targets[0]) == 'qdone']
    okq = False
    why = 'missing'
    if len(qd) == 1:
        v = qd[0].value
        why = src(v)
        inner = v
        while isinstance(inner, ast.Call) and call_name(inner) in ('bool', 'all') and (inner.args or isinstance(inner.func, ast.Attribute)):
            inner = inner.args[0] if inner.args else inner.func.value
        eq = isinstance(inner, ast.Compare) and isinstance(inner.ops[0], ast.Eq) and {src(inner.left), src(inner.comparators[0])} == {'newmask', 'outmask'}
        if isinstance(inner, ast.Call) and call_name(inner) == 'array_equal' and {src(a) for a in inner.args} == {'newmask', 'outmask'}:
            eq = True
        has_all = 'all(' in src(v) or 'array_equal' in src(v)
        okq = eq and has_all
        bdef = [st for st in walk_local(f.node) if isinstance(st, ast.Assign) and src(st.targets[0]) == 'badness']
        start = bdef[0].lineno if bdef else 0
        for st in walk_local(f.node):
            if isinstance(st, (ast.Assign, ast.AugAssign)) and start < st.lineno < qd[0].lineno:
                for t in (st.targets if isinstance(st, ast.Assign) else [st.target]):
                    b = t
                    while isinstance(b, ast.Subscript):
                        b = b.value
                    if isinstance(b, ast.Name) and b.id == 'outmask':
                        okq = False
                        why = '%s, but `%s` has already modified the incoming outmask' % (src(v), src(st))
    ctx.check(rule, okq, f, qd[0] if qd else f.node, 'qdone = all(newmask == outmask), evaluated on the incoming outmask before anything writes to it',
              msg='qdone is `%s`: completion is not reported exactly when the mask did not change' % why, construct='qdone ' + why)


def check_thresholds(ctx, f, fa, rule):
    """lower uses diff < -lower*sigma, upper uses diff > upper*sigma, each in the sigma and in the invvar branch.  The four tests are
    found by what is known on the way to them (lower / upper given, sigma given or not), however the branches are nested."""
    from ..astutil import path_conditions
    params = set(f.params)

    def res(n):
        if n.id in params:
            return None
        return fa.resolve(n)

    def at(e):
        if isinstance(e, ast.Call) and call_name(e) == 'sqrt' and len(e.args) == 1 and isinstance(e.args[0], ast.Name) and e.args[0].id == 'invvar':
            return 'sqrt(invvar)'
        return None

    def given(node, name):
        """+1: reached only when `name is not None`; -1: only when it is None; 0: unknown."""
        for t_, pol in path_conditions(node):
            for x in ([t_] if not (isinstance(t_, ast.BoolOp) and isinstance(t_.op, ast.And) and pol) else t_.values):
                k = _is_none_test(x, name)
                if k:
                    return -k if pol else k
        return 0
    # a limit is "given" when it is not None: 0 is a limit (reject everything on that side), not the absence of one
    for n_ in walk_local(f.node):
        if isinstance(n_, (ast.If, ast.IfExp, ast.While)):
            parts = [n_.test]
            while parts:
                t_ = parts.pop()
                if isinstance(t_, ast.BoolOp):
                    parts.extend(t_.values)
                elif isinstance(t_, ast.UnaryOp) and isinstance(t_.op, ast.Not):
                    parts.append(t_.operand)
                elif isinstance(t_, ast.Name) and t_.id in ('lower', 'upper', 'maxdev') and t_.id in params and fa.is_param(t_):
                    ctx.check(rule, False, f, n_, '',
                              msg='djs_reject decides whether the limit `%s` was given by its truth value (`%s`): %s=0, a legitimate limit that rejects every point on '
                                  'that side of the model, is treated as "no limit"' % (t_.id, src(n_.test)[:50], t_.id), construct='limit %s tested by truth value' % t_.id)
    try:
        diff = poly_of(ast.BinOp(left=ast.Name(id=f.params[0], ctx=ast.Load()), op=ast.Sub(), right=ast.Name(id=f.params[1], ctx=ast.Load())))
    except NotPoly:
        diff = None
    found = {}
    undecided = []

    def res_in(mode):
        want = 1 if mode == 'sigma' else -1

        def r_(n):
            if n.id in params:
                return None
            ds = [(d, v) for d, v in fa.defs(n) if d is not None and given(d, 'sigma') in (0, want)]
            if len(ds) == 1 and ds[0][1] is not None:
                return ds[0][1]
            if len(ds) > 1:
                raise NotPoly('several definitions of %s' % n.id)
            return None
        return r_
    for st in walk_local(f.node):
        if not (isinstance(st, ast.Assign) and len(st.targets) == 1 and isinstance(st.targets[0], ast.Name) and isinstance(st.value, ast.Compare)
                and len(st.value.ops) == 1 and isinstance(st.value.ops[0], (ast.Lt, ast.Gt, ast.LtE, ast.GtE))):
            continue
        sides = [sd for sd in ('lower', 'upper') if given(st, sd) == 1]
        if len(sides) != 1:
            continue
        side = sides[0]
        sg = given(st, 'sigma')
        opcls, sign = (ast.Lt, -1) if side == 'lower' else (ast.Gt, 1)
        c = st.value
        for mode in (('sigma',) if sg == 1 else ('invvar',) if sg == -1 else ('sigma', 'invvar')):
            ok = isinstance(c.ops[0], (ast.Lt, ast.Gt))
            form = ''
            if ok:
                try:
                    l = poly_of(c.left, atom=at, resolve=res_in(mode))
                    r = poly_of(c.comparators[0], atom=at, resolve=res_in(mode))
                    if not isinstance(c.ops[0], opcls):
                        l, r = -l, -r                    # a > b  reads  -a < -b
                    if mode == 'sigma':
                        ok = l == diff and r == Poly.atom(side).scale(sign) * Poly.atom('sigma')
                        form = 'diff %s %s*%s*sigma' % ('<' if sign < 0 else '>', sign, side)
                    else:
                        ok = l == diff * Poly.atom('sqrt(invvar)') and r == Poly.atom(side).scale(sign)
                        form = 'diff*sqrt(invvar) %s %s*%s' % ('<' if sign < 0 else '>', sign, side)
                except NotPoly as e:
                    if sg == 0:
                        undecided.append('%s limit, %s branch: `%s` (%s)' % (side, mode, src(c), e))
                        continue
                    ok = False
            found[(side, mode)] = found.get((side, mode), 0) + 1
            ctx.check(rule, ok, f, st, '%s limit (%s branch): %s' % (side, mode, form or src(c)),
                      msg='the %s rejection test is `%s` (expected diff %s %s%s*sigma, resp. diff*sqrt(invvar) %s %s%s)'
                          % (side, src(c), '<' if sign < 0 else '>', '-' if sign < 0 else '', side, '<' if sign < 0 else '>', '-' if sign < 0 else '', side),
                      construct='%s test %s' % (side, src(c)))
    for side in ('lower', 'upper'):
        for mode in ('sigma', 'invvar'):
            if (side, mode) not in found:
                raise AnalysisError('%s: djs_reject: expected sigma and invvar branches for %s%s' % (rule.split('.')[0], side, ('; ' + undecided[0]) if undecided else ''))


def check_aesthetics(ctx, repo):
    f = repo.func(SPEC2D, 'aesthetics')
    fa = FA(f)
    ctx.cover(f)
    calls = [c for c in walk_local(f.node) if isinstance(c, ast.Call) and call_name(c) == 'djs_maskinterp']
    ctx.need(calls, 'aesthetics: djs_maskinterp calls not found')
    for c in calls:
        m = fa.deep(c.args[1]) if len(c.args) > 1 else None
        ok = m is not None and src(m).replace(' ', '') in ('invvar==0', '0==invvar') and src(c.args[0]) == 'flux'
        ctx.check('C17.AESTH', ok, f, c, 'interpolation mask is invvar == 0 on the input flux', msg='aesthetics interpolates with mask `%s` on `%s`'
                  % (src(m) if m is not None else '?', src(c.args[0])), construct='aesthetics maskinterp ' + src(c)[:70])
    means = [st for st in walk_local(f.node) if isinstance(st, ast.Assign) and isinstance(st.targets[0], ast.Subscript) and 'mean' in src(st.value)]
    for st in means:
        idx = st.targets[0].slice
        d = fa.deep(idx) if isinstance(idx, ast.Name) else idx
        ds = src(d).replace(' ', '')
        ok = ds in ('invvar==0', '0==invvar', '~(invvar!=0)', 'invvar==0.0')
        wider = ds in ('~goodpts', '~(invvar>0)', 'invvar<=0') or (isinstance(d, ast.UnaryOp) and isinstance(d.op, ast.Invert) and isinstance(d.operand, ast.Name)
                                                                 and src(fa.deep(d.operand)).replace(' ', '') == 'invvar>0')
        ctx.check('C17.AESTH', ok, f, st, 'mean method writes exactly where invvar == 0 (`%s`)' % src(idx),
                  msg='the mean method stores through `%s`%s: flux is changed where the inverse variance is not zero' % (
                      src(idx), ' = not (invvar > 0), which also selects negative inverse variances' if wider else ''), construct='mean store ' + src(st)[:70])
    ctx.need(means, 'aesthetics: mean store not found')
    rets = [r for r in walk_local(f.node) if isinstance(r, ast.Return) and r.value is not None]
    unchanged = [r for r in rets if src(r.value) == f.params[0]]
    okr = False
    from ..astutil import path_conditions
    for r in unchanged:
        # the condition known at the unchanged return: `not <bad>.any()` with <bad> = (invvar == 0), as an else branch or as an early guard
        for t_, pol in path_conditions(r):
            inner = t_.operand if isinstance(t_, ast.UnaryOp) and isinstance(t_.op, ast.Not) else t_
            neg = pol != (inner is not t_)          # True when the known fact is `not inner`... see below
            if isinstance(inner, ast.Call) and call_name(inner) == 'any' and isinstance(inner.func, ast.Attribute):
                fact_is_none_bad = (not pol) if inner is t_ else pol
                b = fa.deep(inner.func.value)
                if fact_is_none_bad and src(b).replace(' ', '') in ('invvar==0', '0==invvar'):
                    okr = True
    ctx.check('C17.AESTH', okr, f, unchanged[0] if unchanged else f.node, 'flux is returned unchanged when no pixel has invvar == 0',
              msg='aesthetics does not return the input unchanged when no pixel is bad', construct='unchanged return')
    nothing = [n for n in walk_local(f.node) if isinstance(n, ast.If) and "'nothing'" in src(n.test)]
    okn = False
    if nothing and len(nothing[0].body) == 1:
        b0 = nothing[0].body[0]
        v0 = b0.value if isinstance(b0, (ast.Assign, ast.Return)) else None
        # `newflux = flux.copy()` (returned later) or `return flux.copy()`
        okn = v0 is not None and src(v0).replace(' ', '') in ('%s.copy()' % f.params[0], 'np.copy(%s)' % f.params[0], 'np.array(%s)' % f.params[0])
    ctx.check('C17.AESTH', okn, f, nothing[0] if nothing else f.node, "method 'nothing' returns a copy of the flux", msg="method 'nothing' changed", construct='nothing method')


def _bitop(n):
    """('&' | '|', a, b) for the operator or the numpy function spelling."""
    if isinstance(n, ast.BinOp) and isinstance(n.op, (ast.BitAnd, ast.BitOr)):
        return ('&' if isinstance(n.op, ast.BitAnd) else '|'), n.left, n.right
    if isinstance(n, ast.Call) and call_name(n) in ('bitwise_and', 'bitwise_or', 'logical_or') and len(n.args) == 2:
        return ('&' if call_name(n) == 'bitwise_and' else '|'), n.args[0], n.args[1]
    return None


def check_skymask(ctx, repo):
    f = repo.func(SPEC1D, 'skymask')
    fa = FA(f)
    ctx.cover(f)
    P = f.params
    ctx.need(len(P) >= 4, 'skymask: parameter list changed')
    invvar, andmask, mask_param, ngrow = P[:4]

    def flagset(e, depth=0):
        """The set of (table, bit) names whose bits e holds; None when e is not a combination of sdss_flagval values."""
        if depth > 6:
            return None
        if isinstance(e, ast.Name):
            vs = [v for d, v in fa.defs(e)]
            if len(vs) != 1 or vs[0] is None:
                return None
            return flagset(vs[0], depth + 1)
        if isinstance(e, ast.Call) and call_name(e) == 'sdss_flagval' and len(e.args) == 2:
            t, b_ = try_fold(e.args[0]), try_fold(e.args[1])
            if isinstance(t, str) and isinstance(b_, str):
                return {(t.upper(), b_.upper())}
            if isinstance(t, str) and isinstance(b_, (list, tuple)) and all(isinstance(x, str) for x in b_):
                return {(t.upper(), x.upper()) for x in b_}
            return None
        if isinstance(e, ast.Call) and call_name(e) in ('uint64', 'int64', 'astype', 'asarray', 'array') and (e.args or isinstance(e.func, ast.Attribute)):
            inner = e.func.value if call_name(e) == 'astype' else (e.args[0] if e.args else None)
            return flagset(inner, depth + 1) if inner is not None else None
        bo = _bitop(e)
        if bo is not None and bo[0] == '|':
            l, r = flagset(bo[1], depth + 1), flagset(bo[2], depth + 1)
            return (l | r) if l is not None and r is not None else None
        if isinstance(e, ast.BinOp) and isinstance(e.op, ast.Add):
            l, r = flagset(e.left, depth + 1), flagset(e.right, depth + 1)
            return (l | r) if l is not None and r is not None and not (l & r) else None
        return None
    rets = [r for r in walk_local(f.node) if isinstance(r, ast.Return) and r.value is not None]
    bad = None
    okret = False
    if len(rets) == 1 and isinstance(rets[0].value, ast.BinOp) and isinstance(rets[0].value.op, ast.Mult):
        for u, w in ((rets[0].value.left, rets[0].value.right), (rets[0].value.right, rets[0].value.left)):
            if isinstance(u, ast.Name) and u.id == invvar and isinstance(w, ast.BinOp) and isinstance(w.op, ast.Sub) and try_fold(w.left) == 1 \
                    and isinstance(w.right, ast.Name):
                bad = w.right.id
                okret = True
    ctx.check('C17.SKY', okret, f, rets[0] if rets else f.node,
              'result is invvar * (1 - badmask)', msg='skymask returns %s' % (src(rets[0].value) if rets else ''), construct='skymask return')
    if not okret:
        return
    tested = set()
    tests = []
    mask_tests = []
    WIDE = ('uint64', 'int64', "'u8'", "'i8'", '"u8"', '"i8"', "'<u8'", "'<i8'", 'ulonglong', 'longlong')

    def signed_test(t):
        """True: the test holds exactly for signed mask types; False: exactly for the others; None: not a test of signedness."""
        if isinstance(t, ast.UnaryOp) and isinstance(t.op, ast.Not):
            r = signed_test(t.operand)
            return None if r is None else not r
        if isinstance(t, ast.Compare) and len(t.ops) == 1 and src(t.left).endswith('.kind'):
            v = try_fold(t.comparators[0])
            op = t.ops[0]
            if isinstance(op, (ast.Eq, ast.In)) and v in ('i', ('i',), ['i']):
                return True
            if isinstance(op, ast.NotEq) and v == 'u':
                return True
            if isinstance(op, (ast.Eq, ast.In)) and v in ('u', ('u',), ['u']):
                return False
            if isinstance(op, ast.NotEq) and v == 'i':
                return False
            return None
        if isinstance(t, ast.Call) and call_name(t) == 'issubdtype' and len(t.args) == 2:
            if src(t.args[1]).endswith('signedinteger') and not src(t.args[1]).endswith('unsignedinteger'):
                return True
            if src(t.args[1]).endswith('unsignedinteger'):
                return False
        return None

    def mask_chains(e, depth=0):
        """Every way the value of e derives from a parameter: (root parameter, [ops from the parameter to the use]) with ops 'wide' (conversion
        to a 64-bit type: sign-extends a negative value), 'same' (conversion through a type computed from the mask's own item size: no
        extension), 'width' (& with a constant computed from the item size: extension bits removed), 'keep' (selection, copy); None for a
        derivation this reader does not understand."""
        if depth > 10:
            return [None]
        if isinstance(e, ast.Name):
            out = []
            ds = fa.defs(e)
            # a definition made directly in the body of `if <the mask type is signed>:` replaces the earlier ones whenever the mask is signed
            signed_ifs = []
            for d, v in ds:
                st_ = enclosing_stmt(d) if not isinstance(d, ast.arg) else None
                par = parent(st_) if st_ is not None else None
                if isinstance(par, ast.If) and any(st_ is b for b in par.body) and signed_test(par.test) is True:
                    signed_ifs.append(par)
                elif isinstance(par, ast.If) and any(st_ is b for b in par.orelse) and signed_test(par.test) is False:
                    signed_ifs.append(par)
            for d, v in ds:
                if isinstance(d, ast.arg):
                    out.append((e.id, []))
                elif v is None:
                    out.append(None)
                else:
                    sub = mask_chains(v, depth + 1)
                    st_ = enclosing_stmt(d)
                    pcs = [(signed_test(t), pol) for t, pol in path_conditions(st_)]
                    unsigned_only = any(sg is not None and sg != pol for sg, pol in pcs) or \
                        any(st_.lineno < I.lineno and not any(a is I for a in ancestors(st_)) for I in signed_ifs)
                    if unsigned_only:
                        sub = [None if c is None else (c[0], c[1] + ['unsigned']) for c in sub]
                    out += sub
            return out or [None]

        def then(inner, op):
            return [None if c is None else (c[0], c[1] + [op]) for c in mask_chains(inner, depth + 1)]
        if isinstance(e, ast.Subscript):
            return then(e.value, 'keep')
        if isinstance(e, ast.Call) and _bitop(e) is None:
            cn = call_name(e)
            if cn in ('astype', 'view') and isinstance(e.func, ast.Attribute) and e.args:
                t = src(e.args[0])
                if any(w in t for w in WIDE):
                    return then(e.func.value, 'wide' if cn == 'astype' else 'other')
                if 'itemsize' in t or ('replace' in t and 'str' in t) or 'newbyteorder' in t:
                    return then(e.func.value, 'same')
                return [None]
            if cn in ('uint64', 'int64') and len(e.args) == 1:
                return then(e.args[0], 'wide')
            if cn in ('asarray', 'array', 'asanyarray') and e.args:
                dt = kwarg(e, 'dtype', 1)
                if dt is None:
                    return then(e.args[0], 'keep')
                if any(w in src(dt) for w in WIDE):
                    return then(e.args[0], 'wide')
                return [None]
            if cn in ('copy', 'ravel', 'ascontiguousarray') and (e.args or isinstance(e.func, ast.Attribute)):
                return then(e.args[0] if e.args else e.func.value, 'keep')
            return [None]
        bo_ = _bitop(e)
        if bo_ is not None and bo_[0] == '&':
            for a, b_ in ((bo_[1], bo_[2]), (bo_[2], bo_[1])):
                bt = src(expand(b_, fa, depth=3, calls=True)) if not isinstance(b_, ast.Constant) else src(b_)
                if 'itemsize' in bt or 'iinfo' in bt or 'nbytes' in bt:
                    return then(a, 'width')
                cb = b_.args[0] if isinstance(b_, ast.Call) and call_name(b_) in ('uint64', 'int64') and len(b_.args) == 1 else b_
                cv = try_fold(cb)
                if isinstance(cv, int) and not isinstance(cv, bool) and (cv >> 27) & 3 == 3 and mask_chains(a, depth + 1) != [None]:
                    # a fixed constant that keeps bits 27 and 28 removes no extension bit the flag tests look at
                    return then(a, 'keep')
            return [None]
        return [None]
    for n in walk_local(f.node):
        bo = _bitop(n)
        if bo is None or bo[0] != '&':
            continue
        fl = [(x, flagset(x)) for x in bo[1:]]
        flag = [(x, s_) for x, s_ in fl if s_ is not None]
        other = [x for x, s_ in fl if s_ is None]
        if not flag or not other:
            continue
        tested |= flag[0][1]
        tests.append(n)
        od = fa.deep(other[0])
        from_mask = mask_param in src(od)
        conv = isinstance(od, ast.Call) and (call_name(od) in ('astype', 'uint64', 'asarray') and ('uint64' in src(od) or 'u8' in src(od)))
        chains = mask_chains(other[0])
        known = [c for c in chains if c is not None]
        if not (from_mask and conv) and chains and len(known) == len(chains):
            # several definitions reach the operand (a conversion followed by a conditional correction): judge every one of them
            from_mask = all(c[0] == mask_param for c in known)
            conv = all(any(op in ('wide', 'same') for op in c[1]) for c in known)
        mask_tests.append((n, chains))
        conv_flag = False
        fd = fa.deep(flag[0][0])
        if isinstance(fd, ast.Call) and call_name(fd) not in ('sdss_flagval', 'bitwise_or') and _bitop(fd) is None:
            conv_flag = True
        ctx.check('C17.SKY-CAST', from_mask and (conv or conv_flag), f, n,
                  '`%s`: the mask operand is explicitly converted (%s)' % (src(n), src(od)[:40]),
                  msg='`%s` combines the caller\'s integer mask with a uint64 flag value without an explicit conversion: under NumPy 2 this raises '
                      'TypeError for the signed int16/int32/int64 masks stored in spPlate files' % src(n), construct='mask & flag: ' + src(n))
    # a signed mask widened to 64 bits is sign-extended: a negative int16 entry (bit 15 only) would show bits 27 and 28. Decided only for
    # derivations made of conversions, selections and item-size masks; any other derivation is left without a verdict.
    for n, chains in mask_tests:
        for c in chains:
            if c is None or c[0] != mask_param:
                continue
            ops = c[1]
            ext = [i for i, op in enumerate(ops) if op == 'wide' and 'same' not in ops[:i] and 'width' not in ops[i + 1:] and 'other' not in ops
                   and 'unsigned' not in ops]
            ctx.check('C17.SKY-WIDTH', not ext, f, n,
                      '`%s`: the mask reaches the flag test without sign extension (%s)' % (src(n), ' > '.join(ops) or 'as given'),
                      msg='`%s` tests a mask that was widened to 64 bits (%s) and never cut back to its own width: a negative int16 entry (bit 15 '
                          'only) is sign-extended and shows BADSKYCHI and REDMONSTER, so unflagged pixels lose their inverse variance'
                          % (src(n), ' > '.join(ops)), construct='sign-extended mask: ' + src(n))
    ctx.check('C17.SKY', tested == {('SPPIXMASK', 'BADSKYCHI'), ('SPPIXMASK', 'REDMONSTER')}, f, f.node,
              'exactly BADSKYCHI and REDMONSTER are tested on the or-mask', msg='skymask tests %s' % sorted(tested), construct='flags tested')

    # every flag test is turned into a truth value and ORed into the bad-pixel mask
    def truth_and_or(n):
        """Follow the flag test upwards / through single-use names: (made a truth value, ORed into `bad`)."""
        truth = False
        cur = n
        for _ in range(12):
            p_ = cur._parent
            if isinstance(p_, ast.Compare) and len(p_.ops) == 1 and ((isinstance(p_.ops[0], (ast.NotEq, ast.Gt)) and try_fold(p_.comparators[0]) == 0
                                                                       and p_.left is cur)):
                truth = True
            elif isinstance(p_, ast.Call) and call_name(p_) == 'not_equal' and len(p_.args) == 2 and try_fold(p_.args[1]) == 0 and p_.args[0] is cur:
                truth = True
            elif isinstance(p_, ast.Call) and call_name(p_) == 'astype' and p_.func.value is cur and p_.args and src(p_.args[0]) in ('bool', 'np.bool_', "'bool'"):
                truth = True
            elif isinstance(p_, ast.Assign) and len(p_.targets) == 1 and isinstance(p_.targets[0], ast.Name):
                t = p_.targets[0].id
                if t == bad:
                    bo = _bitop(p_.value)
                    ored = bo is not None and bo[0] == '|' and any(isinstance(x, ast.Name) and x.id == bad for x in bo[1:])
                    return truth, ored
                uses = [x for x in walk_local(f.node) if isinstance(x, ast.Name) and x.id == t and isinstance(x.ctx, ast.Load)]
                if len(uses) != 1:
                    return truth, False
                cur = uses[0]
                continue
            elif isinstance(p_, ast.AugAssign) and isinstance(p_.target, ast.Name) and p_.target.id == bad and isinstance(p_.op, ast.BitOr):
                return truth, True
            elif isinstance(p_, ast.stmt):
                return truth, False
            cur = p_
        return truth, False
    res = [truth_and_or(n) for n in tests]
    ctx.check('C17.SKY', bool(tests) and all(t and o for t, o in res), f, tests[0] if tests else f.node, 'every flag test is made a truth value (!= 0) and ORed into badmask',
              msg='the flag tests are not all turned into truth values and ORed into badmask', construct='badmask ORs')
    gif = [n for n in walk_local(f.node) if isinstance(n, ast.If) and any(isinstance(x, ast.Name) and x.id == ngrow for x in ast.walk(n.test))]
    ctx.need(gif, 'skymask: ngrow block not found')
    sm = [c for c in walk_local(gif[0]) if isinstance(c, ast.Call) and call_name(c) == 'smooth']
    okw = False
    okrow = False
    if sm:
        c = sm[0]
        g = repo.func('pydl/smooth.py', 'smooth')
        bound = dict(zip(g.params, c.args))
        bound.update({k.arg: k.value for k in c.keywords if k.arg})
        w = fa.deep(bound[g.params[1]]) if g.params[1] in bound else None
        et = bound.get(g.params[2]) if len(g.params) > 2 else None
        wtxt = src(w).replace(' ', '') if w is not None else ''
        okw = wtxt in ('2*%s+1' % ngrow, '%s*2+1' % ngrow, '1+2*%s' % ngrow, '1+%s*2' % ngrow) and et is not None and try_fold(et) is True
        st = c
        while not isinstance(st, ast.stmt):
            st = st._parent
        stv = st.value if isinstance(st, ast.Assign) else None
        if isinstance(st, ast.Assign) and len(st.targets) == 1 and isinstance(st.targets[0], ast.Name):
            # the smoothed row is held in a name first: the store that uses it is the statement to judge
            tname = st.targets[0].id
            users = [s2 for s2 in walk_local(gif[0]) if isinstance(s2, ast.Assign) and s2 is not st and isinstance(s2.targets[0], ast.Subscript)
                     and any(isinstance(x, ast.Name) and x.id == tname for x in ast.walk(s2.value))]
            if len(users) == 1:
                stv = expand(users[0].value, fa, depth=3, calls=True)
                st = users[0]
        loop = next((a for a in ancestors(st) if isinstance(a, ast.For)), None)
        sig = bound.get(g.params[0])
        row = None
        if loop is not None and isinstance(loop.target, ast.Name) and isinstance(st, ast.Assign) and isinstance(st.targets[0], ast.Subscript):
            row = idx_tuple(st.targets[0], fa)
        rows_ok = row in ((loop.target.id, ':'), (loop.target.id,)) if row else False
        sig_ok = False
        if rows_ok and sig is not None:
            subs = [x for x in ast.walk(sig) if isinstance(x, ast.Subscript) and isinstance(x.value, ast.Name) and x.value.id == bad]
            sig_ok = len(subs) == 1 and idx_tuple(subs[0], fa) in ((loop.target.id, ':'), (loop.target.id,))
        full = loop is not None and isinstance(loop.iter, ast.Call) and call_name(loop.iter) == 'range' and len(loop.iter.args) == 1
        gt0 = isinstance(st, ast.Assign) and isinstance(stv, ast.Compare) and len(stv.ops) == 1 \
            and isinstance(stv.ops[0], (ast.Gt, ast.NotEq)) and try_fold(stv.comparators[0]) == 0
        okrow = rows_ok and sig_ok and full and gt0
    if not sm:
        other = [c for c in walk_local(gif[0]) if isinstance(c, ast.Call) and call_name(c) in ('binary_dilation', 'grey_dilation', 'maximum_filter',
                                                                                              'maximum_filter1d', 'convolve', 'convolve1d', 'uniform_filter1d')]
        if other and any(k.arg in ('structure', 'axes', 'axis', 'footprint', 'size') for k in other[0].keywords):
            raise AnalysisError('C17: skymask dilates with %s and an explicit structure/axis: not an idiom this checker can judge' % call_name(other[0]))
    ctx.check('C17.SKY', bool(sm) and okw, f, sm[0] if sm else gif[0], 'dilation uses smooth(row*width, width = 2*ngrow+1, edge_truncate=True) > 0',
              msg='the dilation is not the edge-truncating smooth of width 2*ngrow+1', construct='dilation call')
    ctx.check('C17.SKY', okrow, f, sm[0] if sm else gif[0], 'dilation is applied row by row (each spectrum separately)',
              msg='the bad-pixel mask is not dilated row by row along the pixel axis: flags would spread into neighbouring spectra',
              construct='dilation rows')


def check_median(ctx, repo):
    f = repo.func(MATH, 'djs_median')
    ctx.cover(f)
    pads = [c for c in walk_local(f.node) if isinstance(c, ast.Call) and call_name(c) == 'pad']
    bad = [c for c in pads if any(k.arg == 'mode' and try_fold(k.value) not in ('symmetric',) for k in c.keywords) or
           (len(c.args) > 2 and try_fold(c.args[2]) != 'symmetric') or (not any(k.arg == 'mode' for k in c.keywords) and len(c.args) < 3)]
    ctx.check('C17.MEDIAN', not bad, f, bad[0] if bad else f.node,
              'djs_median pads by symmetric reflection (edge sample repeated): %s' % ('explicit reversed edge slices' if not pads else [src(c)[:40] for c in pads]),
              msg='djs_median pads with `%s`: numpy mode %r does not repeat the edge sample, so the running median differs from a median filter with '
                  'symmetric reflection within width/2 of the border' % (src(bad[0])[:60] if bad else '', 'reflect'), construct='median padding ' + (src(bad[0])[:60] if bad else ''))
    # explicit form: each border block is the adjacent block of the array reversed along the padded axis
    n = 0
    for st in walk_local(f.node):
        if isinstance(st, ast.Assign) and isinstance(st.targets[0], ast.Subscript) and src(st.targets[0].value) == 'bigarr' and isinstance(st.value, ast.Subscript) \
                and '::-1' in src(st.value.slice):
            n += 1
    ctx.notes['median_reflect_blocks'] = n


def check_smooth_width(ctx, repo):
    """C17.SMOOTH: skymask grows flagged pixels by ngrow through smooth(mask, 2*ngrow+1); the window smooth() uses must be the requested
    width made odd - a window silently narrowed (to the signal length, say) shrinks the growth on short rows."""
    f = repo.func('pydl/smooth.py', 'smooth')
    ctx.cover(f)
    wparam = f.params[1]
    # decided by enumeration: the divisor of the boxcar sums (the number of samples averaged) must be the requested width made odd for every
    # requested width 1..12, and the early return must be taken exactly for windows narrower than 3
    from .. import minieval
    fa = FA(f)
    divisors = []
    for st in walk_local(f.node):
        if isinstance(st, ast.Assign) and isinstance(st.targets[0], ast.Subscript):
            for x in ast.walk(st.value):
                if isinstance(x, ast.BinOp) and isinstance(x.op, ast.Div):
                    d_ = x.right
                    while isinstance(d_, ast.Call) and call_name(d_) in ('float', 'float64', 'float32') and d_.args:
                        d_ = d_.args[0]
                    divisors.append((st, d_))
    if not divisors:
        raise AnalysisError('C17: smooth does not average by dividing boxcar sums: not an idiom this checker can judge')
    prelude = []
    for st in f.node.body:
        if any(isinstance(x, (ast.For, ast.While)) for x in ast.walk(st)):
            break
        prelude.append(st)
    bad = None
    sig = f.params[0]
    try:
        for w in range(1, 13):
            want = w if w % 2 else w + 1
            # for every signal length 1..20 (shorter than, equal to and longer than the window), concretely
            for n_ in range(1, 21):
                opq = {'%s.size' % sig: n_, 'len(%s)' % sig: n_, '%s.shape[0]' % sig: n_}
                env = minieval.run([st for st in prelude if not (isinstance(st, ast.Expr) and isinstance(st.value, ast.Constant))], {wparam: w}, opq,
                                   lambda s_, e_: None)
                if env is None:
                    # the prelude returned: allowed only when the window is narrower than 3
                    if want >= 3 and bad is None:
                        bad = (w, 'returns its input unchanged (signal of %d samples)' % n_, want)
                    continue
                if want < 3 and bad is None:
                    bad = (w, 'does not return the input unchanged', want)
                for st, d_ in divisors:
                    v = minieval.ev(d_, env, opq)
                    if v is minieval.TOP:
                        raise minieval.Unknown('divisor `%s` has no integer value' % src(d_))
                    if v != want and bad is None:
                        bad = (w, 'averages over %s samples for a signal of %d samples (`%s`)' % (v, n_, src(st)[:40]), want)
    except minieval.Unknown as e:
        raise AnalysisError('C17: the window arithmetic of smooth is not an idiom the index evaluator understands (%s)' % e)
    ctx.check('C17.SMOOTH', bad is None, f, divisors[0][0], 'smooth: the window is the requested width made odd for every requested width 1..12 (divisor `%s`), and only windows '
              'narrower than 3 return the input unchanged' % src(divisors[0][1]),
              msg='smooth with requested width %s %s, expected a window of %s samples: the window is no longer the requested one made odd, so the sky-mask growth (and the '
                  'bad-region growth of combine1fiber) reaches fewer pixels than asked for' % (bad[0] if bad else '', bad[1] if bad else '', bad[2] if bad else ''),
              construct='smooth window changed')
    return
    rets = [r for r in walk_local(f.node) if isinstance(r, ast.Return) and r.value is not None and src(r.value) == f.params[0]]
    for r in rets:
        conds = [src(a.test).replace(' ', '') for a in ancestors(r) if isinstance(a, ast.If)]
        ok = conds in (['width<3'], ['%s<3' % wparam], ['width<=1'], ['width==1'], ['width<2'])
        ctx.check('C17.SMOOTH', ok, f, r, 'smooth returns the input unchanged only for a window narrower than 3 (%s)' % conds,
                  msg='smooth returns its input unchanged under %s' % conds, construct='smooth early return under %s' % conds)


def run(ctx):
    from .floatlib import check_float_alloc
    check_float_alloc(ctx, ctx.repo, 'C17.FLOAT-OUT', [(IMAGE, 'djs_maskinterp'), (MATH, 'djs_reject')],
                      'interpolated samples are truncated (2-D / 3-D integer images), resp. the badness of integer data cannot be accumulated at all')
    repo = ctx.repo
    check_smooth_width(ctx, repo)
    check_median(ctx, repo)
    shapes = check_mi_sites(ctx, repo)
    missing = {(1, 0), (2, 0), (2, 1), (3, 0), (3, 1), (3, 2)} - shapes
    ctx.need(not missing, 'djs_maskinterp: no dispatch site found for (ndim, position of the interpolated axis) %s' % sorted(missing))
    check_mi1(ctx, repo)
    check_reject(ctx, repo)
    check_aesthetics(ctx, repo)
    check_skymask(ctx, repo)

"""Facts about pydl/pydlutils/yanny.py shared by the C01 / C02 / C03 rule modules."""

import ast

from .. import AnalysisError
from ..astutil import src, call_name, dotted, walk_local, try_fold, clone, canon

YANNY = 'pydl/pydlutils/yanny.py'

# per-column memo caches: not observable through the API (filled lazily, values are functions of the
# struct/enum definition text only).  One line of reason each.
MEMO_CACHES = {
    '_struct_type_caches': 'column type text, a function of the typedef struct text only',
    '_struct_isarray_caches': 'array-ness of a column, a function of its type text only',
    '_enum_cache': 'enum labels, a function of the typedef enum text only',
}
OBSERVABLE_ATTRS = ('filename', '_contents', '_symbols', 'raw')


def open_calls(node):
    """(call, path expr, mode string or None-if-not-constant) for every builtin open()/io.open()."""
    out = []
    for c in walk_local(node):
        if isinstance(c, ast.Call):
            d = dotted(c.func)
            if d in ('open', 'io.open', 'codecs.open'):
                path = c.args[0] if c.args else None
                mode = None
                if len(c.args) > 1:
                    mode = c.args[1]
                for k in c.keywords:
                    if k.arg == 'mode':
                        mode = k.value
                    if k.arg == 'file':
                        path = k.value
                if mode is None:
                    m = 'r'
                else:
                    m = try_fold(mode)
                    if not isinstance(m, str):
                        m = None
                out.append((c, path, m))
    return out


def is_write_mode(m):
    return m is None or any(ch in m for ch in 'wax+')


EXIST_PREDICATES = {'os.access', 'os.path.exists', 'os.path.lexists', 'os.path.isfile'}


def existence_test(test, repo=None, module=None):
    """(path expr, positive) when `test` is an existence / accessibility predicate on a path
    (positive=False under `not`)."""
    pos = True
    t = test
    while isinstance(t, ast.UnaryOp) and isinstance(t.op, ast.Not):
        pos = not pos
        t = t.operand
    if isinstance(t, ast.Call):
        d = dotted(t.func)
        if d in EXIST_PREDICATES and t.args:
            return t.args[0], pos
        if isinstance(t.func, ast.Attribute) and t.func.attr in ('exists', 'is_file') and not t.args:
            return t.func.value, pos
    return None


def same_place(a, b, fa=None):
    """Two expressions denote the same path value: same Name with the same reaching definitions,
    or the same attribute expression."""
    if isinstance(a, ast.Name) and isinstance(b, ast.Name):
        if a.id != b.id:
            return False
        return fa.same_value(a, b) if fa is not None else True
    return ast.dump(a) == ast.dump(b)


def self_attr_store(t):
    """Attribute name when t is `self.<attr>` (possibly subscripted: self.<attr>[k])."""
    while isinstance(t, ast.Subscript):
        t = t.value
    if isinstance(t, ast.Attribute) and isinstance(t.value, ast.Name) and t.value.id == 'self':
        return t.attr
    return None


def is_self_item(t):
    """self[...] (possibly nested)."""
    while isinstance(t, ast.Subscript):
        if isinstance(t.value, ast.Name) and t.value.id == 'self':
            return True
        t = t.value
    return False


def direct_observable_writes(fn):
    """Statements of a yanny method that write observable object state directly."""
    out = []
    for st in walk_local(fn):
        if isinstance(st, (ast.Assign, ast.AugAssign, ast.AnnAssign)):
            tg = st.targets if isinstance(st, ast.Assign) else [st.target]
            flat = []
            for t in tg:
                flat.extend(t.elts if isinstance(t, (ast.Tuple, ast.List)) else [t])
            for t in flat:
                a = self_attr_store(t)
                if a is not None and a not in MEMO_CACHES:
                    out.append((st, 'self.%s' % a))
                elif is_self_item(t):
                    out.append((st, 'self[...]'))
        elif isinstance(st, ast.Delete):
            for t in st.targets:
                a = self_attr_store(t)
                if (a is not None and a not in MEMO_CACHES) or is_self_item(t):
                    out.append((st, 'del'))
        elif isinstance(st, ast.Expr) and isinstance(st.value, ast.Call):
            c = st.value
            f = c.func
            if isinstance(f, ast.Attribute) and f.attr in ('append', 'extend', 'update', 'clear', 'pop', 'insert',
                                                           'setdefault', 'remove', 'popitem', 'move_to_end'):
                recv = f.value
                a = self_attr_store(recv)
                if a is not None and a not in MEMO_CACHES:
                    out.append((st, 'self.%s.%s()' % (a, f.attr)))
                elif is_self_item(recv) or (isinstance(recv, ast.Name) and recv.id == 'self'):
                    out.append((st, 'self....%s()' % f.attr))
    return out


class YannyClass:
    """Method summaries for class yanny: which methods may write observable state."""

    def __init__(self, repo):
        self.repo = repo
        self.module = repo.module(YANNY)
        self.cls = repo.cls(YANNY, 'yanny')
        self.methods = {q.split('.', 1)[1]: f for q, f in self.module.funcs.items()
                        if q.startswith('yanny.') and q.count('.') == 1 and not (getattr(f, 'roles', None) or {}).get('inlined_helper')}
        self.direct = {m: direct_observable_writes(f.node) for m, f in self.methods.items()}
        self.self_calls = {}
        for m, f in self.methods.items():
            cs = set()
            for c in walk_local(f.node):
                if isinstance(c, ast.Call) and isinstance(c.func, ast.Attribute) and isinstance(c.func.value, ast.Name) \
                        and c.func.value.id == 'self' and c.func.attr in self.methods:
                    cs.add(c.func.attr)
            self.self_calls[m] = cs
        self.writers = {m for m, d in self.direct.items() if d}
        changed = True
        while changed:
            changed = False
            for m, cs in self.self_calls.items():
                if m not in self.writers and cs & self.writers:
                    self.writers.add(m)
                    changed = True

    def method(self, name):
        try:
            return self.methods[name]
        except KeyError:
            raise AnalysisError('anchor method yanny.%s not found' % name)

    def stmt_writes(self, st):
        """Reasons why a simple statement (or header expression) writes observable state."""
        why = [w for s, w in direct_observable_writes(st) if True]
        for c in walk_local(st):
            if isinstance(c, ast.Call):
                if isinstance(c.func, ast.Attribute) and isinstance(c.func.value, ast.Name) and c.func.value.id == 'self' \
                        and c.func.attr in self.writers:
                    why.append('self.%s()' % c.func.attr)
        for c, path, mode in open_calls(st):
            if is_write_mode(mode):
                why.append('open(%s, %r)' % (src(path), mode))
        return why


def cell_placeholder(loop, colvar, rowvar):
    """Copy of a row-rendering loop with every triple subscript X[..][colvar][rowvar] replaced by the
    placeholder __CELL__ and every X[..] data-source head replaced by __TABLE__."""
    new = clone(loop)

    class T(ast.NodeTransformer):
        def visit_Subscript(self, n):
            if isinstance(n.slice, ast.Name) and n.slice.id == rowvar and isinstance(n.value, ast.Subscript) \
                    and isinstance(n.value.slice, ast.Name) and n.value.slice.id == colvar \
                    and isinstance(n.value.value, ast.Subscript):
                return ast.Name(id='__CELL__', ctx=ast.Load())
            self.generic_visit(n)
            return n
    return T().visit(new)


def row_dispatch_tests(f):
    """The membership tests that decide 'data row' in _parse: for every self.convert() call the outermost `key in X` known to hold on
    the way to it (as an if-test, or as the negation of an earlier `if key not in X: ...; continue`)."""
    from ..astutil import path_conditions
    disp = []
    seen = set()
    for c in walk_local(f.node):
        if isinstance(c, ast.Call) and isinstance(c.func, ast.Attribute) and c.func.attr == 'convert':
            memb = []
            for t_, pol in path_conditions(c):
                for x in ([t_] if isinstance(t_, ast.Compare) else (t_.values if isinstance(t_, ast.BoolOp) and isinstance(t_.op, ast.And) and pol else [])):
                    if isinstance(x, ast.Compare) and len(x.ops) == 1 and isinstance(x.ops[0], (ast.In, ast.NotIn)) and (isinstance(x.ops[0], ast.In) == pol):
                        memb.append(x)
            if memb and id(memb[-1]) not in seen:
                seen.add(id(memb[-1]))
                disp.append(memb[-1])
    return disp

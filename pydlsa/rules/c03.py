"""C03 -- yanny: object and file never diverge over write/append histories.

The history property reduces, by induction over operations, to per-operation facts that are
structural: each operation either refuses before touching anything, or extends file and object by
the same text and re-parses."""

import ast

from .. import AnalysisError
from ..astutil import src, call_name, dotted, walk_local, canon, ancestors, try_fold
from ..cfg import forward
from ..fn import FA
from .yannylib import (YANNY, YannyClass, open_calls, is_write_mode, existence_test, same_place, MEMO_CACHES,
                       cell_placeholder, self_attr_store)

META = {
    'property': 'C03',
    'title': 'yanny: object and file never diverge over write/append histories',
    'technique': 'guard dominance on the CFG (existence check before open), who-may-open inventory, may-write dataflow '
                 'to every refusal exit, post-dominance of the coherence statements, AST isomorphism of sibling row renderers',
    'explanation': (
        'Decided (pydl/pydlutils/yanny.py: yanny.write, yanny.append, write_ndarray_to_yanny, write_table_yanny): '
        'C03.W-GUARD - every open(X,"w") is dominated by the false branch of an existence predicate on the same X '
        'whose true branch raises; C03.A-GUARD - every open(X,"a") is dominated by the true branch of an existence/'
        'writability predicate on the same X whose false branch raises; C03.MODES - these are the only write-capable '
        'opens in the module, append never truncates or repositions, os.remove only under overwrite; '
        'C03.REFUSAL-PURE - on every CFG path to an explicit raise in write/append (and to the warn exit of the empty '
        'append) no observable attribute of self is written, _parse is not called and no file is opened for writing; '
        'C03.COHERENT - after the file write, on every path to normal return, _contents receives the same value that '
        'was written (assigned in write, extended in append), filename is the path opened, then _parse() runs; '
        'C03.ROW-SIBLING - the row-rendering loop of append is isomorphic to that of write modulo the data source; '
        'C03.CASEKEY - append finds the table under sym.lower() or sym and treats as pairs exactly the keys whose '
        'upper() is not a table; C03.MEMO-DATA - no per-object memo cache stores a value computed from table data '
        '(append changes data; a stale memo makes object and file diverge); C03.ROW-SOURCE - every cell of an appended row is read from the data handed to append and every cell of a written row from the object; C03.EMPTY-APPEND - `nothing to append` is decided on the tables and pairs that would be written, before any file is opened. NOT decided: that re-parsing _contents '
        'yields original-followed-by-appended rows (parser behaviour, C01/C02), raw-mode equality, byte-level content.'),
    'floors': {'C03.ROW-SOURCE': 2, 'C03.W-GUARD': 1, 'C03.A-GUARD': 1, 'C03.MODES': 3, 'C03.REFUSAL-PURE': 6, 'C03.COHERENT': 5,
               'C03.ROW-SIBLING': 1, 'C03.CASEKEY': 2, 'C03.MEMO-DATA': 3, 'C03.EMPTY-APPEND': 1},
}


def _with_of(call):
    for a in ancestors(call):
        if isinstance(a, ast.With):
            return a
        if isinstance(a, ast.stmt):
            return None
    return None


def check_guards(ctx, fa, yc, method):
    f = fa.func
    opens = [(c, p, m) for c, p, m in open_calls(fa.node) if is_write_mode(m)]
    ctx.need(opens, 'yanny.%s no longer opens a file for writing' % method)
    guards = fa.guards()
    for c, path, mode in opens:
        if mode is not None and 'x' in mode:
            ctx.ok('C03.W-GUARD', f, c, 'open(%s, %r): exclusive creation cannot replace a file' % (src(path), mode))
            continue
        want_exists = method == 'append'          # append: file must exist; write: must not
        rule = 'C03.A-GUARD' if want_exists else 'C03.W-GUARD'
        found = None
        for g in guards:
            et = existence_test(g.test)
            if et is None:
                continue
            gpath, positive = et
            if not same_place(gpath, path, fa):
                continue
            # raise happens when the file (exists) xor negated...
            raises_when_exists = (positive != g.negated)
            if raises_when_exists == (not want_exists) and fa.guard_dominates(g, c):
                found = g
        ctx.check(rule, found is not None, f, c,
                  'open(%s, %r) in %s is dominated by the %s branch of an existence test on the same path '
                  '(guard line %s raises %s otherwise)'
                  % (src(path), mode, method, 'exists' if want_exists else 'does-not-exist',
                     found.stmt.lineno if found else '-', found.exc if found else '-'),
                  msg='open(%s, %r) in yanny.%s is not guarded by an existence check on the same path: %s'
                      % (src(path), mode, method,
                         'an append could create a file' if want_exists else 'a write could replace an existing file'),
                  construct='open(%s, %r) unguarded' % (src(path), mode))


def check_modes(ctx, repo, yc):
    m = repo.module(YANNY)
    n_open = 0
    for q, f in sorted(m.funcs.items()):
        if (getattr(f, 'roles', None) or {}).get('inlined_helper'):
            continue                    # a new helper that is read at its call sites (every one of them inlined), not on its own
        for c, path, mode in open_calls(f.node):
            n_open += 1
            if not is_write_mode(mode):
                ctx.ok('C03.MODES', f, c, 'open(%s, %r) in %s is read-only' % (src(path), mode, q))
                continue
            if q == 'yanny.write':
                ok = mode in ('w', 'wt', 'x', 'xt')
                ctx.check('C03.MODES', ok, f, c, 'yanny.write opens with literal mode %r' % mode,
                          msg='yanny.write opens its file with mode %r (expected "w" or "x")' % mode,
                          construct='open mode %r in write' % mode)
            elif q == 'yanny.append':
                ok = mode in ('a', 'at')
                if mode in ('r+', 'r+t'):
                    # acceptable only when positioned at the end by seek(0, 2) before writing
                    w = _with_of(c)
                    ok = False
                    if w is not None and w.body:
                        first = w.body[0]
                        if isinstance(first, ast.Expr) and isinstance(first.value, ast.Call) and call_name(first.value) == 'seek' \
                                and len(first.value.args) == 2 and try_fold(first.value.args[0]) == 0 \
                                and (try_fold(first.value.args[1]) == 2 or dotted(first.value.args[1]) in ('os.SEEK_END', 'io.SEEK_END')):
                            ok = True
                ctx.check('C03.MODES', ok, f, c, 'yanny.append opens with literal mode %r (earlier bytes preserved)' % mode,
                          msg='yanny.append opens its file with mode %r: earlier bytes are not guaranteed to be preserved '
                              '(only "a", or "r+" positioned by seek(0, 2), appends)' % mode,
                          construct='open mode %r in append' % mode)
            else:
                ctx.fail('C03.MODES', f, c, 'open(%s, %r) in %s' % (src(path), mode, q),
                         'file opened for writing outside yanny.write / yanny.append')
    ctx.need(n_open >= 3, 'fewer open() calls in yanny.py than confirmed by hand')
    # destructive file operations
    DESTRUCTIVE = {'os.remove', 'os.unlink', 'os.rename', 'os.replace', 'os.truncate', 'shutil.move', 'shutil.copy',
                   'shutil.copyfile', 'shutil.rmtree', 'os.rmdir'}
    for q, f in sorted(m.funcs.items()):
        if (getattr(f, 'roles', None) or {}).get('inlined_helper'):
            continue
        for c in walk_local(f.node):
            if isinstance(c, ast.Call):
                d = repo.external_name(c.func, m) if isinstance(c.func, (ast.Attribute, ast.Name)) else None
                if d in DESTRUCTIVE or (isinstance(c.func, ast.Attribute) and c.func.attr in ('truncate', 'unlink', 'write_text', 'write_bytes')):
                    ok = False
                    if q == 'write_table_yanny' and d in ('os.remove', 'os.unlink'):
                        for a in ancestors(c):
                            if isinstance(a, ast.If) and any(isinstance(n, ast.Name) and n.id == 'overwrite' for n in ast.walk(a.test)):
                                ok = True
                    ctx.check('C03.MODES', ok, f, c, '%s in %s only under the overwrite flag' % (d, q),
                              msg='%s: destructive file operation %s outside the overwrite branch of write_table_yanny' % (q, d or src(c.func)),
                              construct='%s in %s' % (d or src(c.func), q))


def check_refusal_pure(ctx, fa, yc, method):
    f = fa.func
    cfg = fa.cfg

    def writes_of(n):
        if n.kind == 'stmt':
            if isinstance(n.stmt, (ast.FunctionDef, ast.ClassDef)):
                return []
            return yc.stmt_writes(n.stmt)
        if n.kind in ('test', 'iterinit'):
            return yc.stmt_writes(ast.Expr(value=n.expr))
        if n.kind == 'with':
            w = []
            for item in n.stmt.items:
                w.extend(yc.stmt_writes(ast.Expr(value=item.context_expr)))
            return w
        return []
    W = {n.id: writes_of(n) for n in cfg.nodes}

    def transfer(n, s, label):
        w = W[n.id]
        if not w:
            return s
        if label == 'exc' and not any(x.startswith('self.') and x.endswith('()') for x in w) and not any(x.startswith('open(') for x in w):
            return s
        return s | frozenset('%s@%s' % (x, n.lineno) for x in w)
    IN = forward(cfg, frozenset(), transfer, lambda a, b: a | b)
    nraise = 0
    for n in cfg.nodes:
        if n.kind == 'stmt' and isinstance(n.stmt, ast.Raise) and n.id in IN:
            nraise += 1
            st = IN[n.id]
            ctx.check('C03.REFUSAL-PURE', not st, f, n.stmt,
                      'yanny.%s: refusal `%s` at line %d is reached with no observable write, no _parse, no file opened for writing'
                      % (method, src(n.stmt)[:60].replace('\n', ' '), n.lineno),
                      msg='yanny.%s raises at line %d after the object/file may already have been changed by %s'
                          % (method, n.lineno, ', '.join(sorted(st))[:200]),
                      construct='raise after write: %s' % ', '.join(sorted(x.split('@')[0] for x in st)))
    # the warn exit of the empty append
    if method == 'append':
        warns = [n for n in cfg.nodes if n.kind == 'stmt' and any(isinstance(c, ast.Call) and call_name(c) == 'warn'
                                                                  for c in walk_local(n.stmt))]
        ctx.need(warns, 'yanny.append no longer warns on an empty append')
        for wn in warns:
            if wn.id not in IN:
                continue
            st = IN[wn.id]
            after = cfg.reachable_from([wn])
            later = [x for x in cfg.nodes if x.id in after and W[x.id]]
            ctx.check('C03.REFUSAL-PURE', not st and not later, f, wn.stmt,
                      'yanny.append: the empty-append warning is reached, and left, without any observable write',
                      msg='appending nothing changes the object or file: %s'
                          % (', '.join(sorted(st)) or ', '.join('%s@%s' % (W[x.id][0], x.lineno) for x in later)),
                      construct='warn exit after write')
    return nraise


def check_coherent(ctx, fa, yc, method):
    f = fa.func
    cfg = fa.cfg
    opens = [(c, p, m) for c, p, m in open_calls(fa.node) if is_write_mode(m)]
    for c, path, mode in opens:
        w = _with_of(c)
        ctx.need(w is not None and w.items and w.items[0].optional_vars is not None,
                 'yanny.%s: open() for writing is not a `with ... as f` block' % method)
        fh = w.items[0].optional_vars
        writes = [x for x in walk_local(w) if isinstance(x, ast.Call) and isinstance(x.func, ast.Attribute)
                  and x.func.attr in ('write', 'writelines') and isinstance(x.func.value, ast.Name) and isinstance(fh, ast.Name)
                  and x.func.value.id == fh.id]
        ctx.check('C03.COHERENT', len(writes) == 1 and len(writes[0].args) == 1, f, w,
                  'yanny.%s writes the file with exactly one %s.write(<text>) call' % (method, src(fh)),
                  msg='yanny.%s: expected exactly one write of the rendered text, found %d' % (method, len(writes)),
                  construct='file writes in %s' % method)
        if len(writes) != 1 or len(writes[0].args) != 1:
            continue
        written = writes[0].args[0]
        wnodes = cfg.node_of_expr(writes[0])
        # _contents update
        upd = []
        for st in fa.stmts((ast.Assign, ast.AugAssign)):
            tg = st.targets if isinstance(st, ast.Assign) else [st.target]
            if any(self_attr_store(t) == '_contents' and isinstance(t, ast.Attribute) for t in tg):
                upd.append(st)
        good = []
        for st in upd:
            if method == 'write':
                if isinstance(st, ast.Assign) and same_place(st.value, written, fa):
                    good.append(st)
            else:
                if isinstance(st, ast.AugAssign) and isinstance(st.op, ast.Add) and same_place(st.value, written, fa):
                    good.append(st)
                elif isinstance(st, ast.Assign) and isinstance(st.value, ast.BinOp) and isinstance(st.value.op, ast.Add) \
                        and src(st.value.left) == 'self._contents' and same_place(st.value.right, written, fa):
                    good.append(st)
        bad = [st for st in upd if st not in good]
        gnodes = [n for st in good for n in cfg.nodes_of(st)]
        post = bool(gnodes) and cfg.every_path_passes(wnodes, gnodes, [cfg.exit_return])
        ctx.check('C03.COHERENT', post and not bad, f, good[0] if good else (bad[0] if bad else w),
                  'yanny.%s: on every path from the file write to normal return, self._contents is %s the same value '
                  'that was written (%s)' % (method, 'assigned' if method == 'write' else 'extended by', src(written)),
                  msg='yanny.%s: after writing %s to the file, self._contents is %s'
                      % (method, src(written),
                         ('updated with a different value: %s' % src(bad[0])) if bad else 'not updated on every path to return'),
                  construct='_contents after write: %s' % ('; '.join(src(s) for s in upd) or 'none'))
        # filename (write only): bound to the path that was opened
        if method == 'write':
            fn_upd = [st for st in fa.stmts(ast.Assign)
                      if any(self_attr_store(t) == 'filename' and isinstance(t, ast.Attribute) for t in st.targets)]
            if src(path) == 'self.filename':
                okf = True
                why = 'the path opened is self.filename itself'
            else:
                goodf = [st for st in fn_upd if same_place(st.value, path, fa)]
                fnodes = [n for st in goodf for n in cfg.nodes_of(st)]
                okf = bool(fnodes) and cfg.every_path_passes(wnodes, fnodes, [cfg.exit_return]) and len(goodf) == len(fn_upd)
                why = 'self.filename = %s post-dominates the write' % src(path)
            ctx.check('C03.COHERENT', okf, f, fn_upd[0] if fn_upd else w,
                      'yanny.write: after the write the object is bound to the file it wrote (%s)' % why,
                      msg='yanny.write: self.filename is not set to the written path %s on every path to return' % src(path),
                      construct='filename after write')
        # re-parse after the _contents update
        parses = [n for n in cfg.nodes if n.kind == 'stmt' and any(
            isinstance(x, ast.Call) and isinstance(x.func, ast.Attribute) and x.func.attr == '_parse'
            and isinstance(x.func.value, ast.Name) and x.func.value.id == 'self' for x in walk_local(n.stmt))]
        okp = bool(parses) and bool(gnodes) and cfg.every_path_passes(gnodes, parses, [cfg.exit_return]) \
            and cfg.every_path_passes(wnodes, parses, [cfg.exit_return])
        ctx.check('C03.COHERENT', okp, f, parses[0].stmt if parses else w,
                  'yanny.%s: self._parse() runs after the _contents update on every path to normal return' % method,
                  msg='yanny.%s does not re-parse after updating _contents on every path (object tables would lag the file)' % method,
                  construct='_parse after write in %s' % method)
        # nothing rewrites _contents / filename after the re-parse
        if parses:
            after = cfg.reachable_from([m for p in parses for m, _ in p.succ])
            late = [n for n in cfg.nodes if n.id in after and n.kind == 'stmt' and isinstance(n.stmt, (ast.Assign, ast.AugAssign))
                    and any(self_attr_store(t) in ('_contents', 'filename')
                            for t in (n.stmt.targets if isinstance(n.stmt, ast.Assign) else [n.stmt.target]))]
            ctx.check('C03.COHERENT', not late, f, late[0].stmt if late else parses[0].stmt,
                      'yanny.%s: nothing rewrites _contents or filename after the re-parse' % method,
                      msg='yanny.%s rewrites %s after the re-parse' % (method, src(late[0].stmt) if late else ''),
                      construct='late state write in %s' % method)


def check_empty_append(ctx, fa, yc):
    """Appending nothing only warns: the decision 'nothing to append' is taken on the rendered rows/pairs text
    (the text that would be written), before the header comment is attached to it."""
    f = fa.func
    warns = [c for c in walk_local(fa.node) if isinstance(c, ast.Call) and call_name(c) == 'warn']
    writes = [c for c in walk_local(fa.node) if isinstance(c, ast.Call) and isinstance(c.func, ast.Attribute) and c.func.attr == 'write' and c.args]
    if not warns or not writes:
        raise AnalysisError('C03: yanny.append: warn / write calls not found')
    written = writes[0].args[0]
    for w in warns:
        st = w
        while not isinstance(st, ast.stmt):
            st = st._parent
        dec = None
        child = st
        for a in ancestors(st):
            if isinstance(a, ast.If):
                dec = (a, any(child is b or child in list(ast.walk(b)) for b in a.body))
                break
            child = a
        ok = False
        why = 'the warning is not under an emptiness test'
        if dec is not None and isinstance(written, ast.Name):
            test = dec[0].test
            tested = [n for n in ast.walk(test) if isinstance(n, ast.Name) and n.id == written.id]
            if not tested:
                why = 'emptiness is decided on `%s`, not on the rendered text `%s`: input that renders to no rows and no pairs still reaches the file' % (src(test), written.id)
            else:
                hdr = [v for d, v in fa.defs(tested[0]) if v is not None and any(
                    isinstance(c, ast.Constant) and isinstance(c.value, str) and c.value.lstrip().startswith('#') for c in ast.walk(v))]
                hdr += [d for d, v in fa.defs(tested[0]) if isinstance(d, ast.AugAssign) and any(
                    isinstance(c, ast.Constant) and isinstance(c.value, str) and c.value.lstrip().startswith('#') for c in ast.walk(d.value))]
                if hdr:
                    why = 'the tested text already contains the "# Appended" header, so it is never empty'
                else:
                    ok = True
                    why = 'decided on `%s` before the header is attached' % src(test)
        ctx.check('C03.EMPTY-APPEND', ok, f, dec[0] if dec else st, 'append: "nothing to append" is %s' % why,
                  msg='yanny.append: %s' % why, construct='empty-append decision: ' + (src(dec[0].test) if dec else 'none'))


def row_loop(fa):
    """The `for col in columns` loop whose body appends rendered cells to the line list, with its
    enclosing row loop variable."""
    for n in walk_local(fa.node):
        if isinstance(n, ast.For) and isinstance(n.target, ast.Name):
            apps = [c for c in walk_local(n) if isinstance(c, ast.Call) and call_name(c) == 'append']
            inner_for = [x for x in walk_local(n) if isinstance(x, ast.For) and x is not n]
            if apps and not inner_for:
                row = None
                for a in ancestors(n):
                    if isinstance(a, ast.For) and isinstance(a.target, ast.Name):
                        row = a
                        break
                if row is not None:
                    return n, row
    return None, None


def check_row_sibling(ctx, fa_w, fa_a):
    lw, rw = row_loop(fa_w)
    la, ra = row_loop(fa_a)
    ctx.need(lw is not None and la is not None, 'row-rendering loops of write/append not found')
    from ..normal import canon_block
    cw, _ = canon(ast.Module(body=canon_block([cell_placeholder(lw, lw.target.id, rw.target.id)]), type_ignores=[]), extra=('self', '__CELL__'))
    ca, _ = canon(ast.Module(body=canon_block([cell_placeholder(la, la.target.id, ra.target.id)]), type_ignores=[]), extra=('self', '__CELL__'))
    ctx.check('C03.ROW-SIBLING', cw == ca, fa_a.func, la,
              'row rendering in append (line %d) is isomorphic to write (line %d) modulo the data source: %s'
              % (la.lineno, lw.lineno, src(lw.body[0]).split('\n')[0][:70]),
              msg='appended rows are not rendered like written rows: the column loop of append (line %d) differs from '
                  'that of write (line %d)' % (la.lineno, lw.lineno),
              construct='append row loop: ' + src(la)[:200])


def cell_roots(loop, colvar, rowvar):
    """Root names of every cell read X[..][colvar][rowvar] in a row-rendering loop."""
    out = []
    for n in walk_local(loop):
        if isinstance(n, ast.Subscript) and isinstance(n.slice, ast.Name) and n.slice.id == rowvar and isinstance(n.value, ast.Subscript) \
                and isinstance(n.value.slice, ast.Name) and n.value.slice.id == colvar and isinstance(n.value.value, ast.Subscript):
            r = n.value.value
            while isinstance(r, ast.Subscript):
                r = r.value
            out.append((n, src(r)))
    return out


def check_row_source(ctx, fa_w, fa_a):
    """C03.ROW-SOURCE: every cell of an appended row is read from the data that is being appended (the datatable argument); every cell
    of a written row from the object."""
    lw, rw = row_loop(fa_w)
    la, ra = row_loop(fa_a)
    ctx.need(lw is not None and la is not None, 'row-rendering loops of write/append not found')
    dt = fa_a.func.params[1] if len(fa_a.func.params) > 1 else 'datatable'
    for fa, lp, rv, want in ((fa_a, la, ra, dt), (fa_w, lw, rw, 'self')):
        cells = cell_roots(lp, lp.target.id, rv.target.id)
        ctx.need(cells, '%s: no cell reads in the row loop' % fa.func.qualname)
        bad = [(n, r) for n, r in cells if r != want]
        ctx.check('C03.ROW-SOURCE', not bad, fa.func, bad[0][0] if bad else lp,
                  '%s: all %d cell reads of a row come from `%s`' % (fa.func.name, len(cells), want),
                  msg='%s renders a row with a cell read from `%s` (`%s`) instead of `%s`: the row written to the file is not the row that was handed in'
                      % (fa.func.name, bad[0][1] if bad else '', src(bad[0][0])[:50] if bad else '', want),
                  construct='%s row cell from %s' % (fa.func.name, bad[0][1] if bad else ''))


def check_casekey(ctx, fa):
    f = fa.func

    def is_tables(e):
        if isinstance(e, ast.Name):
            v = fa.resolve(e)
            if v is not None:
                e = v
        return any(isinstance(c, ast.Call) and call_name(c) == 'tables' for c in ast.walk(e)) or 'tables' in src(e)
    dt = fa.func.params[1] if len(fa.func.params) > 1 else 'datatable'
    # (a) pairs: keys whose upper() is a table are skipped
    ok_a = None
    for n in walk_local(fa.node):
        if isinstance(n, ast.For) and dt in {x.id for x in ast.walk(n.iter) if isinstance(x, ast.Name)} \
                and isinstance(n.target, ast.Name):
            key = n.target.id
            for st in n.body:
                if isinstance(st, ast.If) and st.body and isinstance(st.body[-1], ast.Continue):
                    for c in ast.walk(st.test):
                        if isinstance(c, ast.Compare) and len(c.ops) == 1 and isinstance(c.ops[0], ast.In) \
                                and isinstance(c.left, ast.Call) and call_name(c.left) == 'upper' \
                                and isinstance(c.left.func.value, ast.Name) and c.left.func.value.id == key \
                                and is_tables(c.comparators[0]):
                            ok_a = st
            break
    ctx.check('C03.CASEKEY', ok_a is not None, f, ok_a or fa.node,
              'append: a key is a keyword pair exactly when key.upper() is not one of self.tables()',
              msg='append no longer decides pair-vs-table by key.upper() in self.tables()', construct='pair filter in append')
    # (b) tables: looked up under sym.lower() or sym
    ok_b = None
    for n in walk_local(fa.node):
        if isinstance(n, ast.For) and isinstance(n.target, ast.Name) and is_tables(n.iter):
            sym = n.target.id
            tests = [c for c in walk_local(n) if isinstance(c, ast.Compare) and len(c.ops) == 1 and isinstance(c.ops[0], (ast.In, ast.NotIn))
                     and isinstance(c.comparators[0], ast.Name) and c.comparators[0].id == dt]
            lows = [c for c in tests if isinstance(c.left, ast.Call) and call_name(c.left) == 'lower'
                    and isinstance(c.left.func.value, ast.Name) and c.left.func.value.id == sym]
            if lows and len(tests) >= 2:
                ok_b = n
    ctx.check('C03.CASEKEY', ok_b is not None, f, ok_b or fa.node,
              'append: rows for table SYM are taken from datatable[sym.lower()] when present, else datatable[sym]',
              msg='append no longer accepts a table under both its lower-case and its own name', construct='table lookup in append')


def check_memo_data(ctx, repo, yc):
    """No memo store in class yanny keeps a value computed from table data (self[<table>]...)."""
    for m, f in sorted(yc.methods.items()):
        fa = None
        for st in walk_local(f.node):
            if not isinstance(st, ast.Assign) or len(st.targets) != 1:
                continue
            t = st.targets[0]
            if not isinstance(t, ast.Subscript):
                continue
            base = t.value
            is_cache = False
            if self_attr_store(base) is not None and 'cache' in (self_attr_store(base) or ''):
                is_cache = True
            elif isinstance(base, ast.Name):
                if fa is None:
                    fa = FA(f)
                for d, v in fa.defs(base):
                    if v is not None and any(isinstance(x, ast.Attribute) and isinstance(x.value, ast.Name) and x.value.id == 'self'
                                             and 'cache' in x.attr for x in ast.walk(v)):
                        is_cache = True
            if not is_cache:
                continue
            if fa is None:
                fa = FA(f)
            # does the stored value depend on table data?
            dep = _depends_on_data(st.value, fa, set())
            ctx.check('C03.MEMO-DATA', not dep, f, st,
                      'yanny.%s: memo store `%s` keeps a value derived from the definition text only' % (m, src(st)[:60]),
                      msg='yanny.%s memoises a value computed from table data (%s); after append() the cached value is stale '
                          'and the object no longer equals a fresh read of its file' % (m, dep),
                      construct='memo of data-dependent value: ' + src(st)[:80])


def _depends_on_data(e, fa, seen):
    for n in ast.walk(e):
        if isinstance(n, ast.Subscript) and isinstance(n.value, ast.Name) and n.value.id == 'self':
            return src(n)
        if isinstance(n, ast.Name) and isinstance(n.ctx, ast.Load) and n.id != 'self':
            for d, v in fa.defs(n):
                if d is None or id(d) in seen:
                    continue
                seen.add(id(d))
                if v is not None:
                    r = _depends_on_data(v, fa, seen)
                    if r:
                        return r
    return None


def run(ctx):
    repo = ctx.repo
    yc = YannyClass(repo)
    f_w, f_a = yc.method('write'), yc.method('append')
    f_nd = repo.func(YANNY, 'write_ndarray_to_yanny')
    f_wt = repo.func(YANNY, 'write_table_yanny')
    ctx.cover(f_w, f_a, f_nd, f_wt)
    fa_w, fa_a = FA(f_w), FA(f_a)
    check_guards(ctx, fa_w, yc, 'write')
    check_guards(ctx, fa_a, yc, 'append')
    check_modes(ctx, repo, yc)
    n = check_refusal_pure(ctx, fa_w, yc, 'write') + check_refusal_pure(ctx, fa_a, yc, 'append')
    ctx.notes['observable_writer_methods'] = sorted(yc.writers)
    check_coherent(ctx, fa_w, yc, 'write')
    check_coherent(ctx, fa_a, yc, 'append')
    check_row_sibling(ctx, fa_w, fa_a)
    check_row_source(ctx, fa_w, fa_a)
    check_casekey(ctx, fa_a)
    check_empty_append(ctx, fa_a, yc)
    check_memo_data(ctx, repo, yc)
    # write_ndarray_to_yanny reaches the file only through yanny.write
    calls_write = [c for c in walk_local(f_nd.node) if isinstance(c, ast.Call) and isinstance(c.func, ast.Attribute)
                   and c.func.attr == 'write']
    ctx.check('C03.MODES', len(calls_write) == 1 and not [x for x in open_calls(f_nd.node)], f_nd, calls_write[0] if calls_write else f_nd.node,
              'write_ndarray_to_yanny reaches the file only through yanny.write (which carries the existence guard)',
              msg='write_ndarray_to_yanny writes a file other than through a single yanny.write call',
              construct='file access in write_ndarray_to_yanny')

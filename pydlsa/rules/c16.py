"""C16 -- readspec returns each requested spectrum in request order, unshifted."""

import ast

from .. import AnalysisError
from ..astutil import path_conditions, src, call_name, dotted, walk_local, try_fold, ancestors
from ..fn import FA
from ..normal import canon_expr
from ..poly import poly_of, NotPoly, Poly

META = {
    'property': 'C16',
    'title': 'readspec returns each requested spectrum in request order, unshifted',
    'technique': 'reaching-definition shape of the read-order accumulator and its inverse permutation, uniform re-indexing '
                 'check, accumulate-first ordering of every concatenation, affine forms of row selectors and of the '
                 'spec_append tiling',
    'explanation': (
        'Decided (pydl/pydlspec2d/spec1d.py readspec, spec_append): C16.INV-PERM - exactly one permutation j is applied at '
        'the end, defined as argsort of the accumulator that collected each file\'s request positions '
        '(nonzero()[0] of the match between the request vectors and the current plate-MJD) in read order; '
        'C16.REORDER-ALL - the final loop ranges over the whole result dict and re-indexes axis 0 by j in the array branch '
        'and in the dict-of-columns branch; both coefficient vectors are re-indexed by the same j and are not used in '
        'request-order context before that; C16.LOCKSTEP - every accumulation places the accumulated value first and the '
        'new block second; C16.ROWSEL - every per-file table or image read is indexed by thisfiber - 1 (the znum branch '
        'is the one listed exception); C16.LOGLAM - the per-file wavelength block is COEFF0 + COEFF1*arange(NAXIS1) '
        'resized to (nfiber, npix); C16.TILING - spec_append allocates zeros of shape (nrows1+nrows2, max(npix1+nadd1, '
        'npix2+nadd2)), stores rows [0,nrows1) and [nrows1,nrows) with column slices of the sources\' own widths starting '
        'at nadd_i, at most one nadd_i non-zero with value |pixshift|, and has no return path that bypasses this. '
        'C16.NO-MEMO - readspec and the file-location helpers it calls keep no module-level memo. C16.LOCKSTEP also: the request vectors are filled by position, never through a mask on the VALUE of another request vector; C16.ROWSEL also: on the znum path the row is exactly (fibre-1)*nper + znum - 1 (polynomial normal form over all reaching definitions). C16.PATH-KW - the per-file spec_path() call receives the topdir keyword that latest_mjd() honours; C16.LOGLAM-PAD - the zero-padded wavelength image is rebuilt from each row\'s COEFF0/COEFF1 over the padded width on every path; C16.JOIN - readspec joins the rows of successive files along the first axis (np.concatenate; np.append only with an axis); C16.KW-FORWARD - every keyword readspec reads from its ** dictionary is a parameter of every function without ** that the dictionary is handed to wholesale (readspec -> number_of_fibers / latest_mjd -> spec_path), by signature agreement along the call graph; C16.SCALAR-SLOT - number_of_fibers stores a scalar, not a mask selection, into each per-plate element (light types: loop index over range, subscript by a comparison mask); NOT decided: correctness of file location itself (spec_path, latest_mjd), optional files present for some plates only, the align arithmetic.'),
    'floors': {'C16.JOIN': 3, 'C16.KW-FORWARD': 2, 'C16.SCALAR-SLOT': 1, 'C16.PATH-KW': 1, 'C16.LOGLAM-PAD': 1, 'C16.INV-PERM': 3, 'C16.REORDER-ALL': 5, 'C16.LOCKSTEP': 6, 'C16.ROWSEL': 4, 'C16.LOGLAM': 3, 'C16.TILING': 6, 'C16.NO-MEMO': 3},
}

SPEC1D = 'pydl/pydlspec2d/spec1d.py'
ROWSEL_EXEMPT = {'znum': 'documented spZall layout: row (fiber-1)*nper + znum - 1'}


def check_readspec(ctx, repo):
    f = repo.func(SPEC1D, 'readspec')
    fa = FA(f)
    ctx.cover(f)
    # ---- INV-PERM
    perms = [st for st in walk_local(f.node) if isinstance(st, ast.Assign) and isinstance(st.targets[0], ast.Name)
             and isinstance(st.value, ast.Call) and call_name(st.value) == 'argsort']
    # the permutation actually used to re-index results
    used = {}
    for st in perms:
        nm = st.targets[0].id
        uses = [n for n in walk_local(f.node) if isinstance(n, ast.Subscript) and any(isinstance(x, ast.Name) and x.id == nm for x in ast.walk(n.slice))]
        if uses:
            used[nm] = (st, uses)
    ctx.check('C16.INV-PERM', len(used) == 1, f, perms[0] if perms else f.node,
              'exactly one permutation (%s) re-indexes the results' % (list(used) or '-'),
              msg='%d different argsort permutations re-index results in readspec' % len(used), construct='permutations %s' % sorted(used))
    if len(used) != 1:
        return
    jname, (jst, juses) = next(iter(used.items()))
    accx = jst.value.func.value if isinstance(jst.value.func, ast.Attribute) else (jst.value.args[0] if jst.value.args else None)
    if not isinstance(accx, ast.Name):
        ctx.fail('C16.INV-PERM', f, jst, 'permutation ' + src(jst.value),
                 'the final permutation is `%s`: argsort of a rearranged accumulator is not the inverse of the read-order map' % src(jst.value))
        return
    extra = [k for k in jst.value.keywords if k.arg not in ('kind',)] + list(jst.value.args if isinstance(jst.value.func, ast.Attribute) else jst.value.args[1:])
    defs = [(d, v) for d, v in fa.defs(accx) if d is not None]      # 'possibly unbound' (zero files) is not a definition
    shapes = []
    idxnames = set()
    okacc = bool(defs)
    for d, v in defs:
        if v is None:
            okacc = False
            shapes.append('?')
            continue
        if isinstance(v, ast.Name):
            idxnames.add(v.id)
            shapes.append('first block: ' + v.id)
        elif isinstance(v, ast.Call) and call_name(v) in ('concatenate', 'append', 'hstack', 'r_') and v.args:
            parts = v.args[0].elts if isinstance(v.args[0], (ast.Tuple, ast.List)) else list(v.args[:2])
            if len(parts) == 2 and isinstance(parts[0], ast.Name) and parts[0].id == accx.id and isinstance(parts[1], ast.Name):
                idxnames.add(parts[1].id)
                shapes.append('append: (%s, %s)' % (parts[0].id, parts[1].id))
            else:
                okacc = False
                shapes.append('bad concatenate: ' + src(v))
        else:
            okacc = False
            shapes.append('other: ' + src(v)[:50])
    ctx.check('C16.INV-PERM', okacc and len(idxnames) == 1 and not extra, f, jst,
              '%s = argsort(%s); %s is {first block, accumulator followed by block} of %s in read order' % (jname, accx.id, accx.id, sorted(idxnames)),
              msg='the final permutation is argsort of `%s`, which is not the accumulation of each file\'s request positions in read order '
                  '(definitions: %s): rows no longer return to request order' % (accx.id, '; '.join(shapes)),
              construct='%s definitions: %s' % (accx.id, '; '.join(shapes)))
    if okacc and len(idxnames) == 1:
        idx = next(iter(idxnames))
        idefs = [st for st in walk_local(f.node) if isinstance(st, ast.Assign) and isinstance(st.targets[0], ast.Name) and st.targets[0].id == idx]
        iv = canon_expr(idefs[0].value) if len(idefs) == 1 else None          # np.nonzero(m)[0] reads m.nonzero()[0]
        good = iv is not None and src(iv).replace(' ', '').endswith('.nonzero()[0]')
        mask = None
        if good:
            m = iv.value.func.value      # (<mask>).nonzero
            names = {n.id for n in ast.walk(m) if isinstance(n, ast.Name)}
            loop = next((a for a in ancestors(idefs[0]) if isinstance(a, ast.For)), None)
            lv = {n.id for n in ast.walk(loop.target) if isinstance(n, ast.Name)} if loop is not None else set()
            # the match compares request vectors with the loop's current plate/mjd
            cmps = [c for c in ast.walk(m) if isinstance(c, ast.Compare) and isinstance(c.ops[0], ast.Eq)]
            good = bool(cmps) and all(any(isinstance(s, ast.Name) and s.id in lv for s in (c.left, c.comparators[0])) for c in cmps) \
                and len(cmps) == len(lv) and all(isinstance(x.op, ast.BitAnd) for x in ast.walk(m) if isinstance(x, ast.BinOp))
            mask = src(m)
        ctx.check('C16.INV-PERM', good, f, idefs[0] if idefs else jst,
                  'per-file positions %s = (%s).nonzero()[0]: the requests that match this file\'s plate and MJD, ascending' % (idx, mask),
                  msg='per-file request positions `%s` are not nonzero()[0] of the match between the request vectors and the current '
                      'plate-MJD: %s' % (idx, src(idefs[0].value)[:80] if idefs else 'not found'), construct='positions ' + (src(idefs[0].value)[:80] if idefs else ''))
    # ---- REORDER-ALL
    loops = [n for n in walk_local(f.node) if isinstance(n, ast.For) and any(u in list(ast.walk(n)) for u in juses)]
    ctx.need(loops, 'readspec: final reorder loop not found')
    loop = loops[0]
    res = loop.iter
    ctx.need(isinstance(res, ast.Name), 'readspec: reorder loop does not range over the result dict itself')
    rets = [r for r in walk_local(f.node) if isinstance(r, ast.Return) and r.value is not None]
    ctx.check('C16.REORDER-ALL', all(isinstance(r.value, ast.Name) and r.value.id == res.id for r in rets), f, loop,
              'the reorder loop ranges over every key of the returned dict `%s`' % res.id,
              msg='the reorder loop ranges over %s, not over the whole returned dict' % src(res), construct='reorder loop range')
    n_assign = 0
    for st in walk_local(loop):
        if isinstance(st, ast.Assign) and len(st.targets) == 1 and isinstance(st.targets[0], ast.Subscript):
            t, v = st.targets[0], st.value
            n_assign += 1
            ok = isinstance(v, ast.Subscript) and src(v.value) == src(t)
            if ok:
                sl = v.slice
                first = sl.elts[0] if isinstance(sl, ast.Tuple) else sl
                rest = sl.elts[1:] if isinstance(sl, ast.Tuple) else []
                ok = isinstance(first, ast.Name) and first.id == jname and all(isinstance(r, ast.Slice) and r.lower is None and r.upper is None for r in rest)
            ctx.check('C16.REORDER-ALL', ok, f, st, 'reorder: %s' % src(st),
                      msg='a result array is not re-indexed along axis 0 by %s: %s' % (jname, src(st)), construct='reorder stmt ' + src(st))
    # every leaf branch of the loop re-indexes something by j
    def reorders(st):
        return isinstance(st, ast.Assign) and isinstance(st.value, ast.Subscript) and any(isinstance(x, ast.Name) and x.id == jname for x in ast.walk(st.value.slice))

    def covered(stmts):
        for st in stmts:
            if reorders(st):
                return True
            if isinstance(st, ast.If) and covered(st.body) and covered(st.orelse):
                return True
            if isinstance(st, ast.For) and covered(st.body):
                return True
        return False
    has_dict = any(isinstance(n, ast.If) and 'isinstance' in src(n.test) and 'dict' in src(n.test) for n in walk_local(loop))
    ctx.check('C16.REORDER-ALL', has_dict and covered(loop.body), f, loop,
              'every branch of the reorder loop (plain arrays, dict columns of either rank) re-indexes by %s (%d statements)' % (jname, n_assign),
              msg='some branch of the reorder loop does not re-index its arrays by %s: those rows stay in file-read order' % jname, construct='reorder branches')
    # coefficient vectors
    body = f.node.body
    for cname in ('allcoeff0', 'allcoeff1'):
        re_st = [st for st in walk_local(f.node) if isinstance(st, ast.Assign) and isinstance(st.targets[0], ast.Name) and st.targets[0].id == cname
                 and isinstance(st.value, ast.Subscript) and src(st.value) == '%s[%s]' % (cname, jname)]
        ctx.check('C16.REORDER-ALL', len(re_st) == 1, f, re_st[0] if re_st else jst, '%s is re-indexed by the same %s' % (cname, jname),
                  msg='%s is not re-indexed by %s' % (cname, jname), construct='%s reorder' % cname)
        if re_st:
            # uses after the permutation is computed must come after the re-index
            for n in walk_local(f.node):
                if isinstance(n, ast.Name) and n.id == cname and isinstance(n.ctx, ast.Load) and n.lineno > jst.lineno \
                        and n not in list(ast.walk(re_st[0])):
                    dom = fa.dominates(re_st[0], n)
                    ctx.check('C16.REORDER-ALL', dom, f, n, 'use of %s at line %d follows its re-indexing' % (cname, n.lineno),
                              msg='%s is used at line %d in request-order context before it is re-indexed by %s (still in file-read order)'
                                  % (cname, n.lineno, jname), construct='early use of %s' % cname)
    # ---- LOCKSTEP
    n_lock = 0
    for st in walk_local(f.node):
        if not isinstance(st, ast.Assign) or len(st.targets) != 1:
            continue
        t, v = st.targets[0], st.value
        if isinstance(v, ast.Call) and call_name(v) == 'concatenate' and v.args and isinstance(v.args[0], (ast.Tuple, ast.List)) and len(v.args[0].elts) == 2:
            a, b = v.args[0].elts
            n_lock += 1
            ctx.check('C16.LOCKSTEP', src(a) == src(t) and src(b) != src(t), f, st, 'accumulate: %s <- (%s, %s)' % (src(t)[:40], src(a)[:40], src(b)[:30]),
                      msg='an accumulation does not put the accumulated value first and the new block second: %s' % src(st)[:100],
                      construct='accumulate ' + src(st)[:100])
        elif isinstance(v, ast.Call) and call_name(v) == 'spec_append' and len(v.args) >= 2:
            n_lock += 1
            ctx.check('C16.LOCKSTEP', src(v.args[0]) == src(t) and src(v.args[1]) != src(t), f, st,
                      'accumulate: %s <- spec_append(%s, %s)' % (src(t)[:40], src(v.args[0])[:40], src(v.args[1])[:20]),
                      msg='spec_append is not called with the accumulated block first: %s' % src(st)[:100], construct='accumulate ' + src(st)[:100])
    # ---- REQ-VECTORS: the request vectors are built by POSITION (whole-array expressions, slices), never by the value of another
    # request vector: `mjdvec[platevec == p] = m` gives every request of plate p the same MJD
    nvec = 0
    for st in walk_local(f.node):
        if isinstance(st, (ast.Assign, ast.AugAssign)):
            for t in (st.targets if isinstance(st, ast.Assign) else [st.target]):
                if isinstance(t, ast.Subscript) and isinstance(t.value, ast.Name) and t.value.id in ('platevec', 'mjdvec', 'fibervec'):
                    nvec += 1
                    idx = t.slice
                    if isinstance(idx, ast.Name):
                        d = fa.deep(idx)
                        idx = d if d is not None else idx
                    by_value = any(isinstance(c, ast.Compare) and any(isinstance(x, ast.Name) and x.id in ('platevec', 'mjdvec', 'fibervec', 'plate', 'mjd', 'fiber')
                                                                      for x in ast.walk(c)) for c in ast.walk(idx))
                    ctx.check('C16.LOCKSTEP', not by_value, f, st, 'request vector %s is filled by position (%s)' % (t.value.id, src(t.slice)[:30]),
                              msg='%s is filled through `%s`, i.e. by the VALUE of another request vector: two requests for one plate with different '
                                  'MJDs (or fibres) get the same entry, and the spectra returned for them come from the wrong file'
                                  % (t.value.id, src(t)[:50]), construct='request vector filled by value: ' + src(st)[:70])
    # ---- ROWSEL
    for n in walk_local(f.node):
        if isinstance(n, ast.Subscript) and isinstance(n.value, ast.Attribute) and n.value.attr == 'data':
            sl = n.slice.elts[0] if isinstance(n.slice, ast.Tuple) else n.slice
            forms = _rowsel_forms(sl, fa)
            bad = [s for s, ex in forms if s != 'thisfiber - 1' and not ex]
            # the znum branch: row = (fibre - 1) * nper + (znum - 1), decided on the polynomial normal form of the whole index
            for s_, ex in forms:
                if ex:
                    bad += _znum_row_bad(sl, fa)
                    break
            ctx.check('C16.ROWSEL', not bad and bool(forms), f, n, 'row selector of %s is thisfiber - 1 (%s)' % (src(n.value)[:30], sorted(set(s for s, _ in forms))),
                      msg='a per-file read selects rows %s instead of thisfiber - 1: every returned row would come from the wrong fibre'
                          % (bad or src(sl)), construct='row selector ' + src(sl))
    tf = [st for st in walk_local(f.node) if isinstance(st, ast.Assign) and isinstance(st.targets[0], ast.Name) and st.targets[0].id == 'thisfiber']
    ok = len(tf) == 1 and isinstance(tf[0].value, ast.Subscript) and isinstance(tf[0].value.slice, ast.Name) and tf[0].value.slice.id in idxnames \
        if (okacc and idxnames) else False
    ctx.check('C16.ROWSEL', ok, f, tf[0] if tf else f.node, 'thisfiber = fibervec[<this file\'s request positions>]',
              msg='thisfiber is not the request fibre vector indexed by this file\'s request positions', construct='thisfiber definition')
    # ---- LOGLAM
    ll0 = [st for st in walk_local(f.node) if isinstance(st, ast.Assign) and isinstance(st.targets[0], ast.Name) and st.targets[0].id == 'loglam0'
           and any(isinstance(a, ast.For) for a in ancestors(st))]
    ctx.need(ll0, 'readspec: per-file loglam0 not found')

    def hdr_atom(e):
        if isinstance(e, ast.Subscript) and isinstance(e.slice, ast.Constant) and 'header' in src(e.value):
            return e.slice.value
        if isinstance(e, ast.Call) and call_name(e) == 'arange' and e.args:
            a = fa.deep(e.args[0])
            return 'arange(%s)' % (hdr_atom(a) or src(a))
        return None
    loopnode = next(a for a in ancestors(ll0[0]) if isinstance(a, ast.For))
    cond = [src(a.test) for a in ancestors(ll0[0]) if isinstance(a, ast.If) and any(a is x for x in ast.walk(loopnode))]
    alldefs = [st for st in walk_local(f.node) if isinstance(st, ast.Assign) and src(st.targets[0]) == 'loglam0' and st.lineno < jst.lineno]
    ctx.check('C16.LOGLAM', not cond and len(alldefs) == 1, f, ll0[0], 'the wavelength vector is rebuilt unconditionally for every file from that file\'s own header',
              msg='the per-file wavelength vector is rebuilt only under `%s` (or carried over from a definition outside the loop): a file with the same '
                  'pixel count but another COEFF0/COEFF1 inherits the previous file\'s wavelengths' % (cond or 'an outer definition'),
              construct='loglam0 conditional: %s' % (cond or [src(d)[:30] for d in alldefs]))
    try:
        p = poly_of(ll0[0].value, atom=hdr_atom, resolve=fa.resolve)
    except NotPoly as e:
        raise AnalysisError('C16: loglam0 is not polynomial: %s' % e)
    want = Poly.atom('COEFF0') + Poly.atom('COEFF1') * Poly.atom('arange(NAXIS1)')
    ctx.check('C16.LOGLAM', p == want, f, ll0[0], 'loglam0 = COEFF0 + COEFF1*arange(NAXIS1) [%s]' % p,
              msg='the per-file wavelength vector is %s, expected COEFF0 + COEFF1*arange(NAXIS1)' % p, construct='loglam0 = %s' % p)
    ll = [st for st in walk_local(f.node) if isinstance(st, ast.Assign) and isinstance(st.targets[0], ast.Name) and st.targets[0].id == 'loglam'
          and isinstance(st.value, ast.Call) and call_name(st.value) in ('resize', 'tile', 'broadcast_to')]
    ok = bool(ll) and src(ll[0].value.args[0]) == 'loglam0' and src(ll[0].value.args[1]).replace(' ', '') == '(thisfiber.size,npix)'
    ctx.check('C16.LOGLAM', ok, f, ll[0] if ll else ll0[0], 'loglam block is loglam0 resized to (nfiber, npix)',
              msg='the wavelength block is not loglam0 resized to (thisfiber.size, npix)', construct='loglam block')


def _znum_row_bad(sl, fa):
    from ..poly import poly_of, NotPoly, Poly

    def atom(e):
        if isinstance(e, ast.Subscript) and src(e).replace('"', "'") == "kwargs['znum']":
            return 'znum'
        if isinstance(e, ast.Name) and e.id in ('thisfiber', 'nper'):
            return e.id
        return None

    def expand(e, depth=0):
        """all index polynomials over the reaching definitions of the names in e"""
        names = [n for n in ast.walk(e) if isinstance(n, ast.Name) and n.id not in ('thisfiber', 'nper', 'kwargs') and isinstance(n.ctx, ast.Load)]
        if not names or depth > 3:
            try:
                return [poly_of(e, atom=atom)]
            except NotPoly:
                return [None]
        out = []
        nm = names[0]
        for d, v in fa.defs(nm):
            if v is None:
                out.append(None)
                continue
            from ..astutil import clone
            e2 = clone(e)
            for x in ast.walk(e2):
                for fld, val in ast.iter_fields(x):
                    if isinstance(val, ast.Name) and val.id == nm.id:
                        setattr(x, fld, clone(v))
                    elif isinstance(val, list):
                        for i, y in enumerate(val):
                            if isinstance(y, ast.Name) and y.id == nm.id:
                                val[i] = clone(v)
            if isinstance(e2, ast.Name) and e2.id == nm.id:
                e2 = clone(v)
            out.extend(expand(e2, depth + 1))
        return out
    A = Poly.atom
    one = Poly.const(1)
    want = [A('thisfiber') - one, (A('thisfiber') - one) * A('nper') + A('znum') - one]
    bad = []
    for p in expand(sl):
        if p is None or not any(p == w for w in want):
            bad.append('%s (a fibre number becomes a row by exactly one `- 1`: thisfiber - 1, or (thisfiber - 1)*nper + znum - 1)' % (p if p is not None else src(sl)))
    return bad


def _rowsel_forms(sl, fa, depth=0):
    """[(normalised source, exempt?)] over all reaching definitions."""
    if isinstance(sl, ast.Name) and sl.id != 'thisfiber' and depth < 3:
        out = []
        for d, v in fa.defs(sl):
            if v is None:
                out.append((src(sl), False))
                continue
            from ..fn import expand as _expand
            exempt = any(isinstance(a, ast.If) and "'znum' in kwargs" in src(_expand(a.test, fa, depth=3)) and any(d is b or d in list(ast.walk(b)) for b in a.body)
                         for a in ancestors(d))
            if exempt:
                out.append((src(v), True))
            else:
                out.extend(_rowsel_forms(v, fa, depth + 1))
        return out
    if isinstance(sl, ast.BinOp) and isinstance(sl.op, ast.Sub) and try_fold(sl.right) is not None and isinstance(sl.left, ast.Name) and sl.left.id != 'thisfiber':
        inner = _rowsel_forms(sl.left, fa, depth + 1)
        c = try_fold(sl.right)
        return [((s + ' - %d' % c) if not ex else s, ex) for s, ex in inner]
    return [(src(sl), False)]


def check_location(ctx, repo):
    """C16.PATH-KW: every place readspec turns a plate into a directory honours the same location keywords.  latest_mjd() receives
    **kwargs (path / topdir / run2d); the per-file spec_path() call must hand on topdir as well, or the MJD is looked up in one tree and
    the files are read from another.
    C16.LOGLAM-PAD: the wavelength image is accumulated block by block through spec_append(), which pads shorter blocks with zeros; after
    the loop it is rebuilt over the padded width from each row's own COEFF0 / COEFF1 on every path, not only under align=."""
    f = repo.func(SPEC1D, 'readspec')
    fa = FA(f)
    kw = f.node.args.kwarg.arg if f.node.args.kwarg else None
    ctx.need(kw is not None, 'readspec: **kwargs parameter not found')
    g = repo.func(SPEC1D, 'spec_path')
    calls = [c for c in walk_local(f.node) if isinstance(c, ast.Call) and call_name(c) == 'spec_path' and repo.resolve_call(c, f) is g]
    ctx.need(calls, 'readspec: spec_path() call not found')
    for c in calls:
        star = any(k.arg is None and isinstance(k.value, ast.Name) and k.value.id == kw for k in c.keywords)
        bound = dict(zip(g.params, c.args))
        bound.update({k.arg: k.value for k in c.keywords if k.arg})
        td = bound.get('topdir')
        from_kw = td is not None and any(isinstance(x, ast.Name) and x.id == kw for x in ast.walk(fa.deep(td))) and "'topdir'" in src(fa.deep(td))
        ctx.check('C16.PATH-KW', star or from_kw, f, c, 'spec_path() in the file loop receives the caller\'s topdir (%s)' % ('**kwargs' if star else src(td) if td is not None else ''),
                  msg='readspec looks the MJD up with latest_mjd(**kwargs), which honours topdir=, but builds the file names with `%s`, which does not: with '
                      'topdir= the spectra are read from the tree named by the environment (rows from another reduction, or FileNotFoundError)' % src(c)[:70],
                  construct='spec_path without topdir: ' + src(c)[:60])
    # the default MJD is looked up in the same tree: latest_mjd() hands every location keyword (path, topdir, run2d) on to spec_path()
    h = repo.func(SPEC1D, 'latest_mjd')
    ctx.cover(h)
    hkw = h.node.args.kwarg.arg if h.node.args.kwarg else None
    for c in [c for c in walk_local(h.node) if isinstance(c, ast.Call) and call_name(c) == 'spec_path']:
        star = [k.value for k in c.keywords if k.arg is None]
        whole = any(isinstance(v, ast.Name) and v.id == hkw and FA(h).is_param(v) for v in star)
        given = {k.arg for k in c.keywords if k.arg}
        ctx.check('C16.PATH-KW', whole or {'path', 'topdir', 'run2d'} <= given, h, c, 'latest_mjd() hands all location keywords on to spec_path() (%s)' % ('**kwargs' if whole else sorted(given)),
                  msg='latest_mjd() calls `%s`: not every location keyword (path, topdir, run2d) reaches spec_path(), so the default MJD is looked up in another '
                      'tree than the one the spectra are read from (readspec returns rows of another plate-MJD, or nothing)' % src(c)[:60],
                  construct='latest_mjd -> spec_path keywords')
    # LOGLAM-PAD
    loops = [n for n in f.node.body if isinstance(n, ast.For) and any(isinstance(x, ast.Call) and call_name(x) == 'spec_append' for x in ast.walk(n))]
    ctx.need(len(loops) == 1, 'readspec: file loop not found')
    after = f.node.body[f.node.body.index(loops[0]) + 1:]
    rebuilt = []
    for st in after:
        for x in ast.walk(st):
            if isinstance(x, ast.Assign) and len(x.targets) == 1 and isinstance(x.targets[0], ast.Subscript) and try_fold(x.targets[0].slice) == 'loglam':
                rebuilt.append(x)
    pols = set()
    for x in rebuilt:
        cs = [(t_, pol) for t_, pol in path_conditions(x)]
        if not cs:
            pols |= {True, False}
        for t_, pol in cs:
            if "'align'" in src(t_):
                pols.add(pol)
    ctx.check('C16.LOGLAM-PAD', pols == {True, False}, f, rebuilt[0] if rebuilt else loops[0],
              'after the loop loglam is rebuilt over the padded width with and without align= (%d assignment(s))' % len(rebuilt),
              msg='the wavelength image is padded by spec_append() like a flux image and is rebuilt after the loop only %s: when plates differ in pixel count the '
                  'wavelengths of the shorter spectra are 0 beyond their own length instead of COEFF0 + COEFF1*pixel'
                  % ('under `align`' if pols == {True} else 'on some paths' if pols else 'nowhere'), construct='loglam not rebuilt after padding')


def check_spec_append(ctx, repo):
    f = repo.func(SPEC1D, 'spec_append')
    fa = FA(f)
    ctx.cover(f)
    s1, s2, shift = f.params[0], f.params[1], f.params[2]
    rets = [r for r in walk_local(f.node) if isinstance(r, ast.Return) and r.value is not None]
    main = [r for r in rets if isinstance(r.value, ast.Name)]
    early = [r for r in rets if r not in main]
    ctx.need(len(main) == 1, 'spec_append: expected one `return <array>`')
    out = main[0].value.id
    for r in early:
        # legitimate only as concatenate((spec1, spec2)) under pixshift == 0 and equal widths
        conds = ' and '.join(src(a.test) for a in ancestors(r) if isinstance(a, ast.If))
        ok = 'concatenate' in src(r.value) and ('%s == 0' % shift in conds or 'not %s' % shift in conds) and ('npix1 == npix2' in conds or 'npix2 == npix1' in conds)
        ctx.check('C16.TILING', ok, f, r, 'early return is a plain concatenation under pixshift == 0 and equal widths',
                  msg='spec_append has a return path (%s, under `%s`) that bypasses the zero-padded tiling: a requested pixel shift or a '
                      'width difference is silently dropped' % (src(r.value)[:60], conds or 'no condition'), construct='early return ' + src(r.value)[:80])
    alloc = [st for st in walk_local(f.node) if isinstance(st, ast.Assign) and isinstance(st.targets[0], ast.Name) and st.targets[0].id == out]
    ctx.need(len(alloc) == 1 and isinstance(alloc[0].value, ast.Call), 'spec_append: allocation of the result not found')
    a = alloc[0].value
    ctx.check('C16.TILING', call_name(a) == 'zeros', f, alloc[0], 'result is allocated by np.zeros (pads only with zeros)',
              msg='the result is allocated by %s, not np.zeros: padding is not zero' % call_name(a), construct='allocation ' + src(a)[:60])
    # Abstract interpretation of the body: values are affine forms over the input shapes and the shift p, one run per sign of the shift
    # (p < 0, p == 0, p > 0); a test is decided from the sign, max() of two forms is decided when their difference has a known sign.
    r1, r2 = Poly.atom('%s.shape[0]' % s1), Poly.atom('%s.shape[0]' % s2)
    w1, w2 = Poly.atom('%s.shape[1]' % s1), Poly.atom('%s.shape[1]' % s2)
    pv = Poly.atom('p')

    class Undecided(Exception):
        pass

    def sign_of(poly, case):
        """-1 / 0 / +1 when the sign of an affine form c*p (+ nothing else) is known in this case, else None."""
        if poly.is_const():
            c = poly.const_value()
            return (c > 0) - (c < 0)
        if poly.atoms() == {'p'} and poly.degree() == 1 and poly.const_value() == 0:
            c = poly.coeff('p')
            sp = {'neg': -1, 'zero': 0, 'pos': 1}[case]
            return ((c > 0) - (c < 0)) * sp
        return None

    def interpret(case):
        env = {shift: Poly.const(0) if case == 'zero' else pv}
        rec = {'stores': [], 'shape': None}

        def mx(polys):
            best = polys[0]
            for q in polys[1:]:
                sg = sign_of(q - best, case)
                if sg is None:
                    return Poly.atom('max(%s)' % ','.join(sorted(str(x) for x in polys)))
                if sg > 0:
                    best = q
            return best

        def P(e):
            def at(x):
                if isinstance(x, ast.Name) and x.id in env:
                    return env[x.id]
                if isinstance(x, ast.Call) and call_name(x) == 'max' and isinstance(x.func, ast.Name) and len(x.args) >= 2 and not x.keywords:
                    return mx([P(y) for y in x.args])
                if isinstance(x, ast.Call) and call_name(x) in ('abs', 'absolute', 'fabs') and len(x.args) == 1:
                    q = P(x.args[0])
                    sg = sign_of(q, case)
                    if sg is None:
                        raise NotPoly(src(x))
                    return q if sg >= 0 else -q
                if isinstance(x, ast.Subscript) and isinstance(x.value, ast.Attribute) and x.value.attr == 'shape' and isinstance(x.value.value, ast.Name) \
                        and isinstance(try_fold(x.slice), int):
                    return Poly.atom('%s.shape[%d]' % (x.value.value.id, try_fold(x.slice)))
                if isinstance(x, ast.IfExp):
                    return P(x.body) if truth(x.test) else P(x.orelse)
                if isinstance(x, ast.Name):
                    raise NotPoly('name %s has no value here' % x.id)
                return None
            return poly_of(e, atom=at, resolve=None)

        def truth(t):
            if isinstance(t, ast.BoolOp):
                vals = [truth(v) for v in t.values]
                return all(vals) if isinstance(t.op, ast.And) else any(vals)
            if isinstance(t, ast.UnaryOp) and isinstance(t.op, ast.Not):
                return not truth(t.operand)
            if isinstance(t, ast.Compare) and len(t.ops) == 1:
                sg = sign_of(P(t.left) - P(t.comparators[0]), case)
                if sg is None:
                    raise Undecided(src(t))
                op = t.ops[0]
                return {ast.Lt: sg < 0, ast.LtE: sg <= 0, ast.Gt: sg > 0, ast.GtE: sg >= 0, ast.Eq: sg == 0, ast.NotEq: sg != 0}[type(op)] \
                    if type(op) in (ast.Lt, ast.LtE, ast.Gt, ast.GtE, ast.Eq, ast.NotEq) else _undecided(t)
            if isinstance(t, ast.Name) and t.id in env:
                sg = sign_of(env[t.id], case)
                if sg is None:
                    raise Undecided(src(t))
                return sg != 0
            raise Undecided(src(t))

        def _undecided(t):
            raise Undecided(src(t))

        def run_block(stmts):
            for st in stmts:
                if isinstance(st, ast.Expr) and isinstance(st.value, ast.Constant):
                    continue
                if isinstance(st, ast.Assign):
                    tg = st.targets
                    if len(tg) == 1 and isinstance(tg[0], ast.Tuple) and isinstance(st.value, ast.Attribute) and st.value.attr == 'shape' \
                            and isinstance(st.value.value, ast.Name) and all(isinstance(e_, ast.Name) for e_ in tg[0].elts):
                        for k_, e_ in enumerate(tg[0].elts):
                            env[e_.id] = Poly.atom('%s.shape[%d]' % (st.value.value.id, k_))
                        continue
                    if all(isinstance(t_, ast.Name) for t_ in tg):
                        if any(t_.id == out for t_ in tg):
                            sh = st.value.args[0] if isinstance(st.value, ast.Call) and st.value.args else None
                            if not (isinstance(sh, ast.Tuple) and len(sh.elts) == 2):
                                raise NotPoly('allocation shape is not a 2-tuple')
                            rec['shape'] = (P(sh.elts[0]), P(sh.elts[1]))
                            continue
                        v = P(st.value)
                        for t_ in tg:
                            env[t_.id] = v
                        continue
                    if len(tg) == 1 and isinstance(tg[0], ast.Subscript) and isinstance(tg[0].value, ast.Name) and tg[0].value.id == out:
                        sl = tg[0].slice
                        if not (isinstance(sl, ast.Tuple) and len(sl.elts) == 2 and all(isinstance(x, ast.Slice) and x.step is None for x in sl.elts)) \
                                or rec['shape'] is None:
                            raise NotPoly('store is not [row slice, column slice]')
                        rs, cs = sl.elts
                        z = Poly.const(0)
                        rec['stores'].append((P(rs.lower) if rs.lower is not None else z, P(rs.upper) if rs.upper is not None else rec['shape'][0],
                                              P(cs.lower) if cs.lower is not None else z, P(cs.upper) if cs.upper is not None else rec['shape'][1],
                                              src(st.value), st))
                        continue
                    raise NotPoly('statement not understood: ' + src(st)[:50])
                if isinstance(st, ast.AugAssign) and isinstance(st.target, ast.Name) and st.target.id in env:
                    env[st.target.id] = P(ast.BinOp(left=ast.Name(id=st.target.id, ctx=ast.Load()), op=st.op, right=st.value))
                    continue
                if isinstance(st, ast.If):
                    if run_block(st.body if truth(st.test) else st.orelse):
                        return True
                    continue
                if isinstance(st, ast.Return):
                    rec['returned'] = st
                    return True
                if isinstance(st, ast.Pass):
                    continue
                raise NotPoly('statement not understood: ' + src(st)[:50])
            return False
        body = [st for st in f.node.body]
        run_block(body)
        return rec, mx
    issues = {'rows': [], 'cols': [], 'values': [], 'rowtile': [], 'coltile': []}
    anchor = {}
    try:
        for case in ('neg', 'zero', 'pos'):
            rec, mx = interpret(case)
            ret = rec.get('returned')
            if ret is not None and ret in early:
                continue                                   # judged above
            ctx.need(rec['shape'] is not None and len(rec['stores']) == 2, 'spec_append: expected an allocation and two block stores on the path with pixshift %s' % case)
            off1 = -pv if case == 'neg' else Poly.const(0)
            off2 = pv if case == 'pos' else Poly.const(0)
            rows, cols = rec['shape']
            if rows != r1 + r2:
                issues['rows'].append('pixshift %s: rows %s' % (case, rows))
            want_cols = mx([w1 + off1, w2 + off2])
            if cols != want_cols:
                issues['cols'].append('pixshift %s: columns %s, expected %s' % (case, cols, want_cols))
            got = sorted(rec['stores'], key=lambda g: 0 if g[4] == s1 else 1)
            (a_lo, a_hi, ac_lo, ac_hi, av, ast1), (b_lo, b_hi, bc_lo, bc_hi, bv, ast2) = got
            anchor['st1'], anchor['st2'] = ast1, ast2
            if not (av == s1 and bv == s2):
                issues['values'].append('pixshift %s: stored values %s, %s' % (case, av, bv))
            if not (a_lo == Poly.const(0) and a_hi == r1 and b_lo == r1 and b_hi == r1 + r2):
                issues['rowtile'].append('pixshift %s: row ranges [%s,%s) and [%s,%s)' % (case, a_lo, a_hi, b_lo, b_hi))
            if not (ac_lo == off1 and ac_hi - ac_lo == w1 and bc_lo == off2 and bc_hi - bc_lo == w2):
                issues['coltile'].append('pixshift %s: column slices [%s,%s) / [%s,%s), expected starts %s / %s and the inputs\' own widths'
                                         % (case, ac_lo, ac_hi, bc_lo, bc_hi, off1, off2))
    except NotPoly as e:
        raise AnalysisError('C16: spec_append shapes are not affine: %s' % e)
    except Undecided as e:
        raise AnalysisError('C16: spec_append: the test `%s` cannot be decided from the sign of the pixel shift' % e)
    st1, st2 = anchor.get('st1', alloc[0]), anchor.get('st2', alloc[0])
    ctx.check('C16.TILING', not issues['rows'], f, alloc[0], 'allocated rows = nrows1 + nrows2 (for negative, zero and positive shift)',
              msg='allocated rows are not nrows1 + nrows2: %s' % '; '.join(issues['rows']), construct='rows')
    ctx.check('C16.TILING', not issues['cols'], f, alloc[0], 'allocated columns = max(npix1 + offset1, npix2 + offset2), offsets = (|p|, 0) for p < 0, (0, p) for p > 0',
              msg='allocated columns are wrong: %s' % '; '.join(issues['cols']), construct='cols')
    ctx.check('C16.TILING', not issues['values'], f, st1, 'the two stores write spec1 and spec2 themselves',
              msg='the stored values are not the two inputs: %s' % '; '.join(issues['values']), construct='stored values')
    ctx.check('C16.TILING', not issues['rowtile'], f, st1, 'row ranges [0, nrows1) and [nrows1, nrows1+nrows2): disjoint and exhaustive',
              msg='row ranges do not tile the result: %s' % '; '.join(issues['rowtile']), construct='row tiling')
    ctx.check('C16.TILING', not issues['coltile'], f, st2,
              'column slices start at the offset of their input (-pixshift for spec1 when pixshift < 0, pixshift for spec2 when pixshift > 0, else 0) and have the sources\' own widths',
              msg='column slices are wrong: %s' % '; '.join(issues['coltile']), construct='column tiling')


def check_no_memo(ctx, repo):
    """The helpers that locate files consult the environment and the file system on every call: no module-level memo."""
    from ..callgraph import CallGraph
    cg = CallGraph(repo)
    f = repo.func(SPEC1D, 'readspec')
    mod = f.module
    mod_names = {t.id for st in mod.tree.body if isinstance(st, (ast.Assign, ast.AnnAssign)) for t in (st.targets if isinstance(st, ast.Assign) else [st.target])
                 if isinstance(t, ast.Name)}
    for g in sorted(cg.closure_callees({f}), key=lambda x: (x.rel, x.qualname)):
        if g.rel != SPEC1D:
            continue
        ctx.cover(g)
        decos = [src(d) for d in g.node.decorator_list if any(w in src(d) for w in ('cache', 'memo'))]
        shared = []
        for n in walk_local(g.node):
            if isinstance(n, ast.Global):
                shared.append('global ' + ','.join(n.names))
            if isinstance(n, (ast.Subscript, ast.Attribute)) and isinstance(n.value, ast.Name) and n.value.id in mod_names and n.value.id not in ('log',) \
                    and not any(isinstance(d, (ast.Assign, ast.arg)) for d in ()):
                if isinstance(n, ast.Subscript) and isinstance(n.ctx, ast.Store):
                    shared.append(src(n)[:40])
                if isinstance(n, ast.Attribute) and n.attr in ('setdefault', 'update', 'append', 'add', 'pop', 'clear') :
                    shared.append(src(n)[:40])
        ctx.check('C16.NO-MEMO', not decos and not shared, g, g.node, '%s keeps no module-level memo (file location is re-derived from the environment on every call)' % g.qualname,
                  msg='%s remembers results in module-level state (%s): after the environment or the survey tree changes, readspec silently returns rows of the '
                      'previously seen plate-MJD' % (g.qualname, (decos + shared)[:3]), construct='%s memo: %s' % (g.qualname, (decos + shared)[:2]))


def check_scalar_slot(ctx, repo):
    """C16.SCALAR-SLOT: on the `all fibres` path of readspec, number_of_fibers fills one element per plate.  An element of an array
    (`A[k]`, k an integer loop index) cannot receive a boolean-mask selection `B[mask]` as it is: that is an array of however many rows
    match, and NumPy refuses to store even a one-element array into a scalar slot (`setting an array element with a sequence`), so
    every request for all fibres of a plate observed after MJD 55025 fails.  The selection must be reduced to a scalar first
    (`[0]`, `.item()`, `int(..)`, a reduction).  Light types: the index is a loop variable over range(); the selected value is a
    subscript whose index is built from comparisons."""
    f = repo.func(SPEC1D, 'number_of_fibers')
    fa = FA(f)
    ctx.cover(f)

    def is_mask(e, depth=0):
        if isinstance(e, ast.Compare):
            return True
        if isinstance(e, ast.BinOp) and isinstance(e.op, (ast.BitAnd, ast.BitOr)):
            return is_mask(e.left, depth) and is_mask(e.right, depth)
        if isinstance(e, ast.UnaryOp) and isinstance(e.op, ast.Invert):
            return is_mask(e.operand, depth)
        if isinstance(e, ast.Call) and call_name(e) in ('logical_and', 'logical_or', 'logical_not'):
            return all(is_mask(a, depth) for a in e.args)
        if isinstance(e, ast.Name) and depth < 3:
            ds = [v for d, v in fa.defs(e) if d is not None]
            return bool(ds) and all(v is not None and is_mask(v, depth + 1) for v in ds)
        return False

    def array_valued(e, depth=0):
        """A selection by mask that has not been reduced to one element."""
        if isinstance(e, ast.Subscript):
            return is_mask(e.slice)
        if isinstance(e, ast.Name) and depth < 3:
            ds = [v for d, v in fa.defs(e) if d is not None]
            return bool(ds) and all(v is not None and array_valued(v, depth + 1) for v in ds)
        return False
    n = 0
    for st in walk_local(f.node):
        if not (isinstance(st, ast.Assign) and len(st.targets) == 1 and isinstance(st.targets[0], ast.Subscript) and isinstance(st.targets[0].slice, ast.Name)):
            continue
        k = st.targets[0].slice
        loops = [a for a in ancestors(st) if isinstance(a, ast.For) and isinstance(a.target, ast.Name) and a.target.id == k.id
                 and isinstance(a.iter, ast.Call) and call_name(a.iter) == 'range']
        if not loops:
            continue
        n += 1
        bad = array_valued(st.value)
        ctx.check('C16.SCALAR-SLOT', not bad, f, st, 'number_of_fibers: `%s` receives one value per plate (`%s`)' % (src(st.targets[0]), src(st.value)[:50]),
                  msg='number_of_fibers stores the mask selection `%s` into the single element `%s`: NumPy does not store an array (not even of one '
                      'element) into a scalar slot, so readspec(..., fiber=\'all\') fails with ValueError for every plate observed after MJD 55025; the '
                      'selection has to be reduced to its one element first' % (src(st.value)[:60].replace('\n', ' '), src(st.targets[0])),
                  construct='number_of_fibers: array stored into one element')
    ctx.need(n >= 1, 'number_of_fibers: the per-plate store not found')


def check_kw_forward(ctx, repo):
    """C16.KW-FORWARD: readspec hands its whole ** dictionary on (to number_of_fibers when all fibres are asked for, to latest_mjd when
    no MJD is given), and those hand it on again.  A function that has no ** parameter of its own raises TypeError for every key it
    does not name, so whatever a caller of readspec may legitimately pass - every key readspec itself reads from the dictionary - must
    be a parameter of every function without ** that the dictionary reaches wholesale.  Signature agreement along the call graph."""
    roots = ['readspec']
    funcs = {q: repo.func(SPEC1D, q) for q in ('readspec', 'number_of_fibers', 'latest_mjd', 'spec_path')}

    def kw_name(f):
        return f.node.args.kwarg.arg if f.node.args.kwarg is not None else None

    def own_keys(f):
        kw = kw_name(f)
        out = set()
        if kw is None:
            return out
        for n in walk_local(f.node):
            if isinstance(n, ast.Compare) and len(n.ops) == 1 and isinstance(n.ops[0], (ast.In, ast.NotIn)) and isinstance(n.left, ast.Constant) \
                    and isinstance(n.comparators[0], ast.Name) and n.comparators[0].id == kw and isinstance(n.left.value, str):
                out.add(n.left.value)
            if isinstance(n, ast.Subscript) and isinstance(n.value, ast.Name) and n.value.id == kw and isinstance(n.slice, ast.Constant) and isinstance(n.slice.value, str):
                out.add(n.slice.value)
            if isinstance(n, ast.Call) and isinstance(n.func, ast.Attribute) and n.func.attr in ('get', 'pop') and isinstance(n.func.value, ast.Name) \
                    and n.func.value.id == kw and n.args and isinstance(n.args[0], ast.Constant) and isinstance(n.args[0].value, str):
                out.add(n.args[0].value)
        return out

    def forwards(f):
        """[(call, callee Func)] where the whole ** dictionary of f is handed on."""
        kw = kw_name(f)
        out = []
        if kw is None:
            return out
        for c in walk_local(f.node):
            if isinstance(c, ast.Call) and any(k.arg is None and isinstance(k.value, ast.Name) and k.value.id == kw for k in c.keywords):
                g = repo.resolve_call(c, f)
                if g is not None:
                    out.append((c, g))
        return out
    offered = {q: set() for q in funcs}
    offered['readspec'] = own_keys(funcs['readspec'])
    ctx.need(offered['readspec'], 'readspec: no keyword is read from its ** dictionary')
    work = list(roots)
    seen_edges = set()
    n = 0
    while work:
        q = work.pop()
        f = funcs.get(q) or next((g for g in funcs.values() if g.qualname == q), None)
        if f is None:
            continue
        ctx.cover(f)
        for c, g in forwards(f):
            key = (q, g.qualname, c.lineno)
            if key in seen_edges:
                continue
            seen_edges.add(key)
            passed = set(offered.get(q, set()))
            # keys given explicitly in the same call win over the dictionary only by raising TypeError (duplicate): ignore
            a = g.node.args
            names = {x.arg for x in a.args + a.kwonlyargs}
            n += 1
            if a.kwarg is None:
                extra = sorted(passed - names)
                ctx.check('C16.KW-FORWARD', not extra, f, c,
                          '%s hands its ** dictionary to %s, which names every key that can be in it (%s)' % (q, g.qualname, sorted(passed)),
                          msg='%s hands its whole ** dictionary to %s(%s), which has no ** parameter: the keywords %s, which readspec accepts and reads, make '
                              'that call raise TypeError (for example readspec(plate, fiber=..., %s=...) without an MJD)' % (
                                  q, g.qualname, ', '.join(sorted(names)), extra, extra[0] if extra else ''),
                          construct='%s -> %s(**%s) with keys %s' % (q, g.qualname, kw_name(f), extra))
            else:
                ctx.check('C16.KW-FORWARD', True, f, c, '%s hands its ** dictionary to %s, which takes ** itself' % (q, g.qualname))
                funcs.setdefault(g.qualname, g)
                new = passed | own_keys(g)
                if not new <= offered.get(g.qualname, set()):
                    offered[g.qualname] = offered.get(g.qualname, set()) | new
                    seen_edges = {e for e in seen_edges if e[0] != g.qualname}
                    work.append(g.qualname)
    ctx.need(n >= 2, 'readspec: the forwarding of its ** dictionary was not found')


def check_join(ctx, repo):
    """C16.JOIN: the rows of successive plate files are joined along the first axis - np.concatenate (or vstack / an explicit axis).
    np.append without an axis flattens both operands first, so a table column that holds a vector per fibre (plug-map MAG, THETA)
    comes back one-dimensional, its values belonging to the wrong fibres."""
    f = repo.func(SPEC1D, 'readspec')
    ctx.cover(f)
    n = 0
    for c in walk_local(f.node):
        if isinstance(c, ast.Call) and isinstance(c.func, ast.Attribute) and isinstance(c.func.value, ast.Name) and c.func.value.id in ('np', 'numpy'):
            if c.func.attr == 'concatenate':
                n += 1
                ctx.check('C16.JOIN', True, f, c, 'readspec joins `%s` along the first axis' % src(c)[:60])
            elif c.func.attr == 'append':
                n += 1
                has_axis = len(c.args) >= 3 or any(k.arg == 'axis' and not (isinstance(k.value, ast.Constant) and k.value.value is None) for k in c.keywords)
                ctx.check('C16.JOIN', has_axis, f, c, 'readspec joins `%s` along an explicit axis' % src(c)[:60],
                          msg='readspec joins the rows of successive files with `%s`: np.append without an axis flattens its operands, so a column that holds a '
                              'vector per fibre comes back one-dimensional and row i no longer belongs to request i' % src(c)[:70].replace('\n', ' '),
                          construct='np.append without axis in readspec')
    ctx.need(n >= 3, 'readspec: the joins of successive files were not found')


def run(ctx):
    check_join(ctx, ctx.repo)
    check_kw_forward(ctx, ctx.repo)
    check_scalar_slot(ctx, ctx.repo)
    check_readspec(ctx, ctx.repo)
    check_location(ctx, ctx.repo)
    check_no_memo(ctx, ctx.repo)
    check_spec_append(ctx, ctx.repo)

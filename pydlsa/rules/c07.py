"""C07 -- bitmask names and values convert consistently for any maskbits file.

Independent of the file's content, so structural: case folding of every key, guarded lookups with
KeyError exits, the 64-bit ascending scan, uint64 arithmetic, alias construction after all rows,
row accumulation into existing groups, no memoisation over the reconfigurable cache."""

import ast

from .. import AnalysisError
from ..astutil import src, call_name, dotted, walk_local, try_fold, ancestors
from ..fn import FA
from ..callgraph import CallGraph

META = {
    'property': 'C07',
    'title': 'Bitmask names and values convert consistently for any maskbits file',
    'technique': 'def-use case-fold flow (interprocedural through private helpers), membership-guard dominance, '
                 'exception-exit typing, extraction of the bit-scan range and of the 2**bit contribution, uint64 kind inference',
    'explanation': (
        'Decided (pydl/pydlutils/sdss.py: sdss_flagexist, sdss_flagname, sdss_flagval, set_maskbits and private helpers '
        'they call): C07.CASEFOLD - every key used to index or test membership in the module cache maskbits (group) and '
        'in a group dict (label) derives from .upper(); C07.GUARDED - in sdss_flagexist every subscript is inside the '
        'true branch of the membership test and the function never raises; in sdss_flagval every lookup is membership-'
        'guarded and each false branch raises KeyError; in sdss_flagname the group lookup re-raises KeyError and happens '
        'only while iterating set bits; C07.SCAN64 - the bit scan is range(64) ascending, the result is built in scan '
        'order, a label is selected by equality with the scanned bit, sdss_flagval contributes exactly 2**bit; '
        'C07.U64 - the shift / power / and operands are numpy uint64; C07.ALIAS - alias entries are copies of the aliased '
        'group built after all MASKBITS rows; C07.ACCUM - a row extends its group when the group already exists (never '
        'replaces it); C07.NO-MEMO - no function reading the reconfigurable cache is memoised. C07.CASEFOLD-STORE - set_maskbits folds every key it stores (group, alias, label, membership test) with upper(), as every reader folds its query; C07.WRAP - only a str counts as a single label; C07.SCAN64 also recognises the shift-down scan (`v >>= 1` per bit) and then requires the shift on every path to the next iteration. NOT decided: the set-algebra '
        'identities on concrete files (follow from the above plus dict semantics; not mechanised), += vs |= for repeated labels.'),
    'floors': {'C07.CASEFOLD-STORE': 6, 'C07.WRAP': 1, 'C07.CASEFOLD': 8, 'C07.GUARDED': 5, 'C07.SCAN64': 4, 'C07.U64': 4, 'C07.ALIAS': 1, 'C07.ACCUM': 1, 'C07.NO-MEMO': 3},
}

SDSS = 'pydl/pydlutils/sdss.py'
CACHE = 'maskbits'


class Up:
    """Is an expression (a key) derived from .upper() on every path?  Interprocedural for parameters
    of private helpers: every package call site must pass an upper-derived argument."""

    def __init__(self, repo, cg):
        self.repo = repo
        self.cg = cg
        self.fas = {}

    def fa(self, f):
        if f not in self.fas:
            self.fas[f] = FA(f)
        return self.fas[f]

    def derived(self, e, f, depth=0):
        if depth > 8:
            return False
        if isinstance(e, ast.Call) and call_name(e) == 'upper' and isinstance(e.func, ast.Attribute):
            return True
        if isinstance(e, ast.Constant) and isinstance(e.value, str):
            return e.value == e.value.upper()
        if isinstance(e, ast.Name):
            fa = self.fa(f)
            # comprehension variable?
            for a in ancestors(e):
                if isinstance(a, (ast.ListComp, ast.GeneratorExp, ast.SetComp, ast.DictComp)):
                    for g in a.generators:
                        if isinstance(g.target, ast.Name) and g.target.id == e.id:
                            return self.elements_derived(g.iter, f, depth + 1)
            ds = fa.defs(e)
            if not ds:
                return False
            for d, v in ds:
                if isinstance(d, ast.arg):
                    if not self.param_derived(f, d.arg, depth + 1):
                        return False
                elif isinstance(d, ast.For):
                    if not self.elements_derived(d.iter, f, depth + 1):
                        return False
                elif v is None or not self.derived(v, f, depth + 1):
                    return False
            return True
        return False

    def elements_derived(self, it, f, depth):
        """Elements of an iterable are upper-derived."""
        fa = self.fa(f)
        if isinstance(it, (ast.List, ast.Tuple)):
            return all(self.derived(x, f, depth + 1) for x in it.elts)
        if isinstance(it, (ast.ListComp, ast.GeneratorExp)):
            return self.derived(it.elt, f, depth + 1) if not _is_name_of_gen(it) else False
        if isinstance(it, ast.Name):
            ds = fa.defs(it)
            if not ds:
                return False
            for d, v in ds:
                if isinstance(d, ast.arg):
                    if not self.param_derived(f, d.arg, depth + 1, elements=True):
                        return False
                elif v is None or not self.elements_derived(v, f, depth + 1):
                    return False
            return True
        if isinstance(it, ast.Call) and call_name(it) in ('list', 'tuple', 'sorted', 'set') and it.args:
            return self.elements_derived(it.args[0], f, depth + 1)
        return False

    def param_derived(self, f, pname, depth, elements=False):
        if not f.name.startswith('_'):
            return False      # public API: callers are arbitrary
        sites = [(c, g) for g, cs in self.cg.calls.items() for c, h in cs if h is f]
        if not sites:
            return False
        idx = f.params.index(pname)
        for c, g in sites:
            arg = None
            if idx < len(c.args):
                arg = c.args[idx]
            for k in c.keywords:
                if k.arg == pname:
                    arg = k.value
            if arg is None:
                return False
            ok = self.elements_derived(arg, g, depth + 1) if elements else self.derived(arg, g, depth + 1)
            if not ok:
                return False
        return True


def _is_name_of_gen(it):
    return False


def cache_uses(f):
    """(node, kind, key expr, level) for maskbits[K], K in maskbits, maskbits[K][L], L in maskbits[K],
    maskbits[K].items()/get/..."""
    out = []
    for n in walk_local(f.node):
        if isinstance(n, ast.Subscript) and isinstance(n.value, ast.Name) and n.value.id == CACHE:
            out.append((n, 'sub', n.slice, 'group'))
        elif isinstance(n, ast.Subscript) and isinstance(n.value, ast.Subscript) and isinstance(n.value.value, ast.Name) \
                and n.value.value.id == CACHE:
            out.append((n, 'sub', n.slice, 'label'))
        elif isinstance(n, ast.Compare) and len(n.ops) == 1 and isinstance(n.ops[0], (ast.In, ast.NotIn)):
            c = n.comparators[0]
            if isinstance(c, ast.Name) and c.id == CACHE:
                out.append((n, 'in', n.left, 'group'))
            elif isinstance(c, ast.Subscript) and isinstance(c.value, ast.Name) and c.value.id == CACHE:
                out.append((n, 'in', n.left, 'label'))
        elif isinstance(n, ast.Call) and isinstance(n.func, ast.Attribute) and n.func.attr in ('get', 'pop', 'setdefault') and n.args:
            b = n.func.value
            if isinstance(b, ast.Name) and b.id == CACHE:
                out.append((n, 'get', n.args[0], 'group'))
            elif isinstance(b, ast.Subscript) and isinstance(b.value, ast.Name) and b.value.id == CACHE:
                out.append((n, 'get', n.args[0], 'label'))
    return out


def reads_cache(f):
    return any(isinstance(n, ast.Name) and n.id == CACHE and isinstance(n.ctx, ast.Load) for n in walk_local(f.node))


_FA_CACHE = {}


def _fa_of(node):
    f = getattr(node, '_func', None)
    if f is None:
        return None
    k = id(f.node)
    if k not in _FA_CACHE:
        _FA_CACHE.clear()
        _FA_CACHE[k] = FA(f)
    return _FA_CACHE[k]


def in_true_branch_of(node, pred):
    """node lies in the body of an If whose test satisfies pred(test); returns that If.  Names in the test that are bound once to
    an expression are read as that expression (`found = k in d; if found:`)."""
    from ..fn import expand
    fa = _fa_of(node)
    child = node
    for a in ancestors(node):
        if isinstance(a, ast.If):
            inbody = any(child is b or child in list(ast.walk(b)) for b in a.body)
            if inbody and (pred(a.test) or (fa is not None and pred(expand(a.test, fa)))):
                return a
        # comprehension conditions / IfExp
        if isinstance(a, ast.IfExp) and (child is a.body or child in list(ast.walk(a.body))) and pred(a.test):
            return a
        child = a
    return None


def membership_guard(node, keys, cont):
    """The statement that guarantees `key in container` whenever node is evaluated: (owner, side) with side = 'body' (node in the body of
    `if key in container`), 'else' (in the else branch of `if key not in container`), 'after' (behind a guard statement
    `if key not in container: raise / return / continue`); None when there is none.  The test is judged in canonical form as a
    conjunction, single-definition names in it read as their definition."""
    from ..astutil import path_conditions, clone
    from ..normal import canon_test
    from ..fn import expand
    fa = _fa_of(node)
    for t, pol in path_conditions(node):
        for cand in (t, expand(t, fa) if fa is not None else None):
            if cand is None:
                continue
            e = canon_test(cand if pol else ast.UnaryOp(op=ast.Not(), operand=clone(cand)))
            for cj in (e.values if isinstance(e, ast.BoolOp) and isinstance(e.op, ast.And) else [e]):
                if isinstance(cj, ast.Compare) and len(cj.ops) == 1 and isinstance(cj.ops[0], ast.In) and src(cj.left) in keys \
                        and src(cj.comparators[0]) == cont:
                    owner = getattr(t, '_parent', None)
                    side = 'after'
                    if isinstance(owner, ast.If):
                        if any(node is x for b in owner.body for x in ast.walk(b)):
                            side = 'body'
                        elif any(node is x for b in owner.orelse for x in ast.walk(b)):
                            side = 'else'
                    elif isinstance(owner, ast.IfExp):
                        side = 'body' if any(node is x for x in ast.walk(owner.body)) else 'else'
                    return owner, side
    return None


def other_side_raises(owner, side, exc='KeyError'):
    """The complementary outcome of the guard leaves by `raise <exc>`."""
    if not isinstance(owner, ast.If):
        return False
    blk = owner.orelse if side == 'body' else owner.body
    if not blk:
        return False
    last = blk[-1]
    if isinstance(last, ast.Raise) and last.exc is not None:
        e = last.exc.func if isinstance(last.exc, ast.Call) else last.exc
        return (dotted(e) or '').split('.')[-1] == exc
    return False


def membership(test, key_src, container_src):
    keys = key_src if isinstance(key_src, (set, list, tuple)) else [key_src]
    for c in ast.walk(test):
        if isinstance(c, ast.Compare) and len(c.ops) == 1 and isinstance(c.ops[0], ast.In) \
                and src(c.left) in keys and src(c.comparators[0]) == container_src:
            return True
    return False


def key_spellings(key):
    """The key as written and with its single-definition names expanded."""
    from ..fn import expand
    fa = _fa_of(key)
    out = {src(key)}
    if fa is not None:
        out.add(src(expand(key, fa)))
    return out


def else_raises(ifnode, exc='KeyError'):
    if not ifnode.orelse:
        return False
    last = ifnode.orelse[-1]
    if isinstance(last, ast.Raise) and last.exc is not None:
        e = last.exc.func if isinstance(last.exc, ast.Call) else last.exc
        return (dotted(e) or '').split('.')[-1] == exc
    return False


def in_keyerror_try(node):
    """node is in the body of a try whose KeyError handler re-raises KeyError."""
    child = node
    for a in ancestors(node):
        if isinstance(a, ast.Try):
            inbody = any(child is b or child in list(ast.walk(b)) for b in a.body)
            if inbody:
                for h in a.handlers:
                    hn = (dotted(h.type) or '') if h.type is not None else ''
                    if hn.split('.')[-1] == 'KeyError':
                        last = h.body[-1] if h.body else None
                        if isinstance(last, ast.Raise):
                            if last.exc is None:
                                return a
                            e = last.exc.func if isinstance(last.exc, ast.Call) else last.exc
                            if (dotted(e) or '').split('.')[-1] == 'KeyError':
                                return a
                return None
        child = a
    return None


def is_u64(e, fa, depth=0):
    if depth > 6:
        return False
    if isinstance(e, ast.Call) and (dotted(e.func) or '').split('.')[-1] == 'uint64':
        return True
    if isinstance(e, ast.BinOp):
        return is_u64(e.left, fa, depth + 1) and is_u64(e.right, fa, depth + 1)
    if isinstance(e, ast.Name):
        ds = fa.defs(e)
        if not ds:
            return False
        for d, v in ds:
            if isinstance(d, ast.AugAssign):
                if not is_u64(d.value, fa, depth + 1):
                    return False
            elif v is None or not is_u64(v, fa, depth + 1):
                return False
        return True
    return False


def check_shift_scan(ctx, f, fa):
    """The other spelling of the bit scan: `for bit in range(64): if v & 1: ...; v >>= 1`.  The bit number is right only
    if the shift happens on EVERY path to the next iteration."""
    loops = []
    for n in walk_local(f.node):
        if isinstance(n, ast.For) and isinstance(n.iter, ast.Call) and call_name(n.iter) == 'range':
            sh = [x for x in walk_local(n) if isinstance(x, ast.AugAssign) and isinstance(x.op, ast.RShift) and isinstance(x.target, ast.Name)]
            if sh:
                loops.append((n, sh))
    ctx.need(len(loops) == 1, 'sdss_flagname: bit scan comprehension over range() not found')
    lp, shifts = loops[0]
    rargs = [try_fold(a) for a in lp.iter.args]
    ctx.check('C07.SCAN64', rargs in ([64], [0, 64], [0, 64, 1]), f, lp.iter, 'bit scan covers range(64) in ascending order',
              msg='the bit scan is %s: bit 63 (or low bits) is never reported / the order is not ascending' % src(lp.iter),
              construct='scan range ' + src(lp.iter))
    v = shifts[0].target.id
    one = try_fold(shifts[0].value, resolver=fa.resolve)
    ctx.check('C07.SCAN64', one == 1 or is_u64(shifts[0].value, fa), f, shifts[0], 'the value is shifted down by one per bit', msg='the scan shifts by %s' % src(shifts[0].value),
              construct='scan shift ' + src(shifts[0]))
    tests = [t for t in walk_local(lp) if isinstance(t, ast.BinOp) and isinstance(t.op, ast.BitAnd) and v in {x.id for x in ast.walk(t) if isinstance(x, ast.Name)}]
    ctx.check('C07.SCAN64', bool(tests), f, tests[0] if tests else lp, 'a bit is selected when value & 1 != 0', msg='the scan does not test the lowest bit of the shifted value',
              construct='scan condition')
    for side in ([tests[0].left, tests[0].right] if tests else []) + [shifts[0].value]:
        if isinstance(side, ast.BinOp):
            continue
        ctx.check('C07.U64', is_u64(side, fa), f, side, 'sdss_flagname: operand `%s` of the scan is numpy uint64' % src(side),
                  msg='sdss_flagname: operand `%s` is not a numpy uint64: bit 63 overflows a signed or float intermediate' % src(side),
                  construct='non-uint64 operand %s in the shift scan' % src(side))
    cfg = fa.cfg
    heads = [n for n in cfg.nodes_of(lp) if n.kind == 'for']
    ctx.need(heads, 'sdss_flagname: loop header not in the CFG')
    through = [n for s_ in shifts for n in cfg.nodes_of(s_)]
    starts = []
    for h in heads:
        starts.extend(m for m, l in h.succ if l == 'iter')
    seen = cfg.reachable_from(starts, avoid=through)
    skipped = [h for h in heads if h.id in seen]
    ctx.check('C07.SCAN64', not skipped, f, shifts[0], 'every path through the loop body shifts the value before the next bit is examined',
              msg='a path through the scan loop reaches the next iteration without `%s` (a continue / missing else): after an undefined set bit every '
                  'later bit is read one position late and gets the wrong label' % src(shifts[0]),
              construct='scan loop skips ' + src(shifts[0]))
    apps = [c for c in walk_local(lp) if isinstance(c, ast.Call) and call_name(c) == 'append']
    ctx.check('C07.SCAN64', bool(apps), f, apps[0] if apps else lp, 'labels are appended while iterating the scanned bits in ascending order',
              msg='labels are not appended inside the scan loop', construct='result order in sdss_flagname')
    eqs = [c for c in walk_local(lp) if isinstance(c, ast.Compare) and len(c.ops) == 1 and isinstance(c.ops[0], ast.Eq)
           and isinstance(lp.target, ast.Name) and lp.target.id in {x.id for x in ast.walk(c) if isinstance(x, ast.Name)}]
    ctx.check('C07.SCAN64', bool(eqs), f, eqs[0] if eqs else lp, 'a label is selected for a scanned bit by equality of its stored bit',
              msg='labels are not selected by equality with the scanned bit', construct='label selection in sdss_flagname')


def run(ctx):
    repo = ctx.repo
    f_exist = repo.func(SDSS, 'sdss_flagexist')
    f_name = repo.func(SDSS, 'sdss_flagname')
    f_val = repo.func(SDSS, 'sdss_flagval')
    f_set = repo.func(SDSS, 'set_maskbits')
    ctx.cover(f_exist, f_name, f_val, f_set)
    cg = CallGraph(repo)
    up = Up(repo, cg)
    # helpers: functions of sdss.py reachable from the three converters that read the cache
    scope = {}
    for root in (f_exist, f_name, f_val):
        for g in cg.closure_callees({root}):
            if g.rel == SDSS and g is not f_set and reads_cache(g):
                scope.setdefault(g, set()).add(root.name)
    for root in (f_exist, f_name, f_val):
        ctx.need(any(root.name in v for v in scope.values()), '%s no longer reaches any read of the maskbits cache' % root.name)

    # ---- CASEFOLD
    for g in sorted(scope, key=lambda x: x.qualname):
        for node, kind, key, level in cache_uses(g):
            ok = up.derived(key, g)
            ctx.check('C07.CASEFOLD', ok, g, node, '%s: %s key `%s` (%s) derives from .upper()' % (g.qualname, level, src(key), src(node)[:40]),
                      msg='%s uses %s key `%s` that does not derive from .upper(): lookups are no longer case-insensitive' % (g.qualname, level, src(key)),
                      construct='%s key %s in %s' % (level, src(key), src(node)[:50]))
        # iteration over a group's items compared with a label
    # ---- GUARDED
    for g in sorted(scope, key=lambda x: x.qualname):
        roots = scope[g]
        raises = [n for n in walk_local(g.node) if isinstance(n, ast.Raise)]
        if 'sdss_flagexist' in roots and g is f_exist:
            ctx.check('C07.GUARDED', not raises, g, raises[0] if raises else g.node, 'sdss_flagexist contains no raise',
                      msg='sdss_flagexist raises: the existence query must report unknown groups/labels without raising',
                      construct='raise in sdss_flagexist')
        for node, kind, key, level in cache_uses(g):
            if kind != 'sub':
                continue
            if isinstance(getattr(node, '_parent', None), ast.Subscript) and node._parent.value is node and level == 'group':
                pass
            cont = CACHE if level == 'group' else src(node.value)
            mg = membership_guard(node, key_spellings(key), cont)
            guard = mg[0] if mg is not None else None
            if 'sdss_flagexist' in roots and g is f_exist:
                ctx.check('C07.GUARDED', guard is not None, g, node,
                          'sdss_flagexist: `%s` is evaluated only when `%s in %s` holds' % (src(node)[:40], src(key), cont),
                          msg='sdss_flagexist indexes %s[%s] without the membership test: an unknown %s raises KeyError instead of '
                              'being reported' % (cont, src(key), level), construct='unguarded %s' % src(node)[:50])
            else:
                tr = in_keyerror_try(node)
                ok = (mg is not None and other_side_raises(mg[0], mg[1])) or tr is not None
                ctx.check('C07.GUARDED', ok, g, node,
                          '%s: lookup `%s` is membership-guarded with a KeyError exit (or inside try/except KeyError: raise KeyError)'
                          % (g.qualname, src(node)[:40]),
                          msg='%s: %s lookup `%s` has no KeyError exit for an unknown %s (membership test with `raise KeyError` in the '
                              'else branch, or try/except KeyError re-raising, expected)' % (g.qualname, level, src(node)[:40], level),
                          construct='lookup without KeyError exit: %s' % src(node)[:50])
    # flagname: group lookup only inside the loop over set bits
    # (an explicit `bits = []; for bit in range(64): if <test>: bits.append(bit)` loop is read as the comprehension it spells out)
    from .. import normal as _normal
    from ..astutil import clone as _clone, link_parents as _link
    from ..loader import Func as _Func
    _n2 = _clone(f_name.node)
    if _normal._loop_to_comprehension(_n2):
        _link(_n2)
        _n2._parent = getattr(f_name.node, '_parent', None)
        f_name = _Func(f_name.module, f_name.qualname, _n2, f_name.cls)
        for _x in ast.walk(_n2):
            _x._func = f_name
    fa_n = FA(f_name)
    scan = None
    for n in walk_local(f_name.node):
        if isinstance(n, (ast.ListComp, ast.GeneratorExp)):
            g0 = n.generators[0]
            if isinstance(g0.iter, ast.Call) and call_name(g0.iter) == 'range':
                scan = n
    if scan is None:
        check_shift_scan(ctx, f_name, fa_n)
    else:
        g0 = scan.generators[0]
        rargs = [try_fold(a) for a in g0.iter.args]
        full = rargs == [64] or rargs == [0, 64] or rargs == [0, 64, 1]
        ctx.check('C07.SCAN64', full, f_name, g0.iter, 'bit scan covers range(64) in ascending order',
                  msg='the bit scan is %s: bit 63 (or low bits) is never reported / the order is not ascending' % src(g0.iter),
                  construct='scan range ' + src(g0.iter))
        var = g0.target.id if isinstance(g0.target, ast.Name) else None
        cond = g0.ifs[0] if g0.ifs else None
        okc = cond is not None and any(isinstance(x, ast.BinOp) and isinstance(x.op, ast.BitAnd) for x in ast.walk(cond)) and any(
            isinstance(x, ast.BinOp) and isinstance(x.op, (ast.LShift, ast.Pow)) and var in {y.id for y in ast.walk(x.right) if isinstance(y, ast.Name)}
            for x in ast.walk(cond))
        ctx.check('C07.SCAN64', okc, f_name, cond or scan, 'a bit is selected when value & (1 << bit) != 0',
                  msg='the scan condition does not test value & (1 << bit)', construct='scan condition ' + (src(cond) if cond else 'none'))
        # operands of the scan are uint64
        for x in ast.walk(cond) if cond is not None else []:
            if isinstance(x, ast.BinOp) and isinstance(x.op, (ast.LShift, ast.BitAnd, ast.Pow)):
                for side in (x.left, x.right):
                    if isinstance(side, ast.BinOp):
                        continue
                    ctx.check('C07.U64', is_u64(side, fa_n), f_name, side, 'sdss_flagname: operand `%s` of `%s` is numpy uint64' % (src(side), src(x)[:40]),
                              msg='sdss_flagname: operand `%s` is not a numpy uint64: bit 63 overflows a signed or float intermediate' % src(side),
                              construct='non-uint64 operand %s in %s' % (src(side), src(x)[:50]))
        # result built in scan order, label by equality
        scan_name = None
        p = getattr(scan, '_parent', None)
        if isinstance(p, ast.Assign) and isinstance(p.targets[0], ast.Name):
            scan_name = p.targets[0].id
        rets = [r for r in walk_local(f_name.node) if isinstance(r, ast.Return) and r.value is not None]
        builders = []
        for n in walk_local(f_name.node):
            if isinstance(n, ast.For) and isinstance(n.iter, ast.Name) and n.iter.id == scan_name and any(
                    isinstance(c, ast.Call) and call_name(c) == 'append' for c in walk_local(n)):
                builders.append(('loop', n))
            if isinstance(n, (ast.ListComp,)) and n is not scan and isinstance(getattr(n, '_parent', None), ast.Assign) \
                    and isinstance(n._parent.targets[0], ast.Name) and n._parent.targets[0].id in {x.id for r in rets for x in ast.walk(r.value) if isinstance(x, ast.Name)}:
                first = n.generators[0].iter
                builders.append(('comp-scan' if (isinstance(first, ast.Name) and first.id == scan_name) else 'comp-other', n))
        good = [b for b in builders if b[0] in ('loop', 'comp-scan')]
        bad = [b for b in builders if b[0] == 'comp-other']
        ctx.check('C07.SCAN64', bool(good) and not bad, f_name, (bad or good or [(None, scan)])[0][1],
                  'labels are appended while iterating the scanned bits in ascending order',
                  msg='the returned labels are produced by iterating %s, not the ascending bit scan: the order follows the file, not the bit number'
                      % (src(bad[0][1].generators[0].iter) if bad else 'something else'),
                  construct='result order in sdss_flagname')
        eqs = [c for c in walk_local(f_name.node) if isinstance(c, ast.Compare) and len(c.ops) == 1 and isinstance(c.ops[0], ast.Eq)
               and any(isinstance(x, ast.Name) and fa_n_is_scan_elem(x, fa_n, scan_name) for x in ast.walk(c))]
        ctx.check('C07.SCAN64', bool(eqs), f_name, eqs[0] if eqs else scan, 'a label is selected for a scanned bit by equality of its stored bit',
                  msg='labels are not selected by equality with the scanned bit (membership in a collection ignores order / duplicates)',
                  construct='label selection in sdss_flagname')
        # group lookup only while iterating set bits
        for node, kind, key, level in cache_uses(f_name):
            if kind == 'sub' and level == 'group':
                inloop = any(isinstance(a, ast.For) and isinstance(a.iter, ast.Name) and a.iter.id == scan_name for a in ancestors(node)) or \
                    any(isinstance(a, (ast.ListComp, ast.GeneratorExp)) and isinstance(a.generators[0].iter, ast.Name) and a.generators[0].iter.id == scan_name
                        for a in ancestors(node)) or \
                    any(isinstance(a, ast.If) and isinstance(a.test, ast.Name) and a.test.id == scan_name for a in ancestors(node))
                ctx.check('C07.GUARDED', inloop, f_name, node, 'sdss_flagname looks the group up only while visiting set bits (a zero value names no bits in any group)',
                          msg='sdss_flagname looks the group up even when no bit is set: a zero value raises KeyError for an unknown group',
                          construct='group lookup outside the set-bit loop')
    # flagval contribution
    fa_v = FA(f_val)
    contribs = []
    for g in sorted(scope, key=lambda x: x.qualname):
        if 'sdss_flagval' not in scope[g]:
            continue
        fa_g = up.fa(g)
        for n in [g.node]:
            v = n
            for x in walk_local(v):
                if isinstance(x, ast.BinOp) and isinstance(x.op, (ast.Pow, ast.LShift)) and try_fold(x.left, resolver=fa_g.resolve) in (1, 2):
                    base = try_fold(x.left, resolver=fa_g.resolve)
                    want = 2 if isinstance(x.op, ast.Pow) else 1
                    stored = any(isinstance(s, ast.Subscript) and CACHE in src(s) for s in ast.walk(x.right))
                    contribs.append(x)
                    ctx.check('C07.SCAN64', base == want and stored, g, x, '%s contributes 2**(stored bit): %s' % (g.qualname, src(x)),
                              msg='%s contributes %s, expected 2**bit of the stored bit' % (g.qualname, src(x)), construct='contribution ' + src(x))
                    for side in (x.left, x.right):
                        ctx.check('C07.U64', is_u64(side, fa_g), g, side, '%s: operand `%s` is numpy uint64' % (g.qualname, src(side)[:50]),
                                  msg='%s: operand `%s` of the 2**bit term is not numpy uint64 (bit 63 is lost in a signed or float intermediate)'
                                      % (g.qualname, src(side)[:50]), construct='non-uint64 operand ' + src(side)[:60])
    ctx.need(contribs, 'sdss_flagval: the 2**bit contribution was not found')
    # accumulator starts at uint64(0)
    # ---- set_maskbits: ACCUM and ALIAS
    fa_s = FA(f_set)
    stores = []
    for st in walk_local(f_set.node):
        if isinstance(st, ast.Assign):
            for t in st.targets:
                if isinstance(t, ast.Subscript) and isinstance(t.value, ast.Name) and t.value.id == CACHE:
                    stores.append((st, t))
    ctx.need(stores, 'set_maskbits: no store into the maskbits dict found')
    alias_stores = [(st, t) for st, t in stores if 'alias' in src(t.slice).lower() or 'MASKALIAS' in src(st)]
    row_stores = [(st, t) for st, t in stores if (st, t) not in alias_stores]
    ctx.need(row_stores, 'set_maskbits: group creation store not found')
    for st, t in row_stores:
        key = src(t.slice)
        guarded = False
        child = st
        for a in ancestors(st):
            if isinstance(a, ast.If):
                in_else = any(child is b or child in list(ast.walk(b)) for b in a.orelse)
                in_body = any(child is b or child in list(ast.walk(b)) for b in a.body)
                if in_else and membership(a.test, key, CACHE):
                    guarded = True
                if in_body and any(isinstance(c, ast.Compare) and isinstance(c.ops[0], ast.NotIn) and src(c.left) == key
                                   and src(c.comparators[0]) == CACHE for c in ast.walk(a.test)):
                    guarded = True
            child = a
        inloop = any(isinstance(a, (ast.For, ast.While)) for a in ancestors(st))
        ctx.check('C07.ACCUM', guarded or not inloop, f_set, st,
                  'set_maskbits: a group dict is created only when the group is not yet present; later rows extend it',
                  msg='set_maskbits assigns maskbits[%s] inside the rows loop without testing that the group is new: rows of a group '
                      'that are not contiguous in the file replace the labels read earlier' % key,
                  construct='unguarded group store: ' + src(st)[:90])
    ctx.need(alias_stores, 'set_maskbits: alias store not found')
    # alias loop after the rows loop, value copied from maskbits[...]
    def top_stmt(n):
        cur = n
        while getattr(cur, '_parent', None) is not f_set.node:
            cur = cur._parent
        return cur
    body = f_set.node.body
    last_row = max(body.index(top_stmt(st)) for st, t in row_stores)
    for st, t in alias_stores:
        after = body.index(top_stmt(st)) > last_row
        v = st.value
        copied = isinstance(v, ast.Call) and ((call_name(v) == 'copy' and CACHE in src(v.func)) or (call_name(v) in ('dict',) and v.args and CACHE in src(v.args[0])))
        ctx.check('C07.ALIAS', after and copied, f_set, st,
                  'alias entry is a copy of the aliased group dict, built after every MASKBITS row has been processed',
                  msg='alias entries are not built from a copy of the completed group dict after all rows (an alias must behave like its group)',
                  construct='alias store: ' + src(st)[:90])
    # ---- CASEFOLD-STORE: the readers fold the query with upper(); the writer of the cache must fold the stored keys the same way
    def folded(e):
        if isinstance(e, ast.Call) and call_name(e) == 'upper':
            return True
        if isinstance(e, ast.Name):
            ds = fa_s.defs(e)
            return bool(ds) and all(v is not None and folded(v) for d, v in ds)
        return False
    keys = []
    for st, t in stores:
        keys.append((st, t.slice, 'group key'))
        v = st.value
        if isinstance(v, ast.Dict):
            for k_ in v.keys:
                if k_ is not None:
                    keys.append((st, k_, 'label key'))
        if isinstance(v, ast.Call) and call_name(v) == 'copy':
            for x in ast.walk(v.func):
                if isinstance(x, ast.Subscript) and isinstance(x.value, ast.Name) and x.value.id == CACHE:
                    keys.append((st, x.slice, 'aliased group key'))
    for st in walk_local(f_set.node):
        if isinstance(st, ast.Assign):
            for t in st.targets:
                if isinstance(t, ast.Subscript) and isinstance(t.value, ast.Subscript) and isinstance(t.value.value, ast.Name) and t.value.value.id == CACHE:
                    keys.append((st, t.value.slice, 'group key'))
                    keys.append((st, t.slice, 'label key'))
        elif isinstance(st, ast.Compare) and len(st.ops) == 1 and isinstance(st.ops[0], (ast.In, ast.NotIn)) \
                and isinstance(st.comparators[0], ast.Name) and st.comparators[0].id == CACHE:
            keys.append((st, st.left, 'group membership test'))
    ctx.need(len(keys) >= 4, 'set_maskbits: keys stored into the cache not found')
    for st, k_, what in keys:
        ctx.check('C07.CASEFOLD-STORE', folded(k_), f_set, k_, 'set_maskbits: %s `%s` is upper-cased like every query' % (what, src(k_)[:50]),
                  msg='set_maskbits stores the %s `%s` as spelled in the file while every lookup upper-cases the query: a group, alias or label '
                      'that is not all upper case in the file can never be found, under any spelling' % (what, src(k_)[:60]),
                  construct='%s not folded: %s' % (what, src(k_)[:70]))
    # ---- WRAP: only a str is a single label
    wraps = [n for n in walk_local(f_val.node) if isinstance(n, ast.If) and any(isinstance(c, ast.Call) and call_name(c) == 'isinstance' for c in ast.walk(n.test))]
    ctx.need(wraps, 'sdss_flagval: the single-label test was not found')
    w = wraps[0]
    t_ = w.test
    neg = False
    while isinstance(t_, ast.UnaryOp) and isinstance(t_.op, ast.Not):
        neg = not neg
        t_ = t_.operand
    okw = False
    if isinstance(t_, ast.Call) and call_name(t_) == 'isinstance' and len(t_.args) == 2:
        typ = t_.args[1]
        names = {dotted(e) for e in (typ.elts if isinstance(typ, ast.Tuple) else [typ])}
        okw = (not neg) and names <= {'str', 'bytes', 'np.str_', 'np.bytes_'} and 'str' in names
    ctx.check('C07.WRAP', okw, f_val, w.test, 'a single label is recognised by being a str (`%s`); every other collection is iterated' % src(w.test),
              msg='sdss_flagval decides "single label" by `%s`: a tuple, set or array of labels is wrapped as if it were one label' % src(w.test),
              construct='single-label test: ' + src(w.test))
    # ---- NO-MEMO
    for g in sorted(scope, key=lambda x: x.qualname):
        decos = [src(d) for d in g.node.decorator_list]
        memo = [d for d in decos if any(w in d for w in ('lru_cache', 'cache', 'memo'))]
        ctx.check('C07.NO-MEMO', not memo, g, g.node, '%s reads the reconfigurable cache and is not memoised' % g.qualname,
                  msg='%s reads the module cache maskbits but is memoised by %s: after set_maskbits() configures another file the '
                      'remembered values are stale' % (g.qualname, memo), construct='memoised reader of maskbits: %s' % g.qualname)


def fa_n_is_scan_elem(x, fa, scan_name):
    """Name x is the loop / comprehension variable iterating the scanned bit list."""
    for a in ancestors(x):
        if isinstance(a, ast.For) and isinstance(a.target, ast.Name) and a.target.id == x.id and isinstance(a.iter, ast.Name) \
                and a.iter.id == scan_name:
            return True
        if isinstance(a, (ast.ListComp, ast.GeneratorExp)):
            for g in a.generators:
                if isinstance(g.target, ast.Name) and g.target.id == x.id and isinstance(g.iter, ast.Name) and g.iter.id == scan_name:
                    return True
    return False

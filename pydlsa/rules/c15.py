"""C15 -- least-squares and factorisation solvers return the optimum they claim."""

import ast

from .. import AnalysisError
from ..astutil import src, call_name, dotted, walk_local, try_fold, ancestors, path_conditions
from ..fn import FA, expand
from ..normal import canon_expr

META = {
    'property': 'C15',
    'title': 'Least-squares and factorisation solvers return the optimum they claim',
    'technique': 'effect analysis of in-place writes to constructor arguments with path conditions, dominance of the seeding '
                 'statement over every stochastic call, shared-permutation check on eigenpairs, purity of lazy properties',
    'explanation': (
        'Decided: C15.HMF-IMMUT - in class HMF, in-place writes into the arrays passed to the constructor (spectra, invvar) occur '
        'only on paths on which self.nonnegative is true (rebinding self.spectra = self.spectra[:, goodcol] is not a write); C15.SEED - '
        'in HMF.iterate NumPy\'s generator is seeded under the test `self.seed is not None` (a truthiness test would ignore seed 0) and '
        'the seeding dominates every stochastic call (kmeans, np.random.*); C15.EIG-ALIGN - in pcomp eigenvalues and eigenvector '
        'columns are re-indexed by the same permutation, which is a reversed argsort of the eigenvalues (descending, pairs matched); '
        'C15.COV - the decomposed matrix is np.cov / np.corrcoef of the (standardised) data over columns, i.e. mean-centred; '
        'C15.PURE-PROPS - the lazy properties of computechi2 and pcomp neither assign attributes nor write in place into attribute '
        'arrays (reading them in any order gives the same values); C15.PINV - computechi2 forms the pseudo-inverse from every singular value, with no absolute cut-off; C15.SYNW - the synthetic weights of pca_solve never become 0 for a pixel masked in every spectrum; C15.USEMASK - pca_solve returns outmask.sum(0), the count of good '
        'spectra per pixel. C15.DOF - degrees of freedom count sqivar > 0 minus nstar; C15.NORM - normbase takes the rms over the current length of self.g. C15.CHI2-RESID - computechi2.chi2 is formed from the residual vector (difference, square, sum), not by a cancelling normal-equation shortcut; C15.FLOAT-OUT - an array computechi2 allocates for weighted templates is not given the dtype of the templates themselves (no instance while the product is one promoted expression); NOT decided: every optimality, monotonicity, normalisation and projection statement (numerical).'),
    'floors': {'C15.CHI2-RESID': 1, 'C15.DOF': 1, 'C15.NORM': 1, 'C15.HMF-IMMUT': 2, 'C15.SEED': 2, 'C15.EIG-ALIGN': 2, 'C15.COV': 2, 'C15.PURE-PROPS': 10, 'C15.USEMASK': 1, 'C15.PINV': 2, 'C15.SYNW': 1},
}

SPEC1D = 'pydl/pydlspec2d/spec1d.py'
MATH = 'pydl/pydlutils/math.py'
PCOMP = 'pydl/pcomp.py'


def methods_of(repo, rel, cls):
    m = repo.module(rel)
    return {q.split('.', 1)[1]: f for q, f in m.funcs.items() if q.startswith(cls + '.') and q.count('.') == 1}


def base_of(t):
    b = t
    while isinstance(b, (ast.Subscript,)):
        b = b.value
    return b


def check_hmf(ctx, repo):
    ms = methods_of(repo, SPEC1D, 'HMF')
    ctx.need('iterate' in ms and '__init__' in ms, 'class HMF not found')
    init = ms['__init__']
    arg_attrs = set()
    for st in walk_local(init.node):
        if isinstance(st, ast.Assign) and isinstance(st.targets[0], ast.Attribute) and src(st.targets[0].value) == 'self' \
                and isinstance(st.value, ast.Name) and st.value.id in ('spectra', 'invvar'):
            arg_attrs.add(st.targets[0].attr)
    ctx.need(arg_attrs == {'spectra', 'invvar'}, 'HMF.__init__ no longer stores spectra/invvar as given')
    n = 0
    for name, f in sorted(ms.items()):
        ctx.cover(f)
        # has self.<attr> been rebound (to a fresh gather) before this point in this method?  conservatively: no
        for st in walk_local(f.node):
            tg = []
            if isinstance(st, ast.Assign):
                tg = [t for t in st.targets if isinstance(t, ast.Subscript)]
            elif isinstance(st, ast.AugAssign):
                tg = [st.target]
            for t in tg:
                b = base_of(t)
                if isinstance(b, ast.Attribute) and src(b.value) == 'self' and b.attr in arg_attrs:
                    n += 1
                    guarded = any(isinstance(a, ast.If) and src(a.test) == 'self.nonnegative' and any(st is x or st in list(ast.walk(x)) for x in a.body)
                                  for a in ancestors(st))
                    ctx.check('C15.HMF-IMMUT', guarded, f, st, 'HMF.%s: in-place write `%s` happens only under self.nonnegative' % (name, src(st)[:50]),
                              msg='HMF.%s writes `%s` into the caller\'s array outside the non-negative mode: in the default mode the caller\'s data are modified'
                                  % (name, src(st)[:60]), construct='in-place write to constructor argument: ' + src(st)[:60])
            # in-place methods / out= on the argument arrays
            if isinstance(st, ast.Expr) and isinstance(st.value, ast.Call) and isinstance(st.value.func, ast.Attribute) \
                    and st.value.func.attr in ('fill', 'sort', 'put', 'clip') and isinstance(st.value.func.value, ast.Attribute) \
                    and st.value.func.value.attr in arg_attrs:
                n += 1
                ctx.fail('C15.HMF-IMMUT', f, st, st, 'HMF.%s modifies a constructor argument in place' % name)
    return n


def check_seed(ctx, repo):
    f = repo.func(SPEC1D, 'HMF.iterate')
    fa = FA(f)
    seeds = [c for c in walk_local(f.node) if isinstance(c, ast.Call) and (dotted(c.func) or '').endswith('random.seed')]
    if not seeds:
        stoch0 = [c for c in walk_local(f.node) if isinstance(c, ast.Call) and (call_name(c) in ('kmeans', 'kmeans2') or
                                                                            'random.' in (dotted(c.func) or ''))]
        ctx.need(stoch0, 'HMF.iterate: neither a seeding call nor a stochastic call found')
        for c in stoch0:
            ctx.check('C15.SEED', False, f, c, '',
                      msg='HMF.iterate draws from numpy\'s global generator (`%s`) without seeding it in the same call: whatever else used the generator since the '
                          'object was made (or a second iterate() / solve()) changes the result, so a fixed seed no longer gives identical results' % src(c)[:50],
                      construct='stochastic call without seeding in iterate: ' + src(c)[:50])
        return
    for c in seeds:
        st = c
        while not isinstance(st, ast.stmt):
            st = st._parent
        par = st._parent
        ok = isinstance(par, ast.If) and src(par.test) in ('self.seed is not None', 'not self.seed is None') and src(c.args[0]) == 'self.seed'
        ctx.check('C15.SEED', ok, f, par if isinstance(par, ast.If) else st, 'the generator is seeded with self.seed whenever self.seed is not None',
                  msg='the generator is seeded under `%s`: a truthiness test skips seed 0 (and other falsy seeds), so a fixed seed no longer gives identical '
                      'results' % (src(par.test) if isinstance(par, ast.If) else 'no test'), construct='seed guard: ' + (src(par.test) if isinstance(par, ast.If) else 'none'))
    stoch = [c for c in walk_local(f.node) if isinstance(c, ast.Call) and (call_name(c) in ('kmeans', 'kmeans2') or
                                                                         ('random.' in (dotted(c.func) or '') and not (dotted(c.func) or '').endswith('random.seed')))]
    ctx.need(stoch, 'HMF.iterate: stochastic call (kmeans) not found')
    gif = seeds[0]
    while not isinstance(gif, ast.If):
        gif = gif._parent
    for c in stoch:
        ok = fa.dominates(gif, c)
        ctx.check('C15.SEED', ok, f, c, 'the seeding block dominates the stochastic call `%s`' % src(c)[:40],
                  msg='`%s` can run before / without the seeding block' % src(c)[:50], construct='unseeded stochastic call ' + src(c)[:50])


def check_pcomp(ctx, repo):
    f = repo.func(PCOMP, 'pcomp.__init__')
    fa = FA(f)
    ctx.cover(f)
    perm = [st for st in walk_local(f.node) if isinstance(st, ast.Assign) and isinstance(st.targets[0], ast.Name) and 'argsort' in src(st.value)]
    ctx.need(len(perm) == 1, 'pcomp: eigenvalue sort permutation not found')
    p = perm[0].targets[0].id
    ok = src(perm[0].value) in ('evals.argsort()[::-1]', 'np.argsort(evals)[::-1]', 'np.argsort(-evals)', '(-evals).argsort()')
    ctx.check('C15.EIG-ALIGN', ok, f, perm[0], 'permutation is the reversed argsort of the eigenvalues (descending order)',
              msg='the eigenvalue permutation is `%s`, not a descending argsort of the eigenvalues' % src(perm[0].value), construct='eigen permutation ' + src(perm[0].value))
    ev = [st for st in walk_local(f.node) if isinstance(st, ast.Assign) and src(st.targets[0]) == 'self._evals']
    ec = [st for st in walk_local(f.node) if isinstance(st, ast.Assign) and src(st.targets[0]) == 'self._evecs']
    ok = len(ev) == 1 and len(ec) == 1 and src(ev[0].value) == 'evals[%s]' % p and src(ec[0].value) == 'evecs[:, %s]' % p
    ctx.check('C15.EIG-ALIGN', ok, f, ec[0] if ec else f.node, 'eigenvalues and eigenvector columns are re-indexed by the same permutation %s' % p,
              msg='eigenvalues (%s) and eigenvectors (%s) are not re-indexed by the same permutation along matching axes'
                  % (src(ev[0].value) if ev else '?', src(ec[0].value) if ec else '?'), construct='eigenpair alignment')
    cs = [st for st in walk_local(f.node) if isinstance(st, ast.Assign) and src(st.targets[0]) == 'self._c']
    ctx.need(len(cs) == 2, 'pcomp: covariance / correlation definitions not found')
    for st in cs:
        v = st.value
        under = [src(a.test) for a in ancestors(st) if isinstance(a, ast.If)]
        want = 'cov' if any(st in a.body for a in ancestors(st) if isinstance(a, ast.If)) else 'corrcoef'
        ok = isinstance(v, ast.Call) and call_name(v) == want and src(v.args[0]) == 'self._array' and \
            any(k.arg == 'rowvar' and try_fold(k.value) in (0, False) for k in v.keywords)
        centred = ok or '.mean(' in src(v)
        ctx.check('C15.COV', ok or centred, f, st, 'the decomposed matrix is np.%s(self._array, rowvar=0) (mean-centred over observations)' % want,
                  msg='the %s matrix is computed as `%s`: without subtracting the column means it is a second-moment matrix, and its components do not '
                      'reproduce the covariance of uncentred data' % ('covariance' if want == 'cov' else 'correlation', src(v)[:70]),
                  construct='%s matrix: %s' % (want, src(v)[:70]))


def check_pure_props(ctx, repo):
    n = 0
    for rel, cls in ((MATH, 'computechi2'), (PCOMP, 'pcomp')):
        for name, f in sorted(methods_of(repo, rel, cls).items()):
            decos = [src(d) for d in f.node.decorator_list]
            if not any('lazyproperty' in d or d == 'property' for d in decos):
                continue
            fa = FA(f)
            ctx.cover(f)
            bad = []
            for st in walk_local(f.node):
                tg = []
                if isinstance(st, ast.Assign):
                    tg = st.targets
                elif isinstance(st, ast.AugAssign):
                    tg = [st.target]
                for t in tg:
                    b = base_of(t)
                    if isinstance(b, ast.Attribute) and src(b.value) == 'self':
                        bad.append((st, 'assigns / writes self.%s' % b.attr))
                    elif isinstance(t, ast.Subscript) or isinstance(st, ast.AugAssign):
                        if isinstance(b, ast.Name):
                            for d, v in fa.rd.reaching(b.id, st):
                                if v is not None and isinstance(v, ast.Attribute) and src(v.value) == 'self':
                                    bad.append((st, 'writes in place through `%s`, an alias of self.%s' % (b.id, v.attr)))
                                elif v is not None and isinstance(v, ast.Call) and call_name(v) in ('ravel', 'reshape', 'view', 'asarray') \
                                        and 'self.' in src(v):
                                    bad.append((st, 'writes in place through a view of an attribute (%s)' % src(v)[:30]))
            n += 1
            ctx.check('C15.PURE-PROPS', not bad, f, bad[0][0] if bad else f.node, '%s.%s is pure (no attribute assignment, no in-place write into attribute arrays)' % (cls, name),
                      msg='lazy property %s.%s %s (`%s`): the values of the other properties then depend on the order in which they are read'
                          % (cls, name, bad[0][1] if bad else '', src(bad[0][0])[:50] if bad else ''), construct='%s.%s: %s' % (cls, name, bad[0][1] if bad else ''))
        # attributes the lazy properties read must be set eagerly in __init__ (not themselves lazy with side effects)
    return n


def _sum0(e):
    """M when e is M.sum(0) / M.sum(axis=0) / np.sum(M, 0) / np.sum(M, axis=0)."""
    if not (isinstance(e, ast.Call) and call_name(e) == 'sum' and isinstance(e.func, ast.Attribute)):
        return None
    args = list(e.args)
    if isinstance(e.func.value, ast.Name) and e.func.value.id in ('np', 'numpy'):
        if not args:
            return None
        recv, args = args[0], args[1:]
    else:
        recv = e.func.value
    ax = [try_fold(k.value) for k in e.keywords if k.arg == 'axis'] or [try_fold(a) for a in args[:1]]
    return recv if ax == [0] else None


def check_usemask(ctx, repo):
    f = repo.func(SPEC1D, 'pca_solve')
    fa = FA(f)
    ctx.cover(f)

    def stored(key):
        out = []
        for s_ in walk_local(f.node):
            if isinstance(s_, ast.Assign) and len(s_.targets) == 1 and isinstance(s_.targets[0], ast.Subscript) and try_fold(s_.targets[0].slice) == key:
                out.append((s_, s_.value))
            if isinstance(s_, ast.Dict):
                for k, v in zip(s_.keys, s_.values):
                    if k is not None and try_fold(k) == key and any(isinstance(a, ast.Return) or isinstance(a, ast.Assign) for a in ancestors(s_)):
                        out.append((s_, v))
        return out
    um = stored('usemask')
    om = stored('outmask')
    ctx.need(len(um) == 1 and len(om) == 1 and isinstance(om[0][1], ast.Name), 'pca_solve: the usemask / outmask entries of the result were not found')
    mask = om[0][1].id

    def leaves(e, cond, depth=0):
        if depth > 4:
            return [(e, cond)]
        if isinstance(e, ast.IfExp):
            return leaves(e.body, cond + [(e.test, True)], depth + 1) + leaves(e.orelse, cond + [(e.test, False)], depth + 1)
        if isinstance(e, ast.Name) and e.id != mask:
            out = []
            for d, v in fa.defs(e):
                if v is None:
                    return [(e, cond)]
                out += leaves(v, cond + path_conditions(d), depth + 1)
            return out
        return [(e, cond)]

    def single(conds):
        """True when the conditions say 'exactly one spectrum' (nobj == 1, ndim == 1), False when they say the opposite, None otherwise."""
        for t, pol in conds:
            t = canon_expr(t)
            if isinstance(t, ast.Compare) and len(t.ops) == 1 and isinstance(t.ops[0], (ast.Eq, ast.NotEq)):
                sides = [t.left, t.comparators[0]]
                if any(try_fold(x) == 1 for x in sides) and any(not isinstance(x, ast.Constant) for x in sides):
                    return pol if isinstance(t.ops[0], ast.Eq) else not pol
        return None
    lv = leaves(um[0][1], [])
    kinds = []
    for e, cond in lv:
        m_ = _sum0(e)
        if isinstance(m_, ast.Name) and m_.id == mask:
            kinds.append(('count', single(cond)))
        elif isinstance(e, ast.Name) and e.id == mask:
            kinds.append(('mask', single(cond)))
        else:
            kinds.append(('other', single(cond)))
    ok = any(k == 'count' for k, _ in kinds) and all((k == 'count' and sg is not True) or (k == 'mask' and sg is True) for k, sg in kinds)
    forms = sorted(src(e) for e, _ in lv)
    ctx.check('C15.USEMASK', ok, f, um[0][0], 'usemask = outmask.sum(0): number of good spectra per pixel (outmask itself for a single spectrum)',
              msg='usemask is defined as %s' % forms, construct='usemask %s' % forms)


def check_pinv(ctx, repo):
    f = repo.func(MATH, 'computechi2.__init__')
    ctx.cover(f)
    bad = []
    for c in walk_local(f.node):
        if isinstance(c, ast.Compare) and 'ww' in src(c.left) + src(c.comparators[0]):
            other = c.comparators[0] if 'ww' in src(c.left) else c.left
            v = try_fold(other)
            if 'finfo' in src(other) or 'eps' in src(other).lower() or (isinstance(v, float) and 0 < abs(v) < 1e-3):
                if '.max()' not in src(c) and 'max(' not in src(c):
                    bad.append(c)
    ctx.check('C15.PINV', not bad, f, bad[0] if bad else f.node, 'the pseudo-inverse uses every singular value (no absolute cut-off)',
              msg='singular values are discarded below an absolute threshold (`%s`): a full-rank system whose weighted matrix is globally small is treated as '
                  'singular and the coefficients come back zero' % (src(bad[0]) if bad else ''), construct='absolute singular-value cut-off')
    mm = [st for st in walk_local(f.node) if isinstance(st, ast.Assign) and src(st.targets[0]) == 'self.mmi']
    ctx.check('C15.PINV', len(mm) == 1 and 'self.vv.T' in src(mm[0].value) and 'self.uu.T' in src(mm[0].value) and 'ww' in src(mm[0].value) + ''.join(
        src(v) for n in ast.walk(mm[0].value) if isinstance(n, ast.Name) for d, v in FA(f).defs(n) if v is not None), f, mm[0] if mm else f.node,
        'mmi = V^T diag(1/w) U^T is formed eagerly in the constructor', msg='the pseudo-inverse is not formed as V^T / w . U^T in the constructor', construct='mmi')


def check_synw(ctx, repo):
    f = repo.func(SPEC1D, 'pca_solve')
    fa = FA(f)
    ds = [st for st in walk_local(f.node) if isinstance(st, ast.Assign) and src(st.targets[0]).startswith('synwvec')]
    ctx.need(ds, 'pca_solve: synthetic weight vector not found')
    init = [st for st in ds if src(st.targets[0]) == 'synwvec']
    stores = [st for st in ds if st not in init]
    if len(init) == 1 and isinstance(init[0].value, ast.Call) and call_name(init[0].value) == 'ones':
        guarded = all(isinstance(st._parent, ast.If) and '.any()' in src(st._parent.test) for st in stores)
        ctx.check('C15.SYNW', guarded and bool(stores), f, stores[0] if stores else init[0],
                  'synthetic weights start at 1 and are replaced only where some spectrum has weight (never 0 for a pixel masked everywhere)',
                  msg='a synthetic weight is overwritten without testing that some spectrum has weight there', construct='synwvec stores')
    elif any('where(' in src(st.value) for st in init):
        ctx.ok('C15.SYNW', f, init[0], 'synthetic weights use an explicit np.where fallback')
    else:
        raise AnalysisError('C15: pca_solve builds the synthetic weight vector as `%s`: whether a pixel masked in every spectrum keeps a non-zero weight '
                            'cannot be judged from this form' % src(init[0].value)[:60])


def check_dof_norm(ctx, repo):
    """C15.DOF: degrees of freedom count the points with a POSITIVE weight; C15.NORM: a component's rms is taken over its own,
    current length."""
    f = repo.func(MATH, 'computechi2.dof')
    ctx.cover(f)
    rets = [r for r in walk_local(f.node) if isinstance(r, ast.Return) and r.value is not None]
    ctx.need(rets, 'computechi2.dof: return not found')
    cmps = [c for c in ast.walk(rets[0].value) if isinstance(c, ast.Compare) and 'sqivar' in src(c)]
    ok = len(cmps) == 1 and ((isinstance(cmps[0].ops[0], ast.Gt) and try_fold(cmps[0].comparators[0]) == 0 and 'sqivar' in src(cmps[0].left)) or
                             (isinstance(cmps[0].ops[0], ast.Lt) and try_fold(cmps[0].left) == 0) or
                             (isinstance(cmps[0].ops[0], ast.NotEq) and try_fold(cmps[0].comparators[0]) == 0))
    ctx.check('C15.DOF', ok and 'nstar' in src(rets[0].value), f, rets[0], 'dof = #(sqivar > 0) - nstar', 
              msg='dof is `%s`: points with zero weight are counted as data (or the parameter count is not subtracted)' % src(rets[0].value)[:70],
              construct='dof ' + src(rets[0].value)[:70])
    g = repo.func(SPEC1D, 'HMF.normbase')
    ctx.cover(g)
    rets = [r for r in walk_local(g.node) if isinstance(r, ast.Return) and r.value is not None]
    ctx.need(rets, 'HMF.normbase: return not found')
    v = rets[0].value
    own = any(isinstance(c, ast.Call) and call_name(c) == 'mean' and 'self.g' in src(c) for c in ast.walk(v)) or \
        any(isinstance(b, ast.BinOp) and isinstance(b.op, ast.Div) and 'self.g.shape' in src(b.right) for b in ast.walk(v)) or \
        any(isinstance(c, ast.Call) and call_name(c) in ('std', 'var') and 'self.g' in src(c) for c in ast.walk(v))
    ctx.check('C15.NORM', own, g, rets[0], 'the rms of a component is taken over the current length of self.g (%s)' % src(v)[:60],
              msg='normbase divides by a stored size (`%s`) instead of the current length of self.g: iterate() trims zero-weight columns, after which '
                  'the components are no longer normalised to unit rms' % src(v)[:70], construct='normbase ' + src(v)[:70])


def check_chi2_resid(ctx, repo):
    """C15.CHI2-RESID: chi2 is the squared length of the residual vector (M a - b), formed as a difference of the two vectors and then
    squared and summed.  The normal-equation shortcut |b|^2 - a.(M^T b) is the same number in exact arithmetic only: it subtracts two
    large nearly equal quantities, so for a good fit the returned chi-square is rounding noise (possibly negative)."""
    f = repo.func(MATH, 'computechi2.chi2')
    fa = FA(f)
    ctx.cover(f)
    rets = [r for r in fa.returns() if r.value is not None]
    ctx.need(len(rets) == 1, 'computechi2.chi2: single return expected')
    e = expand(rets[0].value, fa, depth=5, calls=True)

    def mentions(x, attr):
        return any(isinstance(y, ast.Attribute) and y.attr == attr for y in ast.walk(x))
    resid = [x for x in ast.walk(e) if isinstance(x, ast.BinOp) and isinstance(x.op, ast.Sub) and (
        (mentions(x.left, 'bvec') and (mentions(x.right, 'mmatrix') or mentions(x.right, 'yfit') or mentions(x.right, 'amatrix'))) or
        (mentions(x.right, 'bvec') and (mentions(x.left, 'mmatrix') or mentions(x.left, 'yfit') or mentions(x.left, 'amatrix'))))
        and not any(isinstance(y, ast.Call) and call_name(y) == 'dot' and (mentions(y, 'bvec') and not mentions(y, 'mmatrix') and not mentions(y, 'amatrix'))
                    for y in [x.left, x.right])]
    squared = False
    for r in resid:
        p_ = getattr(r, '_parent', None)
        for a in [p_] + list(ancestors(r)) if p_ is not None else []:
            if isinstance(a, ast.BinOp) and isinstance(a.op, ast.Pow) and try_fold(a.right) == 2:
                squared = True
            if isinstance(a, ast.Call) and call_name(a) in ('dot', 'vdot', 'inner', 'norm', 'square'):
                squared = True
    # the expansion is a fresh tree without parent links: look structurally instead
    if resid and not squared:
        for a in ast.walk(e):
            if isinstance(a, ast.BinOp) and isinstance(a.op, ast.Pow) and try_fold(a.right) == 2 and any(a.left is r or r in list(ast.walk(a.left)) for r in resid):
                squared = True
            if isinstance(a, ast.Call) and call_name(a) in ('dot', 'vdot', 'inner', 'norm', 'square') and any(r in list(ast.walk(a)) for r in resid):
                squared = True
    ctx.check('C15.CHI2-RESID', bool(resid) and squared, f, rets[0], 'chi2 is the squared length of the residual vector (model minus data, squared, summed)',
              msg='computechi2.chi2 is `%s`: not the squared length of a residual vector; a form like |b|^2 - a.(M^T b) cancels two large nearly equal '
                  'numbers, so the chi-square of a good fit is rounding noise and can be negative' % src(rets[0].value)[:80], construct='chi2 formula ' + src(rets[0].value)[:60])


def run(ctx):
    from ..memo import check_memo_keys
    from .floatlib import check_float_alloc
    # C15.FLOAT-OUT: the weighted design matrix of computechi2 is not allocated in the dtype of the templates (zero instances while it is
    # built by one arithmetic expression, which NumPy promotes)
    check_float_alloc(ctx, ctx.repo, 'C15.FLOAT-OUT', [(MATH, 'computechi2.__init__')],
                      'integer (or single-precision) templates give truncated weighted templates, and with them wrong coefficients, fit and chi-square')
    check_chi2_resid(ctx, ctx.repo)
    check_memo_keys(ctx, ctx.repo, SPEC1D, 'HMF', 'C15.MEMO-KEY')
    check_dof_norm(ctx, ctx.repo)
    check_pinv(ctx, ctx.repo)
    check_synw(ctx, ctx.repo)
    n = check_hmf(ctx, ctx.repo)
    ctx.need(n >= 2, 'HMF: expected guarded in-place writes not found')
    check_seed(ctx, ctx.repo)
    check_pcomp(ctx, ctx.repo)
    check_pure_props(ctx, ctx.repo)
    check_usemask(ctx, ctx.repo)

"""C11 -- combine1fiber resamples spectra: finite flux, conservative inverse variance."""

import ast

from .. import AnalysisError
from ..astutil import src, call_name, dotted, walk_local, try_fold, ancestors
from ..fn import FA
from ..poly import poly_of, NotPoly, Poly

META = {
    'property': 'C11',
    'title': 'combine1fiber resamples spectra: finite flux, conservative inverse variance',
    'technique': 'integer-signedness inference on bitwise operands, contradiction rule on unguarded aggregates over '
                 'boolean selections, post-dominance of the NaN scrub, per-exposure range dataflow, affine form of the redshift shift',
    'explanation': (
        'Decided (pydl/pydlspec2d/spec2d.py combine1fiber, aesthetics; spec1d.py preprocess_spectra): C11.DTYPE-MIX - no '
        'bitwise operator combines a signed integer array allocated in the function with a numpy uint64 scalar (sdss_flagval) '
        'without an explicit conversion (under NumPy 2 this raises TypeError, so the function would not return at all); '
        'C11.NONE-DEREF - the optional objivar (default None) is dereferenced only on paths where it is known not to be None (may-be-None dataflow with branch refinement); C11.EMPTY-AGG - an aggregate (mean/min/max/median) over A[M] with M a comparison-derived boolean mask, or over '
        'E.nonzero()[0], is dominated by a non-emptiness test of that selection (else NaN flux or ValueError); C11.SCRUB - the '
        'isfinite scrub of (newflux, newivar) follows every spline/interpolation write to them and afterwards flux is only '
        'rewritten by aesthetics(); the no-good-pixel exit returns the zero-initialised arrays; C11.PER-EXPOSURE - the output '
        'pixels that receive inverse variance from exposure j are those between that exposure\'s own minimum and maximum '
        'wavelength; C11.SCALE-FREE - no decision inside combine1fiber compares a flux-scaled quantity with an absolute tolerance or identifies two grids by a tolerance test, and the inverse-variance interpolation runs for every overlapping exposure; C11.ZSHIFT - in preprocess_spectra the wavelength argument of combine1fiber is rowloglam - logshift[iobj] '
        'with logshift = log10(1 + zfit), computed afresh for every object (no in-place accumulation). C11.SCALE-FREE also: no inverse-variance-scaled quantity is compared with an absolute tolerance, and the rejection fit never receives synthetic unit weights when objivar is None; C11.BMASK-KIND - `~bmask` is reached only by the boolean mask of a fit (float masks of unfitted groups are excluded through the correlated fact sset is None). C11.INTERP-AXES - every np.interp of combine1fiber takes output log-wavelengths as points and input log-wavelengths as abscissae; NOT decided: ivar >= 0, '
        'exact zeros outside good neighbours, identity on the same grid, scaling laws, interpolation bound (numerical).'),
    'floors': {'C11.INTERP-AXES': 2, 'C11.BMASK-KIND': 1, 'C11.DTYPE-MIX': 5, 'C11.EMPTY-AGG': 6, 'C11.SCRUB': 4, 'C11.PER-EXPOSURE': 1, 'C11.ZSHIFT': 2, 'C11.SCALE-FREE': 4, 'C11.NONE-DEREF': 1},
    'trusted_base': ['NumPy 2 (NEP 50): a signed integer array and a numpy.uint64 scalar have no common integer type for bitwise ufuncs'],
}

SPEC2D = 'pydl/pydlspec2d/spec2d.py'
SPEC1D = 'pydl/pydlspec2d/spec1d.py'
SIGNED = {'i1', 'i2', 'i4', 'i8', 'int8', 'int16', 'int32', 'int64', 'int', '<i4', '<i8', '<i2'}
CONVERTERS = {'astype', 'type', 'int', 'int8', 'int16', 'int32', 'int64', 'asarray'}


def int_kind(e, fa, depth=0):
    """'signed' (array allocated here with a signed dtype) | 'u64' (numpy uint64 scalar) | 'conv' (explicitly converted) | None."""
    if depth > 6:
        return None
    if isinstance(e, ast.Call):
        nm = call_name(e)
        if nm == 'sdss_flagval':
            return 'u64'
        if nm == 'uint64':
            return 'u64'
        if nm in CONVERTERS:
            return 'conv'
        if nm in ('zeros', 'ones', 'empty', 'full', 'array', 'zeros_like'):
            for k in e.keywords:
                if k.arg == 'dtype':
                    v = try_fold(k.value)
                    d = (dotted(k.value) or '').split('.')[-1]
                    if (isinstance(v, str) and v in SIGNED) or d in SIGNED:
                        return 'signed'
            return None
        return None
    if isinstance(e, ast.Subscript):
        k = int_kind(e.value, fa, depth + 1)
        return k if k == 'signed' else None
    if isinstance(e, ast.BinOp):
        a, b = int_kind(e.left, fa, depth + 1), int_kind(e.right, fa, depth + 1)
        if isinstance(e.op, (ast.BitOr, ast.BitAnd, ast.BitXor, ast.Mult, ast.Add)):
            if a == 'u64' and b == 'u64':
                return 'u64'
            if 'signed' in (a, b) and 'u64' not in (a, b):
                return 'signed' if a == b else None
        return None
    if isinstance(e, ast.Name):
        ds = [(d, v) for d, v in fa.defs(e) if d is not None]
        ks = set()
        for d, v in ds:
            if isinstance(d, ast.AugAssign):
                continue          # an augmented assignment keeps the kind of the plain definitions
            elif v is None:
                ks.add(None)
            else:
                ks.add(int_kind(v, fa, depth + 1))
        ks.discard('conv')
        if len(ks) == 1:
            return ks.pop()
        if ks == {'u64'}:
            return 'u64'
        return None
    return None


def check_dtype_mix(ctx, repo):
    f = repo.func(SPEC2D, 'combine1fiber')
    fa = FA(f)
    ctx.cover(f)
    n = 0
    for node in walk_local(f.node):
        pair = None
        if isinstance(node, ast.BinOp) and isinstance(node.op, (ast.BitOr, ast.BitAnd, ast.BitXor)):
            pair = (node.left, node.right, node)
        elif isinstance(node, ast.AugAssign) and isinstance(node.op, (ast.BitOr, ast.BitAnd, ast.BitXor)):
            pair = (node.target, node.value, node)
        if pair is None:
            continue
        a, b = int_kind(pair[0], fa), int_kind(pair[1], fa)
        if a is None and b is None:
            continue
        n += 1
        bad = {a, b} == {'signed', 'u64'}
        ctx.check('C11.DTYPE-MIX', not bad, f, node, 'bitwise `%s`: operand kinds (%s, %s)' % (src(node)[:60].replace('\n', ' '), a, b),
                  msg='`%s` combines a signed integer array allocated in combine1fiber with a numpy uint64 scalar without converting either '
                      'operand: under NumPy 2 this raises TypeError, so no result is returned at all' % src(node)[:80].replace('\n', ' '),
                  construct='signed | uint64: ' + src(node)[:80].replace('\n', ' '))
    return n


def selection_of(recv, fa, _depth=0):
    """Name of the selection a receiver aggregates over: A[M] with M comparison-derived, or X = E.nonzero()[0]."""
    if isinstance(recv, ast.Subscript):
        m = recv.slice
        neg = False
        if isinstance(m, ast.UnaryOp) and isinstance(m.op, ast.Invert):
            m = m.operand
            neg = True
        if isinstance(m, ast.Name):
            ds = [v for d, v in fa.defs(m) if v is not None]
            if ds and all(_is_boolean_expr(v) for v in ds):
                return m.id, neg
            if ds and all(src(v).replace(' ', '').endswith('.nonzero()[0]') for v in ds):
                return m.id, neg
        if isinstance(m, (ast.Compare,)) or _is_boolean_expr(m):
            return src(m), neg
    if isinstance(recv, ast.Name):
        ds = [v for d, v in fa.defs(recv) if v is not None]
        if ds and all(src(v).replace(' ', '').endswith('.nonzero()[0]') for v in ds):
            return recv.id, False
        if len(ds) == 1 and isinstance(ds[0], ast.Subscript) and _depth < 2:
            return selection_of(ds[0], fa, _depth + 1)           # good = A[M]; good.min()
    return None


def _is_boolean_expr(v):
    if isinstance(v, ast.Compare):
        return True
    if isinstance(v, ast.BinOp) and isinstance(v.op, (ast.BitAnd, ast.BitOr)):
        return _is_boolean_expr(v.left) and _is_boolean_expr(v.right)
    if isinstance(v, ast.UnaryOp) and isinstance(v.op, ast.Invert):
        return _is_boolean_expr(v.operand)
    return False


def nonempty_guard(node, sel, neg):
    """node is in the body of an If whose test establishes that the selection is non-empty."""
    child = node
    for a in ancestors(node):
        if isinstance(a, ast.If):
            inbody = any(child is b or child in list(ast.walk(b)) for b in a.body)
            if inbody:
                for t in ast.walk(a.test):
                    s = src(t).replace(' ', '')
                    if s in ('%s.any()' % sel, '%s.size>0' % sel, 'len(%s)>0' % sel, '%s.sum()>0' % sel, 'np.any(%s)' % sel,
                             '%s.size!=0' % sel, 'np.count_nonzero(%s)>0' % sel) and not neg:
                        return a
                    if neg and s in ('(~%s).any()' % sel, 'not%s.all()' % sel):
                        return a
        child = a
    return None


def check_empty_agg(ctx, repo):
    n = 0
    for q in ('aesthetics', 'combine1fiber'):
        f = repo.func(SPEC2D, q)
        fa = FA(f)
        ctx.cover(f)
        for c in walk_local(f.node):
            if not isinstance(c, ast.Call):
                continue
            nm = call_name(c)
            recv = None
            if nm in ('mean', 'min', 'max', 'median') and isinstance(c.func, ast.Attribute) and dotted(c.func.value) not in ('np', 'numpy'):
                recv = c.func.value
            elif nm in ('mean', 'amin', 'amax', 'median', 'nanmean', 'min', 'max') and isinstance(c.func, ast.Attribute) \
                    and dotted(c.func.value) in ('np', 'numpy') and c.args:
                recv = c.args[0]
            if recv is None:
                continue
            sel = selection_of(recv, fa)
            if sel is None:
                continue
            n += 1
            g = nonempty_guard(c, sel[0], sel[1])
            ctx.check('C11.EMPTY-AGG', g is not None, f, c,
                      '%s: `%s` is evaluated only when the selection `%s` is non-empty (guard line %s)' % (q, src(c)[:40], sel[0], g.lineno if g else '-'),
                      msg='%s: `%s` aggregates over the selection `%s` without testing that it is non-empty: with no good pixel the result is NaN '
                          '(mean) or a ValueError (min/max), so the output flux is not finite' % (q, src(c)[:50], sel[0]),
                      construct='unguarded aggregate %s over %s' % (src(c)[:50], sel[0]))
    return n


def check_scrub(ctx, repo):
    f = repo.func(SPEC2D, 'combine1fiber')
    fa = FA(f)
    # the scrub
    scrub = None
    for n in f.node.body:
        if isinstance(n, ast.If) and isinstance(n.test, ast.Call) and call_name(n.test) == 'any' and isinstance(n.test.func, ast.Attribute) \
                and isinstance(n.test.func.value, ast.Name):
            d = fa.resolve(n.test.func.value)
            if d is not None and src(d).count('isfinite') >= 2:
                scrub = (n, d, n.test.func.value.id)
    ctx.check('C11.SCRUB', scrub is not None, f, scrub[0] if scrub else f.node, 'a top-level isfinite scrub of flux and inverse variance exists',
              msg='combine1fiber no longer scrubs non-finite flux / inverse variance at top level', construct='scrub')
    if scrub is None:
        return
    sif, d, nm = scrub
    outs = [r for r in walk_local(f.node) if isinstance(r, ast.Return) and isinstance(r.value, ast.Tuple)]
    flux, ivar = src(outs[-1].value.elts[0]), src(outs[-1].value.elts[1])
    # the selection is `not finite(flux) or not finite(ivar)` in any spelling (De Morgan, logical_* forms): compared in canonical form
    from ..normal import canon_key
    wantd = {canon_key(ast.parse(t % (flux, ivar), mode='eval').body) for t in (
        '~np.isfinite(%s) | ~np.isfinite(%s)', '~(np.isfinite(%s) & np.isfinite(%s))', 'np.logical_not(np.isfinite(%s) & np.isfinite(%s))',
        'np.logical_or(~np.isfinite(%s), ~np.isfinite(%s))', '~np.logical_and(np.isfinite(%s), np.isfinite(%s))',
        'np.logical_not(np.logical_and(np.isfinite(%s), np.isfinite(%s)))', 'np.logical_or(np.logical_not(np.isfinite(%s)), np.logical_not(np.isfinite(%s)))')}
    okd = canon_key(d) in wantd
    stores = {src(st.targets[0].value): st for st in sif.body if isinstance(st, ast.Assign) and isinstance(st.targets[0], ast.Subscript)
              and src(st.targets[0].slice) == nm and try_fold(st.value) == 0}
    ctx.check('C11.SCRUB', okd and set(stores) == {flux, ivar}, f, sif, 'non-finite entries of either array zero both %s and %s' % (flux, ivar),
              msg='the scrub does not zero both outputs wherever either is non-finite: %s' % src(d)[:80], construct='scrub body')
    # every spline / interpolation write precedes it
    late = []
    for st in walk_local(f.node):
        tg = []
        if isinstance(st, ast.Assign):
            for t in st.targets:
                tg.extend(t.elts if isinstance(t, ast.Tuple) else [t])
        elif isinstance(st, ast.AugAssign):
            tg = [st.target]
        for t in tg:
            b = t
            while isinstance(b, ast.Subscript):
                b = b.value
            if isinstance(b, ast.Name) and b.id in (flux, ivar) and st.lineno > sif.end_lineno:
                if isinstance(st, ast.Assign) and isinstance(st.value, ast.Call) and call_name(st.value) == 'aesthetics' and isinstance(t, ast.Name):
                    continue
                late.append(st)
    ctx.check('C11.SCRUB', not late, f, late[0] if late else sif, 'after the scrub, flux is rewritten only by aesthetics() and inverse variance not at all',
              msg='`%s` writes an output array after the isfinite scrub: a NaN produced there is returned' % (src(late[0])[:70] if late else ''),
              construct='write after scrub')
    # the early exit returns the zero-initialised arrays
    early = [r for r in outs if r.lineno < sif.lineno]
    ok = True
    for r in early:
        for e in r.value.elts:
            ds = [v for dd, v in fa.rd.reaching(e.id, r) if dd is not None] if isinstance(e, ast.Name) else []
            if not ds or not all(v is not None and isinstance(v, ast.Call) and call_name(v) == 'zeros' for v in ds):
                ok = False
    ctx.check('C11.SCRUB', ok and bool(early), f, early[0] if early else f.node, 'the no-good-pixel exit returns the zero-initialised arrays',
              msg='the early exit returns arrays that are not the zero-initialised outputs', construct='early exit values')


def check_per_exposure(ctx, repo):
    f = repo.func(SPEC2D, 'combine1fiber')
    fa = FA(f)
    accum = [st for st in walk_local(f.node) if isinstance(st, ast.AugAssign) and isinstance(st.target, ast.Subscript)
             and src(st.target.value) == 'newivar']
    ctx.need(accum, 'combine1fiber: inverse-variance accumulation not found')
    for st in accum:
        loop = next((a for a in ancestors(st) if isinstance(a, ast.For)), None)
        idx = st.target.slice
        ok = False
        why = ''
        if loop is not None and isinstance(idx, ast.Name):
            # idx = inbetween.nonzero()[0]; inbetween = range test against inloglam_r[these].min()/max(); these defined in the loop
            chain = [idx]
            e = fa.deep(idx)
            txt = src(e)
            m = None
            if isinstance(e, ast.Subscript) and isinstance(e.value, ast.Call) and call_name(e.value) == 'nonzero':
                m = fa.deep(e.value.func.value)
            if m is not None:
                names = {n.id for n in ast.walk(m) if isinstance(n, ast.Name)}
                inloop = [n for n in names if any(d is not None and any(d is x for x in ast.walk(loop)) for d, v in
                                                  [(dd, vv) for nn in ast.walk(m) if isinstance(nn, ast.Name) and nn.id == n for dd, vv in fa.defs(nn)])]
                sel = [n for n in inloop if n != loop.target.id]
                ok = bool(sel) and '.min()' in src(m) and '.max()' in src(m)
                # and the mask itself is computed inside the loop
                mdefs = [d for d, v in fa.defs(e.value.func.value)] if isinstance(e.value.func.value, ast.Name) else []
                ok = ok and all(d is not None and any(d is x for x in ast.walk(loop)) for d in mdefs)
                why = 'range mask `%s`' % src(m)[:80]
        ctx.check('C11.PER-EXPOSURE', ok, f, st,
                  'inverse variance of exposure j is added only to output pixels between that exposure\'s own min and max wavelength (%s)' % why,
                  msg='the output pixels that receive inverse variance are not selected per exposure from its own wavelength range (%s): with '
                      'stacked exposures of different coverage, weight leaks outside an exposure\'s range' % (why or src(idx)),
                  construct='ivar accumulation range: ' + (why or src(idx)))


def check_zshift(ctx, repo):
    f = repo.func(SPEC1D, 'preprocess_spectra')
    fa = FA(f)
    ctx.cover(f)
    calls = [c for c in walk_local(f.node) if isinstance(c, ast.Call) and call_name(c) == 'combine1fiber']
    ctx.need(calls, 'preprocess_spectra: combine1fiber call not found')
    for c in calls:
        loop = next((a for a in ancestors(c) if isinstance(a, ast.For)), None)
        i = loop.target.id if loop is not None and isinstance(loop.target, ast.Name) else None

        def at(e):
            if isinstance(e, ast.Subscript) and isinstance(e.value, ast.Name) and isinstance(e.slice, ast.Name):
                return '%s[%s]' % (e.value.id, e.slice.id)
            return None

        def res(n):
            ds = [(d, v) for d, v in fa.defs(n) if d is not None]
            if any(isinstance(d, ast.AugAssign) for d, v in ds):
                raise NotPoly('`%s` is modified in place (%s) before the call: the shift accumulates from object to object'
                              % (n.id, src([d for d, v in ds if isinstance(d, ast.AugAssign)][0])))
            return None
        try:
            p = poly_of(c.args[0], atom=at, resolve=res)
            ok = p == Poly.atom('rowloglam') - Poly.atom('logshift[%s]' % i)
            why = str(p)
        except NotPoly as e:
            ok = False
            why = str(e)
        ctx.check('C11.ZSHIFT', ok, f, c, 'combine1fiber receives rowloglam - logshift[%s] (%s)' % (i, why),
                  msg='the wavelength argument of combine1fiber is not rowloglam - logshift[%s]: %s' % (i, why), construct='shifted wavelength: ' + why[:100])
    ls = [st for st in walk_local(f.node) if isinstance(st, ast.Assign) and src(st.targets[0]) == 'logshift']
    forms = sorted(src(st.value).replace(' ', '') for st in ls)
    ok = any(s in ('np.log10(1.0+zfit)', 'np.log10(1+zfit)', 'np.log10(zfit+1.0)', 'np.log10(zfit+1)') for s in forms) and \
        all(s.startswith('np.zeros(') or 'log10' in s for s in forms)
    ctx.check('C11.ZSHIFT', ok, f, ls[-1] if ls else f.node, 'logshift = log10(1 + zfit) (zeros when no redshift is given)',
              msg='logshift is defined as %s' % forms, construct='logshift definition')


def check_scale_free(ctx, repo):
    """Decisions inside combine1fiber must not compare data-scaled quantities with absolute tolerances, nor treat two wavelength grids
    as identical by a tolerance test (flux scaling c, ivar scaling 1/c^2 and sub-pixel shifts are in the property's domain)."""
    f = repo.func(SPEC2D, 'combine1fiber')
    fa = FA(f)
    tests = [c for c in walk_local(f.node) if isinstance(c, ast.Compare) and 'sset.coeff' in src(c)]
    ctx.need(tests, 'combine1fiber: failed-fit test on the spline coefficients not found')
    for c in tests:
        ok = isinstance(c.ops[0], ast.Eq) and try_fold(c.comparators[0]) == 0
        ctx.check('C11.SCALE-FREE', ok, f, c, 'a failed spline fit is recognised by coefficients that are exactly zero (`%s`)' % src(c)[:60],
                  msg='the failed-fit test `%s` compares a flux-scaled quantity with an absolute tolerance: spectra in small flux units (1e-17) are treated '
                      'as failed fits and lose all inverse variance' % src(c)[:70], construct='absolute tolerance on coefficients: ' + src(c)[:70])
    close = [c for c in walk_local(f.node) if isinstance(c, ast.Call) and call_name(c) in ('allclose', 'isclose', 'array_equal', 'array_equiv')
             and any('loglam' in src(a) for a in c.args)]
    ctx.check('C11.SCALE-FREE', not close, f, close[0] if close else f.node, 'no tolerance-based "same grid" shortcut bypasses the resampling',
              msg='`%s` decides that input and output grids coincide within a tolerance (default rtol is about a third of a pixel at log-lambda 3.6) and skips '
                  'the interpolation and mask growth' % (src(close[0])[:70] if close else ''), construct='grid identity shortcut')
    # the ivar interpolation statements sit only under the per-exposure emptiness tests
    interp = [st for st in walk_local(f.node) if isinstance(st, ast.Assign) and src(st.targets[0]) in ('result', 'smask') and 'interp' in src(st.value)]
    ctx.need(len(interp) == 2, 'combine1fiber: inverse-variance interpolation statements not found')
    for st in interp:
        conds = [src(a.test) for a in ancestors(st) if isinstance(a, ast.If)]
        extra = [c for c in conds if c not in ('these.any()', 'inbetween.any()', 'ngood == 0')]
        ctx.check('C11.SCALE-FREE', not extra, f, st, '`%s = np.interp(...)` is computed for every exposure that overlaps the output grid' % src(st.targets[0]),
                  msg='the inverse-variance interpolation is skipped under `%s`' % extra, construct='conditional ivar interpolation %s' % extra)


def check_ivar_thresholds(ctx, repo):
    """C11.SCALE-FREE (weights): a quantity that scales with the inverse variance is never compared with an absolute tolerance, and a
    call without objivar never hands synthetic unit weights to the rejection fit (its thresholds would become absolute flux units)."""
    f = repo.func(SPEC2D, 'combine1fiber')
    fa = FA(f)
    tainted = {'newivar', 'objivar', 'combivar'}
    changed = True
    while changed:
        changed = False
        for st in walk_local(f.node):
            if isinstance(st, ast.Assign) and isinstance(st.targets[0], ast.Name) and st.targets[0].id not in tainted:
                v = st.value
                linear = isinstance(v, ast.Call) and call_name(v) in ('smooth', 'absolute', 'abs', 'ravel', 'copy', 'sum', 'median', 'mean')
                if linear and any(isinstance(x, ast.Name) and x.id in tainted for x in ast.walk(v)):
                    tainted.add(st.targets[0].id)
                    changed = True
    n = 0
    for c in walk_local(f.node):
        if not (isinstance(c, ast.Compare) and len(c.ops) == 1):
            continue
        sides = [c.left, c.comparators[0]]
        for a, b in (sides, sides[::-1]):
            core = a
            while isinstance(core, ast.Call) and call_name(core) in ('absolute', 'abs') and core.args:
                core = core.args[0]
            is_w = (isinstance(core, ast.Name) and core.id in tainted) or (isinstance(core, ast.Subscript) and isinstance(core.value, ast.Name) and core.value.id in tainted) \
                or (isinstance(core, ast.Call) and call_name(core) in ('ravel', 'smooth') and any(isinstance(x, ast.Name) and x.id in tainted for x in ast.walk(core)))
            if not is_w:
                continue
            k = try_fold(b, resolver=fa.resolve)
            absolute = (isinstance(k, (int, float)) and k != 0) or (isinstance(b, ast.Name) and b.id.upper() in ('EPS', 'EPSILON', 'TOL', 'TINY')) \
                or any(isinstance(x, ast.Call) and call_name(x) == 'finfo' for x in ast.walk(fa.deep(b) if isinstance(b, ast.Name) else b))
            n += 1
            ctx.check('C11.SCALE-FREE', not absolute, f, c, 'weight test `%s` compares with exactly zero' % src(c)[:50],
                      msg='`%s` compares an inverse-variance-scaled quantity with the absolute tolerance `%s`: with flux in units that make the weights smaller '
                          'than that (flux x 1e4 -> ivar x 1e-8) every pixel is declared bad and loses its inverse variance' % (src(c)[:60], src(b)[:20]),
                      construct='absolute tolerance on weights: ' + src(c)[:60])
            break
    ctx.need(n >= 1, 'combine1fiber: no test on the output inverse variance found')
    # the rejection fit of a call without objivar must estimate the variance itself
    for c in walk_local(f.node):
        if isinstance(c, ast.Call) and call_name(c) == 'iterfit':
            for k_ in c.keywords:
                if k_.arg == 'invvar':
                    roots = [x for x in ast.walk(k_.value) if isinstance(x, ast.Name) and isinstance(x.ctx, ast.Load)]
                    synthetic = []
                    for x in roots:
                        if x.id == 'objivar':
                            continue
                        for d, v in fa.defs(x):
                            if v is not None and isinstance(v, ast.Call) and call_name(v) in ('ones', 'ones_like', 'full', 'full_like'):
                                synthetic.append((x.id, v))
                    ctx.check('C11.SCALE-FREE', not synthetic, f, c, 'iterfit is weighted with the caller\'s inverse variance only (`%s`)' % src(k_.value)[:40],
                              msg='iterfit receives `invvar=%s`, and `%s = %s` reaches it when objivar is None: with unit weights the 5-sigma rejection becomes '
                                  '"5 flux units", so spectra with flux ~1e3 lose good pixels' % (src(k_.value)[:30], synthetic[0][0] if synthetic else '',
                                                                                             src(synthetic[0][1])[:40] if synthetic else ''),
                              construct='synthetic weights reach iterfit: ' + src(k_.value)[:40])


def check_bmask_kind(ctx, repo):
    """C11.BMASK-KIND: `~bmask` needs the boolean mask of a fit.  The groups that were not fitted carry `bmask = np.zeros(len(ss))`
    (float) together with `sset = None`; `~` on a float array raises TypeError.  A use of `~bmask` is accepted only if no float
    definition reaches it on a path that respects the companion fact sset-is-None (the true edge of a test `sset is not None ...`
    cannot be taken while sset is None)."""
    f = repo.func(SPEC2D, 'combine1fiber')
    fa = FA(f)
    cfg = fa.cfg
    inverts = [n for n in walk_local(f.node) if isinstance(n, ast.UnaryOp) and isinstance(n.op, ast.Invert) and isinstance(n.operand, ast.Name) and n.operand.id == 'bmask']
    ctx.need(inverts, 'combine1fiber: ~bmask not found')
    float_defs = []
    all_defs = []
    for st in walk_local(f.node):
        if isinstance(st, ast.Assign):
            for t in st.targets:
                names = [t] if isinstance(t, ast.Name) else (list(t.elts) if isinstance(t, ast.Tuple) else [])
                if any(isinstance(x, ast.Name) and x.id == 'bmask' for x in names):
                    all_defs.append(st)
                    v = st.value
                    if isinstance(v, ast.Call) and call_name(v) in ('zeros', 'ones', 'empty') and not any(
                            k.arg == 'dtype' and ('bool' in src(k.value)) for k in v.keywords):
                        float_defs.append(st)

    def sset_none_with(st):
        blk = getattr(st, '_parent', None)
        for fld in ('body', 'orelse'):
            lst = getattr(blk, fld, None)
            if isinstance(lst, list) and any(x is st for x in lst):
                return any(isinstance(x, ast.Assign) and src(x.targets[0]) == 'sset' and isinstance(x.value, ast.Constant) and x.value.value is None for x in lst)
        return False

    def excludes_none(test):
        vals = test.values if isinstance(test, ast.BoolOp) and isinstance(test.op, ast.And) else [test]
        return any(src(v).replace(' ', '') in ('ssetisnotNone', 'sset!=None') for v in vals)
    for inv in inverts:
        targets = {n.id for n in cfg.node_of_expr(inv)}
        ctx.need(targets, 'combine1fiber: ~bmask is not in the CFG')
        reach_bad = None
        for d in float_defs:
            correlated = sset_none_with(d)
            kill = {n.id for st in all_defs if st is not d for n in cfg.nodes_of(st)}
            # sset re-bound to a fit result also ends the "sset is None" fact; those statements re-bind bmask too (tuple assignment)
            seen = set()
            stack = [m for n in cfg.nodes_of(d) for m, l in n.succ if l != 'exc']
            while stack:
                n = stack.pop()
                if n.id in seen or n.id in kill:
                    continue
                seen.add(n.id)
                for m, l in n.succ:
                    if correlated and n.kind == 'test' and l is True and excludes_none(n.ast if hasattr(n, 'ast') and n.ast is not None else n.stmt.test):
                        continue
                    stack.append(m)
            if targets & seen:
                reach_bad = d
                break
        ctx.check('C11.BMASK-KIND', reach_bad is None, f, inv, '`~bmask` at line %d is reached only by the boolean mask of a fit' % inv.lineno,
                  msg='`~bmask` at line %d can be reached by `%s` (line %d), a float array of the groups that were not fitted: `~` raises TypeError, so a spectrum '
                      'with a stranded run of 1-3 good pixels makes combine1fiber fail instead of returning zero inverse variance there'
                      % (inv.lineno, src(reach_bad)[:40] if reach_bad is not None else '', reach_bad.lineno if reach_bad is not None else 0),
                  construct='~bmask reached by a float mask')


def check_none_deref(ctx, repo):
    """`objivar` is optional (default None): every dereference must be on a path where it is known not to be None."""
    from ..nullness import analyse
    f = repo.func(SPEC2D, 'combine1fiber')
    fa = FA(f)
    hits = analyse(fa, names=['objivar'])
    # a test on an alias bound only to `objivar` (or None) is a test on objivar itself
    aliases = set()
    for st in walk_local(f.node):
        if isinstance(st, ast.Assign) and isinstance(st.targets[0], ast.Name) and isinstance(st.value, ast.Name) and st.value.id == 'objivar':
            nm = st.targets[0].id
            others = [s2 for s2 in walk_local(f.node) if isinstance(s2, ast.Assign) and isinstance(s2.targets[0], ast.Name) and s2.targets[0].id == nm and s2 is not st]
            if all(isinstance(s2.value, ast.Constant) and s2.value.value is None for s2 in others):
                aliases.add(nm)
    real = []
    for node, nm, kind, ln in hits:
        guarded = any(isinstance(a, ast.If) and any(src(a.test) == '%s is not None' % al for al in aliases) and
                      any(node in list(ast.walk(b)) for b in a.body) for a in ancestors(node))
        if not guarded:
            real.append((node, kind, ln))
    derefs = [n for n in walk_local(f.node) if isinstance(n, (ast.Attribute, ast.Subscript)) and isinstance(n.value, ast.Name) and n.value.id == 'objivar']
    ctx.check('C11.NONE-DEREF', not real, f, real[0][0] if real else f.node,
              'every one of the %d dereferences of the optional `objivar` lies on a path where it is not None' % len(derefs),
              msg='combine1fiber dereferences the optional argument objivar (%s at line %s: `%s`) on a path where it may still be None: the documented '
                  'call without inverse variance raises AttributeError instead of returning a result'
                  % (real[0][1] if real else '', real[0][2] if real else '', src(real[0][0])[:40] if real else ''),
              construct='objivar may be None at: %s' % '; '.join('%s `%s`' % (k, src(n)[:30]) for n, k, l in real[:3]))


def check_interp_axes(ctx, repo):
    """C11.INTERP-AXES: inside combine1fiber every np.interp works in log-wavelength: the points are elements of the output grid
    (newloglam) and the abscissae elements of the input grid (inloglam).  Interpolating in pixel units instead assumes a constant
    log-wavelength step of the input, which the function does not require."""
    f = repo.func(SPEC2D, 'combine1fiber')
    fa = FA(f)
    inl, newl = f.params[0], f.params[2]

    def derives(e, name, depth=0):
        """e is a selection / re-ordering of the array `name` (no arithmetic)."""
        if depth > 5:
            return False
        if isinstance(e, ast.Name):
            if e.id == name and any(isinstance(d, ast.arg) for d, _ in fa.defs(e)):
                return True
            vs = [v for d, v in fa.defs(e) if v is not None]
            return bool(vs) and all(derives(v, name, depth + 1) for v in vs)
        if isinstance(e, ast.Subscript):
            return derives(e.value, name, depth + 1)
        if isinstance(e, ast.Call) and call_name(e) in ('ravel', 'flatten', 'copy', 'asarray', 'array', 'reshape', 'astype') :
            inner = e.func.value if isinstance(e.func, ast.Attribute) and not (isinstance(e.func.value, ast.Name) and e.func.value.id in ('np', 'numpy')) \
                else (e.args[0] if e.args else None)
            return inner is not None and derives(inner, name, depth + 1)
        return False
    calls = [c for c in walk_local(f.node) if isinstance(c, ast.Call) and call_name(c) == 'interp' and len(c.args) >= 3]
    ctx.need(len(calls) >= 2, 'combine1fiber: np.interp calls not found')
    for c in calls:
        ok = derives(c.args[0], newl) and derives(c.args[1], inl)
        ctx.check('C11.INTERP-AXES', ok, f, c, 'np.interp(%s, %s, ...) interpolates in log-wavelength (output grid points, input grid abscissae)' % (src(c.args[0])[:30], src(c.args[1])[:30]),
                  msg='combine1fiber interpolates with `np.interp(%s, %s, ...)`: the abscissae are not the input log-wavelengths themselves (and the points the '
                      'output ones), so the result is right only for an input grid with a constant step' % (src(c.args[0])[:40], src(c.args[1])[:40]),
                  construct='interp axes ' + src(c)[:60])


def run(ctx):
    check_interp_axes(ctx, ctx.repo)
    check_none_deref(ctx, ctx.repo)
    check_scale_free(ctx, ctx.repo)
    check_ivar_thresholds(ctx, ctx.repo)
    check_bmask_kind(ctx, ctx.repo)
    n = check_dtype_mix(ctx, ctx.repo)
    ctx.need(n >= 5, 'combine1fiber: fewer typed bitwise sites than confirmed by hand')
    check_empty_agg(ctx, ctx.repo)
    check_scrub(ctx, ctx.repo)
    check_per_exposure(ctx, ctx.repo)
    check_zshift(ctx, ctx.repo)

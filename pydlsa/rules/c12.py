"""C12 -- Mangle window functions decide point membership exactly as the caps define."""

import ast

from .. import AnalysisError
from ..astutil import path_conditions, src, call_name, dotted, walk_local, try_fold, ancestors
from ..fn import FA, expand
from ..normal import canon_expr
from ..poly import poly_of, NotPoly, Poly

META = {
    'property': 'C12',
    'title': 'Mangle window functions decide point membership exactly as the caps define',
    'technique': 'column-name table agreement between producers and consumers, affine slice algebra, element-vs-index kind '
                 'check, clip-before-arccos dataflow, bit-expression extraction, branch-guarded bit clearing',
    'explanation': (
        'Decided (pydl/pydlutils/mangle.py, pydl/photoop/window.py): C12.COLUMNS - every column a consumer reads '
        '(ManglePolygon.__init__ from a FITS record, is_in_polygon.pmap) is provided by the balkans record built in '
        'window_read, and the keywords read_mangle_polygons passes include the required x and cm; C12.SLICES - in '
        'window_read the per-polygon cap copies take rows ICAP[k] .. ICAP[k]+NCAPS[k] of the cap table into slots '
        '0..NCAPS[k] of row k (equal lengths as affine forms) and USE_CAPS is preset to (1 << NCAPS) - 1; '
        'C12.ELEM-INDEX - in set_use_caps every bit ORed into use_caps is 1 << e with e an element of index_list; '
        'C12.ACOS-DOT - arccos of an inner product is clipped to [-1, 1] (cap centre); C12.AND-ALL - is_in_polygon '
        'starts all-True, ANDs is_in_cap over range(min(ncaps, polygon.ncaps)) skipping caps whose use bit is clear; '
        'is_in_window assigns a polygon index only to still-unassigned points, polygons ascending; C12.CAP-SIGN - '
        'is_in_cap is cap_distance >= 0 and cap_distance is negated exactly when cm < 0; C12.CAP-BIT - is_cap_used '
        'tests bit i, the same bit set_use_caps sets and the presets (1 << ncaps) - 1 cover; C12.DOUBLES - a duplicate '
        'cap bit j > i is cleared only after re-testing that it is currently set (or idempotently). C12.DUP-SYM - both duplicate tests of set_use_caps are two-sided (absolute value); C12.DUP-COND - the condition under which a later cap is dropped equals same-cap OR (complement AND NOT allow_neg_doubles), decided by truth table over the three facts. C12.ONE-CAP - is_in_polygon normalises the rank of XCAPS / CMCAPS of a raw FITS row the way ManglePolygon.__init__ does for rows with a single cap; C12.NUMFMT - when read_mangle_polygons picks the numbers of a line with a regular expression, the pattern matches numbers in exponent notation as a whole (zero instances while the words are split on white space and handed to float()); C12.MEMO-KEY - a lazily cached value of ManglePolygon (`if <validity test>: self._x = ...`) reads only attributes that appear in its validity test or cannot change after construction (today: the solid angle cached by ManglePolygon.str); NOT decided: the '
        'floating-point geometry itself, agreement across concrete files.'),
    'floors': {'C12.ONE-CAP': 2, 'C12.COLUMNS': 3, 'C12.SLICES': 5, 'C12.ELEM-INDEX': 1, 'C12.ACOS-DOT': 1, 'C12.AND-ALL': 7, 'C12.CAP-SIGN': 2,
               'C12.CAP-BIT': 4, 'C12.DOUBLES': 2, 'C12.DUP-COND': 1, 'C12.DUP-SYM': 2},
}

MANGLE = 'pydl/pydlutils/mangle.py'
WINDOW = 'pydl/photoop/window.py'
INFORMATIONAL_KW = {'caps': 'number of caps: informational, the constructor derives ncaps from x.shape'}


def const_subscripts(fn, base):
    """String constants used to subscript the name `base`."""
    out = {}
    for n in walk_local(fn):
        if isinstance(n, ast.Subscript) and isinstance(n.value, ast.Name) and n.value.id == base \
                and isinstance(n.slice, ast.Constant) and isinstance(n.slice.value, str):
            out.setdefault(n.slice.value, n)
    return out


def check_columns(ctx, repo):
    f_init = repo.func(MANGLE, 'ManglePolygon.__init__')
    f_poly = repo.func(MANGLE, 'is_in_polygon')
    f_win = repo.func(WINDOW, 'window_read')
    f_rm = repo.func(MANGLE, 'read_mangle_polygons')
    ctx.cover(f_init, f_poly, f_win, f_rm)
    need_init = const_subscripts(f_init.node, 'a0')
    optional = set()
    for n in walk_local(f_init.node):
        if isinstance(n, ast.Try):
            for h in n.handlers:
                if (dotted(h.type) or '').endswith('KeyError'):
                    for b in n.body:
                        for s in ast.walk(b):
                            if isinstance(s, ast.Subscript) and isinstance(s.value, ast.Name) and s.value.id == 'a0' and isinstance(s.slice, ast.Constant):
                                optional.add(s.slice.value)
    # attribute -> column pairs: `try: .. getattr(polygon, A) / polygon.A .. except AttributeError: .. polygon[C]` (table loops are unrolled)
    pmap = {}
    pmaps = []
    poly = f_poly.params[0]
    for n in walk_local(f_poly.node):
        if isinstance(n, ast.Try) and any((dotted(h.type) or '').endswith('AttributeError') for h in n.handlers if h.type is not None):
            attrs_ = []
            for b in n.body:
                for x in ast.walk(b):
                    if isinstance(x, ast.Call) and call_name(x) == 'getattr' and len(x.args) >= 2 and isinstance(x.args[0], ast.Name) and x.args[0].id == poly \
                            and isinstance(try_fold(x.args[1]), str):
                        attrs_.append(try_fold(x.args[1]))
                    elif isinstance(x, ast.Attribute) and isinstance(x.value, ast.Name) and x.value.id == poly:
                        attrs_.append(x.attr)
            cols_ = [try_fold(x.slice) for h in n.handlers for b in h.body for x in ast.walk(b)
                     if isinstance(x, ast.Subscript) and isinstance(x.value, ast.Name) and x.value.id == poly and isinstance(try_fold(x.slice), str)]
            if len(attrs_) == 1 and len(cols_) == 1:
                pmap[attrs_[0]] = cols_[0]
                pmaps.append(n)
    ctx.need(len(pmap) >= 4, 'is_in_polygon: attribute -> column fallbacks (try getattr / except AttributeError: column) not found')
    # producer: dtype list of the balkans recarray
    produced = None
    fa_win = FA(f_win)
    for c in walk_local(f_win.node):
        if isinstance(c, ast.Call) and call_name(c) == 'recarray':
            for k in c.keywords:
                dt = fa_win.deep(k.value) if k.arg == 'dtype' else None
                if isinstance(dt, ast.List):
                    produced = [e.elts[0].value for e in dt.elts if isinstance(e, ast.Tuple) and isinstance(e.elts[0], ast.Constant)]
    ctx.need(produced, 'window_read: dtype of the balkans record array not found')
    missing = sorted((set(need_init) - optional) - set(produced))
    ctx.check('C12.COLUMNS', not missing, f_win, f_win.node,
              'window_read provides every column ManglePolygon.__init__ requires from a FITS record: %s' % sorted(set(need_init) - optional),
              msg='the balkans record built by window_read lacks column(s) %s that ManglePolygon.__init__ reads' % missing,
              construct='balkans columns %s' % sorted(produced))
    missing2 = sorted(set(pmap.values()) - set(produced))
    ctx.check('C12.COLUMNS', not missing2, f_poly, pmaps[0],
              'is_in_polygon reads %s from raw FITS polygons; all are produced by window_read' % sorted(pmap.values()),
              msg='is_in_polygon reads column(s) %s that window_read does not produce' % missing2, construct='pmap %s' % sorted(pmap.items()))
    # the attribute names is_in_polygon uses exist on ManglePolygon
    cls = repo.cls(MANGLE, 'ManglePolygon')
    attrs = {n.name for n in cls.body if isinstance(n, ast.FunctionDef)} | \
        {t.attr for st in ast.walk(f_init.node) if isinstance(st, ast.Assign) for t in st.targets
         if isinstance(t, ast.Attribute) and isinstance(t.value, ast.Name) and t.value.id == 'self'}
    missing3 = sorted(set(pmap) - attrs)
    ctx.check('C12.COLUMNS', not missing3, f_poly, pmaps[0], 'is_in_polygon attribute names %s exist on ManglePolygon' % sorted(pmap),
              msg='is_in_polygon reads attribute(s) %s that ManglePolygon does not define' % missing3, construct='pmap attributes')
    # read_mangle_polygons passes x and cm
    keys = set(const_subscripts(f_rm.node, 'metad'))
    for n in walk_local(f_rm.node):
        if isinstance(n, ast.Dict):
            keys |= {k.value for k in n.keys if isinstance(k, ast.Constant)}
    kw_read = set()
    for n in walk_local(f_init.node):
        if isinstance(n, ast.Compare) and isinstance(n.ops[0], ast.In) and src(n.comparators[0]) == 'kwargs' and isinstance(n.left, ast.Constant):
            kw_read.add(n.left.value)
    ctx.check('C12.COLUMNS', {'x', 'cm'} <= keys and (keys - kw_read - set(INFORMATIONAL_KW)) == set(), f_rm, f_rm.node,
              'read_mangle_polygons passes x and cm, and every keyword it passes (%s) has a consumer in the constructor' % sorted(keys),
              msg='read_mangle_polygons passes %s; the keyword constructor consumes %s' % (sorted(keys), sorted(kw_read)),
              construct='mangle text keywords')


def col_atom(e, fa):
    """Canonical symbol COL[idx] for table[..]['COL'][idx] (also through a local alias of the column)."""
    if isinstance(e, ast.Subscript) and isinstance(e.slice, ast.Name):
        base = fa.deep(e.value)
        while isinstance(base, ast.Call) and call_name(base) in ('asarray', 'array', 'astype', 'copy') and (base.args or isinstance(base.func, ast.Attribute)):
            base = fa.deep(base.args[0] if base.args and call_name(base) != 'astype' else base.func.value)
        col = None
        b = base
        while isinstance(b, ast.Subscript):
            if isinstance(b.slice, ast.Constant) and isinstance(b.slice.value, str):
                col = b.slice.value
                break
            b = b.value
        if col is not None:
            return '%s[%s]' % (col, e.slice.id)
        return '<%s>[%s]' % (src(base)[:40], e.slice.id)
    return None


def check_slices(ctx, repo):
    f = repo.func(WINDOW, 'window_read')
    fa = FA(f)
    copies = []
    for st in walk_local(f.node):
        if isinstance(st, ast.Assign) and len(st.targets) == 1 and isinstance(st.targets[0], ast.Subscript):
            t = st.targets[0]
            s = src(t)
            if "'XCAPS'" in s or "'CMCAPS'" in s:
                if any(isinstance(x, ast.Slice) for x in ast.walk(t.slice)):
                    copies.append(st)
    ctx.need(len(copies) >= 2, 'window_read: per-polygon XCAPS/CMCAPS copies not found')

    def first_slice(sub):
        sl = sub.slice
        if isinstance(sl, ast.Tuple):
            sl = sl.elts[0]
        return sl if isinstance(sl, ast.Slice) else None

    def P(e):
        if e is None:
            return Poly.const(0)
        return poly_of(e, atom=lambda x: col_atom(x, fa), resolve=fa.resolve)
    for st in copies:
        t, v = st.targets[0], st.value
        ls, rs = first_slice(t), first_slice(v) if isinstance(v, ast.Subscript) else None
        if ls is None or rs is None:
            raise AnalysisError('C12: window_read cap copy is not slice = slice: %s' % src(st)[:80])
        try:
            llen = P(ls.upper) - P(ls.lower)
            rlo, rhi = P(rs.lower), P(rs.upper)
        except NotPoly as e:
            raise AnalysisError('C12: window_read slice bound is not affine: %s' % e)
        # row index on the left, loop index on the right
        loopvars = [a.target.id for a in ancestors(st) if isinstance(a, ast.For) and isinstance(a.target, ast.Name)]
        k = loopvars[0] if loopvars else None
        ok_len = (rhi - rlo) == llen and llen == Poly.atom('NCAPS[%s]' % k) and P(ls.lower) == Poly.const(0)
        ok_start = rlo == Poly.atom('ICAP[%s]' % k)
        rowk = any(isinstance(x, ast.Subscript) and isinstance(x.slice, ast.Name) and x.slice.id == k for x in ast.walk(t.value))
        col = 'XCAPS' if "'XCAPS'" in src(t) else 'CMCAPS'
        srccol = 'X' if col == 'XCAPS' else 'CM'
        ok_src = ("['%s']" % srccol) in src(expand(v, fa)) and "'bcaps'" in src(expand(v, fa))
        ctx.check('C12.SLICES', ok_len and ok_start and rowk and ok_src, f, st,
                  'window_read: %s[0:NCAPS[k]] of row k <- cap table %s rows ICAP[k] : ICAP[k]+NCAPS[k] (lengths equal as affine forms)' % (col, srccol),
                  msg='window_read copies caps for %s from rows [%s : %s] into slots of length %s of row k: expected rows '
                      'ICAP[k] .. ICAP[k]+NCAPS[k] of column %s (each polygon would receive another polygon\'s caps)'
                      % (col, rlo, rhi, llen, srccol),
                  construct='%s copy: [%s : %s] -> len %s' % (col, rlo, rhi, llen))
    # consistent (icap, n) in both statements is implied by both equalling the oracle; preset of USE_CAPS
    presets = [st for st in walk_local(f.node) if isinstance(st, ast.Assign) and "'USE_CAPS'" in src(st.targets[0])
               and not any(isinstance(x, ast.Tuple) for x in ast.walk(st.targets[0]))]
    presets = [st for st in presets if isinstance(st.value, ast.BinOp)]
    ctx.need(presets, 'window_read: USE_CAPS preset not found')
    for st in presets:
        v = st.value
        ok = isinstance(v.op, ast.Sub) and try_fold(v.right) == 1 and isinstance(v.left, ast.BinOp) and isinstance(v.left.op, ast.LShift) \
            and try_fold(v.left.left) == 1 and "'NCAPS'" in src(expand(v.left.right, fa)) and "'blist'" in src(expand(v.left.right, fa))
        ctx.check('C12.SLICES', ok, f, st, 'window_read presets USE_CAPS to (1 << NCAPS) - 1 (all caps used)',
                  msg='window_read presets USE_CAPS to %s, expected (1 << NCAPS) - 1' % src(v), construct='USE_CAPS preset ' + src(v))
    # scalar columns copied from the like-named blist columns
    pairs = {'IFIELD': 'IPRIMARY', 'PIXEL': 'IBINDX', 'NCAPS': 'NCAPS', 'WEIGHT': 'WEIGHT', 'STR': 'STR'}
    for st in walk_local(f.node):
        if isinstance(st, ast.Assign) and isinstance(st.targets[0], ast.Subscript) and isinstance(st.targets[0].slice, ast.Constant) \
                and st.targets[0].slice.value in pairs and "'balkans'" in src(st.targets[0]) and isinstance(st.value, ast.Subscript):
            want = pairs[st.targets[0].slice.value]
            ctx.check('C12.SLICES', isinstance(st.value.slice, ast.Constant) and st.value.slice.value == want and "'blist'" in src(expand(st.value, fa)), f, st,
                      'window_read: balkans.%s <- blist.%s' % (st.targets[0].slice.value, want),
                      msg='window_read fills balkans column %s from %s, expected blist column %s' % (st.targets[0].slice.value, src(st.value), want),
                      construct='column copy ' + src(st)[:80])


def check_numfmt(ctx, repo):
    """C12.NUMFMT: the numbers of a Mangle polygon file are whatever float() reads (mangle writes %.15g, i.e. exponents for small cap
    sizes).  read_mangle_polygons splits a line on white space and hands every word to float().  A reader that instead PICKS the numbers
    with a regular expression must pick whole numbers: the pattern has to match `1.5e-05`, `-2E+10`, `.5` and `3.` completely."""
    import re as _re
    f = repo.func(MANGLE, 'read_mangle_polygons')
    fa = FA(f)
    pats = {}
    for c in walk_local(f.node):
        if isinstance(c, ast.Call) and isinstance(c.func, ast.Attribute) and c.func.attr in ('compile', 'findall', 'finditer') \
                and isinstance(c.func.value, ast.Name) and c.func.value.id == 're' and c.args and isinstance(c.args[0], ast.Constant) and isinstance(c.args[0].value, str):
            pats[id(c)] = (c, c.args[0].value)
    floats = [c for c in walk_local(f.node) if isinstance(c, ast.Call) and isinstance(c.func, ast.Name) and c.func.id == 'float' and c.args]
    ctx.need(floats, 'read_mangle_polygons: float() conversions not found')
    n = 0
    for fc in floats:
        # where do the converted words come from?  (the iterable of the enclosing comprehension / loop)
        comp = next((a for a in ancestors(fc) if isinstance(a, (ast.ListComp, ast.GeneratorExp))), None)
        it = comp.generators[0].iter if comp is not None else None
        src_call = fa.deep(it) if it is not None else None
        if not (isinstance(src_call, ast.Call) and isinstance(src_call.func, ast.Attribute) and src_call.func.attr in ('findall', 'finditer')):
            continue
        pat = None
        if isinstance(src_call.func.value, ast.Name) and src_call.func.value.id == 're' and src_call.args and isinstance(src_call.args[0], ast.Constant):
            pat = src_call.args[0].value
        else:
            v = fa.deep(src_call.func.value)
            if isinstance(v, ast.Call) and v.args and isinstance(v.args[0], ast.Constant) and isinstance(v.args[0].value, str):
                pat = v.args[0].value
        if not isinstance(pat, str):
            raise AnalysisError('C12: read_mangle_polygons picks its numbers with a pattern this checker cannot read (`%s`)' % src(src_call)[:60])
        n += 1
        try:
            rx_ = _re.compile(pat)
        except _re.error as e:
            raise AnalysisError('C12: pattern %r does not compile: %s' % (pat, e))
        samples = ['1.5e-05', '-2E+10', '0.25', '-1', '3.', '.5', '1e3']
        bad = [w for w in samples if [m.group(0) for m in rx_.finditer(w)] != [w]]
        ctx.check('C12.NUMFMT', not bad, f, src_call, 'the pattern %r picks whole numbers, exponent part included' % pat,
                  msg='read_mangle_polygons picks the numbers of a line with the pattern %r, which does not match %s as one number: a cap size or weight written '
                      'in exponent notation (mangle writes %%.15g) is split in two and every following value is shifted' % (pat, bad), construct='number pattern %r' % pat)
    ctx.notes['numfmt_patterns'] = n


def check_set_use_caps(ctx, repo):
    f = repo.func(MANGLE, 'set_use_caps')
    fa = FA(f)
    ctx.cover(f)
    param = f.params[1]
    sets = [st for st in walk_local(f.node) if isinstance(st, ast.AugAssign) and isinstance(st.op, ast.BitOr) and 'use_caps' in src(st.target)]
    sets += [st for st in walk_local(f.node) if isinstance(st, ast.Assign) and 'use_caps' in src(st.targets[0])
             and isinstance(st.value, ast.BinOp) and isinstance(st.value.op, ast.BitOr)]
    ctx.need(sets, 'set_use_caps: no statement ORs a bit into use_caps')
    for st in sets:
        v = st.value if isinstance(st, ast.AugAssign) else st.value.right
        ok = False
        why = 'not of the form 1 << e'
        if isinstance(v, ast.BinOp) and isinstance(v.op, ast.LShift) and try_fold(v.left) == 1:
            e = v.right
            loop = None
            for a in ancestors(st):
                if isinstance(a, ast.For):
                    loop = a
                    break
            if loop is not None and isinstance(loop.target, ast.Name):
                it = loop.iter
                if isinstance(it, ast.Name) and it.id == param:
                    ok = isinstance(e, ast.Name) and e.id == loop.target.id
                    why = 'the loop variable `%s` is an element of %s, but the bit shifted is `%s`' % (loop.target.id, param, src(e))
                elif isinstance(it, ast.Call) and call_name(it) == 'range' and 'len(%s)' % param in src(it):
                    ok = isinstance(e, ast.Subscript) and src(e.value) == param and isinstance(e.slice, ast.Name) and e.slice.id == loop.target.id
                    why = 'loop over positions, bit shifted is `%s`' % src(e)
                elif isinstance(it, ast.Call) and call_name(it) == 'enumerate':
                    tg = loop.target
                    why = 'enumerate form'
        ctx.check('C12.ELEM-INDEX', ok, f, st, 'set_use_caps: bit set is 1 << (element of %s)' % param,
                  msg='set_use_caps: %s: any index list other than range(n) sets the wrong bits or raises IndexError' % why,
                  construct='use_caps |= ' + src(v))
    # DOUBLES
    clears = [st for st in walk_local(f.node) if isinstance(st, ast.AugAssign) and 'use_caps' in src(st.target)
              and isinstance(st.op, (ast.Sub, ast.BitAnd, ast.BitXor))]
    ctx.need(clears, 'set_use_caps: duplicate removal not found')
    for st in clears:
        idem = isinstance(st.op, ast.BitAnd) and isinstance(st.value, ast.UnaryOp) and isinstance(st.value.op, ast.Invert)
        shift = [x for x in ast.walk(st.value) if isinstance(x, ast.BinOp) and isinstance(x.op, ast.LShift)]
        jname = src(shift[0].right) if shift else None
        guarded = False
        child = st
        for a in ancestors(st):
            if isinstance(a, ast.If):
                inbody = any(child is b or child in list(ast.walk(b)) for b in a.body)
                for c in ast.walk(a.test):
                    if inbody and isinstance(c, ast.Call) and call_name(c) == 'is_cap_used' and len(c.args) == 2 \
                            and src(c.args[0]) == src(st.target) and src(c.args[1]) == jname:
                        guarded = True
            child = a
        ctx.check('C12.DOUBLES', idem or guarded, f, st,
                  'duplicate removal clears bit %s only after re-testing is_cap_used(%s, %s) on the current mask' % (jname, src(st.target), jname),
                  msg='set_use_caps clears bit %s with `%s` without re-testing that it is still set: with three or more mutually '
                      'duplicate caps the bit is subtracted twice and borrows from higher bits' % (jname, src(st)),
                  construct='bit clear ' + src(st))
        check_dup_cond(ctx, f, fa, st)
        # j ranges over later caps only
        loops = [a for a in ancestors(st) if isinstance(a, ast.For) and isinstance(a.target, ast.Name) and a.target.id == jname]
        later = False
        if loops:
            it = loops[0].iter
            if isinstance(it, ast.Call) and call_name(it) == 'range' and len(it.args) >= 2:
                lo = it.args[0]
                later = isinstance(lo, ast.BinOp) and isinstance(lo.op, ast.Add) and try_fold(lo.right) == 1 and isinstance(lo.left, ast.Name)
            elif isinstance(it, ast.Subscript) and isinstance(it.slice, ast.Slice) and it.slice.lower is not None and '+ 1' in src(it.slice.lower):
                later = True
        ctx.check('C12.DOUBLES', later, f, loops[0] if loops else st, 'the removed duplicate j ranges over caps after i only',
                  msg='the duplicate scan does not restrict j to caps after i', construct='duplicate scan range')


def check_dup_cond(ctx, f, fa, st):
    """C12.DUP-COND / DUP-SYM: the condition under which a later cap is dropped, as a boolean function of three facts."""
    def classify(e):
        """'SAME' | 'NEG' | 'NEG1' (one-sided) | 'ALLOW' | 'DIST' | 'USED' | None"""
        if isinstance(e, ast.Name):
            if e.id == 'allow_neg_doubles':
                return 'ALLOW'
            d = fa.deep(e)
            if d is not e:
                return classify(d)
            return None
        if isinstance(e, ast.Call) and call_name(e) == 'is_cap_used':
            return 'USED'
        if isinstance(e, ast.Compare) and len(e.ops) == 1 and isinstance(e.ops[0], (ast.Lt, ast.LtE)):
            left, right = e.left, fa.deep(e.comparators[0])
            rs = src(right)
            if isinstance(left, ast.Name):
                left = fa.deep(left)
            ls = src(left)
            if '.x[' in ls and ('t2' in src(e.comparators[0]) or '**' in rs or 'tol' in rs):
                return 'DIST'
            if '.cm[' in ls and 'tol' in src(e.comparators[0]):
                absd = isinstance(left, ast.Call) and call_name(left) in ('absolute', 'abs', 'fabs')
                inner = left.args[0] if absd and left.args else left
                if isinstance(inner, ast.BinOp) and isinstance(inner.op, ast.Sub):
                    return 'SAME' if absd else 'SAME1'
                if isinstance(inner, ast.BinOp) and isinstance(inner.op, ast.Add):
                    return 'NEG' if absd else 'NEG1'
        return None

    def ev(e, env, seen):
        if isinstance(e, ast.BoolOp):
            vals = [ev(v, env, seen) for v in e.values]
            return all(vals) if isinstance(e.op, ast.And) else any(vals)
        if isinstance(e, ast.UnaryOp) and isinstance(e.op, ast.Not):
            return not ev(e.operand, env, seen)
        if isinstance(e, ast.Name) and e.id != 'allow_neg_doubles':
            d = fa.deep(e)
            if d is not e and isinstance(d, (ast.BoolOp, ast.UnaryOp)):
                return ev(d, env, seen)
        k = classify(e)
        ctx.need(k is not None, 'set_use_caps: condition `%s` of the duplicate test not recognised' % src(e)[:60])
        seen.add((k, e))
        k = {'NEG1': 'NEG', 'SAME1': 'SAME'}.get(k, k)
        return env.get(k, True)
    tests = []
    child = st
    for a in ancestors(st):
        if isinstance(a, ast.For):
            if isinstance(a.target, ast.Name) and a.iter is not None and 'ncaps' in src(a.iter) and '+ 1' in src(a.iter):
                break
        if isinstance(a, ast.If):
            inbody = any(child is b or child in list(ast.walk(b)) for b in a.body)
            tests.append(a.test if inbody else ast.UnaryOp(op=ast.Not(), operand=a.test))
        child = a
    ctx.need(tests, 'set_use_caps: no condition guards the duplicate removal')
    seen = set()
    wrong = []
    for same in (False, True):
        for neg in (False, True):
            for allow in (False, True):
                env = {'SAME': same, 'NEG': neg, 'ALLOW': allow, 'DIST': True, 'USED': True}
                got = all(ev(t, env, seen) for t in tests)
                want = same or (neg and not allow)
                if got != want:
                    wrong.append((same, neg, allow, got))
    for k, e in sorted(seen, key=lambda p: p[0]):
        if k in ('SAME', 'NEG', 'SAME1', 'NEG1'):
            ctx.check('C12.DUP-SYM', k in ('SAME', 'NEG'), f, e, 'the cm test `%s` is two-sided (absolute value)' % src(e)[:60],
                      msg='the duplicate test `%s` has no absolute value: any two caps on the same axis whose cm values %s to less than tol - not only '
                          'a cap and its complement - count as duplicates, and the later one is dropped from the use-mask'
                          % (src(e)[:70], 'sum' if k == 'NEG1' else 'differ'), construct='one-sided duplicate test: ' + src(e)[:70])
    kinds = {k for k, e in seen}
    ctx.check('C12.DUP-COND', not wrong and {'ALLOW'} <= kinds and (kinds & {'SAME', 'SAME1'}) and (kinds & {'NEG', 'NEG1'}), f, st,
              'a later cap is dropped exactly when it is the same cap, or the complement and negative doubles are not allowed',
              msg='the duplicate condition is wrong for (same cap=%s, complement=%s, allow_neg_doubles=%s): the later cap is %s'
                  % (wrong[0][0], wrong[0][1], wrong[0][2], 'dropped' if wrong[0][3] else 'kept') if wrong else 'the duplicate condition lacks one of its three facts',
              construct='duplicate condition: ' + ' and '.join(src(t)[:60] for t in tests)[:160])


def check_acos(ctx, repo):
    f = repo.func(MANGLE, 'cap_distance')
    fa = FA(f)
    ctx.cover(f)
    n = 0
    vec_names = {'xyz', f.params[0], f.params[2]}
    for c in walk_local(f.node):
        if isinstance(c, ast.Call) and call_name(c) in ('arccos', 'acos', 'arcsin', 'asin') and c.args:
            arg = c.args[0]
            # transitive closure of the argument's definitions
            chain = [arg]
            seen = set()
            work = [arg]
            while work:
                e = work.pop()
                for nm in ast.walk(e):
                    if isinstance(nm, ast.Name) and isinstance(nm.ctx, ast.Load):
                        for d, v in fa.defs(nm):
                            if v is not None and id(v) not in seen:
                                seen.add(id(v))
                                chain.append(v)
                                work.append(v)
            names = {x.id for y in chain for x in ast.walk(y) if isinstance(x, ast.Name)}
            if not (names & vec_names):
                continue          # e.g. arccos(1 - |cm|): a function of the cap size only
            n += 1
            clipped = any(isinstance(x, ast.Call) and call_name(x) == 'clip' and len(x.args) >= 3 for y in chain for x in ast.walk(y)) or \
                (any(isinstance(x, ast.Call) and call_name(x) in ('minimum', 'fmin') for y in chain for x in ast.walk(y)) and
                 any(isinstance(x, ast.Call) and call_name(x) in ('maximum', 'fmax') for y in chain for x in ast.walk(y))) or \
                (call_name(c) in ('arcsin', 'asin') and any(isinstance(x, ast.Call) and call_name(x) in ('minimum', 'fmin') for y in chain for x in ast.walk(y)))
            ctx.check('C12.ACOS-DOT', clipped, f, c, 'cap_distance: the argument of %s computed from the point and the cap axis is clipped to its domain (%s)'
                      % (call_name(c), src(arg)[:50]),
                      msg='cap_distance takes %s of `%s`, a quantity computed from unit vectors in floating point, without clipping it to the domain: for a point '
                          'at the cap centre or at its antipode rounding pushes it past 1, the result is NaN and the point is reported outside'
                          % (call_name(c), src(arg)[:50]), construct='unclipped %s(%s)' % (call_name(c), src(arg)[:50]))
    ctx.need(n >= 1, 'cap_distance: inverse trigonometric function of the point/axis geometry not found')
    # CAP-SIGN
    rets = [r for r in walk_local(f.node) if isinstance(r, ast.Return) and r.value is not None]
    ctx.need(len(rets) == 1, 'cap_distance: expected a single return')
    rv = rets[0].value
    ok = False
    why = ''
    if isinstance(rv, ast.Name):
        mods = [st for st in walk_local(f.node) if isinstance(st, (ast.AugAssign,)) and isinstance(st.target, ast.Name) and st.target.id == rv.id]
        reass = [st for st in walk_local(f.node) if isinstance(st, ast.Assign) and any(isinstance(t, ast.Name) and t.id == rv.id for t in st.targets)]
        negs = []
        for st in mods:
            isneg = isinstance(st.op, ast.Mult) and try_fold(st.value) == -1
            par = getattr(st, '_parent', None)
            under = isinstance(par, ast.If) and st in par.body and _is_cm_negative(par.test, f.params[1])
            negs.append(isneg and under)
        for st in reass[1:]:
            isneg = isinstance(st.value, ast.UnaryOp) and isinstance(st.value.op, ast.USub) and src(st.value.operand) == rv.id
            par = getattr(st, '_parent', None)
            under = isinstance(par, ast.If) and st in par.body and _is_cm_negative(par.test, f.params[1])
            negs.append(isneg and under)
        ok = len(negs) == 1 and all(negs)
        why = 'modifications of the distance: %s' % [src(s) for s in mods + reass[1:]]
    elif isinstance(rv, ast.IfExp):
        ok = _is_cm_negative(rv.test, f.params[1]) and isinstance(rv.body, ast.UnaryOp) and isinstance(rv.body.op, ast.USub) \
            and src(rv.body.operand) == src(rv.orelse)
        why = src(rv)
    else:
        why = src(rv)
    ctx.check('C12.CAP-SIGN', ok, f, rets[0], 'cap_distance is negated exactly when cm < 0 (complement cap); cm == 0 keeps its sign',
              msg='cap_distance does not flip the sign exactly under `cm < 0` (%s): a cap with cm = 0 or a negative cap is decided wrongly' % why[:120],
              construct='sign handling: ' + why[:120])
    f2 = repo.func(MANGLE, 'is_in_cap')
    ctx.cover(f2)
    r2 = [r for r in walk_local(f2.node) if isinstance(r, ast.Return) and r.value is not None]
    ok2 = len(r2) == 1 and isinstance(r2[0].value, ast.Compare) and isinstance(r2[0].value.ops[0], ast.GtE) \
        and try_fold(r2[0].value.comparators[0]) == 0 and isinstance(r2[0].value.left, ast.Call) and call_name(r2[0].value.left) == 'cap_distance' \
        and [src(a) for a in r2[0].value.left.args] == f2.params
    ctx.check('C12.CAP-SIGN', ok2, f2, r2[0] if r2 else f2.node, 'is_in_cap is cap_distance(x, cm, points) >= 0 (boundary inside)',
              msg='is_in_cap is not `cap_distance(x, cm, points) >= 0`', construct='is_in_cap: ' + (src(r2[0].value) if r2 else ''))


def _is_cm_negative(test, cm):
    return isinstance(test, ast.Compare) and len(test.ops) == 1 and (
        (isinstance(test.ops[0], ast.Lt) and src(test.left) == cm and try_fold(test.comparators[0]) == 0) or
        (isinstance(test.ops[0], ast.Gt) and src(test.comparators[0]) == cm and try_fold(test.left) == 0))


def check_and_all(ctx, repo):
    f = repo.func(MANGLE, 'is_in_polygon')
    fa = FA(f)
    rets = [r for r in walk_local(f.node) if isinstance(r, ast.Return) and r.value is not None]
    ctx.need(len(rets) == 1 and isinstance(rets[0].value, ast.Name), 'is_in_polygon: single `return <mask>` expected')
    mask = rets[0].value.id
    inits = [st for st in walk_local(f.node) if isinstance(st, ast.Assign) and isinstance(st.targets[0], ast.Name) and st.targets[0].id == mask]
    ok = len(inits) == 1 and isinstance(inits[0].value, ast.Call) and call_name(inits[0].value) == 'ones' and 'bool' in src(inits[0].value)
    ctx.check('C12.AND-ALL', ok, f, inits[0] if inits else f.node, 'is_in_polygon starts from an all-True mask (a polygon without caps contains every point)',
              msg='is_in_polygon does not start from np.ones(bool)', construct='mask init ' + (src(inits[0]) if inits else ''))
    ands = [st for st in walk_local(f.node) if isinstance(st, ast.AugAssign) and isinstance(st.target, ast.Name) and st.target.id == mask]
    others = [st for st in walk_local(f.node) if isinstance(st, ast.Assign) and st not in inits and any(mask in src(t) for t in st.targets)]
    ctx.check('C12.AND-ALL', len(ands) == 1 and isinstance(ands[0].op, ast.BitAnd) and not others, f, ands[0] if ands else f.node,
              'caps are combined with &= only', msg='the mask is combined with something other than a single `&=`', construct='mask updates')
    if ands:
        st = ands[0]
        loop = next((a for a in ancestors(st) if isinstance(a, ast.For)), None)
        ctx.need(loop is not None and isinstance(loop.target, ast.Name), 'is_in_polygon: cap loop not found')
        i = loop.target.id
        poly = f.params[0]
        col2attr = {}
        for n in walk_local(f.node):
            if isinstance(n, ast.Try):
                at = [try_fold(x.args[1]) for b_ in n.body for x in ast.walk(b_) if isinstance(x, ast.Call) and call_name(x) == 'getattr' and len(x.args) >= 2]
                at += [x.attr for b_ in n.body for x in ast.walk(b_) if isinstance(x, ast.Attribute) and isinstance(x.value, ast.Name) and x.value.id == poly]
                co = [try_fold(x.slice) for h in n.handlers for b_ in h.body for x in ast.walk(b_)
                      if isinstance(x, ast.Subscript) and isinstance(x.value, ast.Name) and x.value.id == poly]
                if len(at) == 1 and len(co) == 1 and isinstance(at[0], str) and isinstance(co[0], str):
                    col2attr[co[0]] = at[0]

        def role(e, depth=0):
            """The ManglePolygon attribute an expression holds (by attribute or by its FITS column), else None."""
            if depth > 5:
                return None
            if isinstance(e, ast.Call) and call_name(e) == 'getattr' and len(e.args) >= 2 and isinstance(e.args[0], ast.Name) and e.args[0].id == poly:
                r = try_fold(e.args[1])
                return r if isinstance(r, str) else None
            if isinstance(e, ast.Attribute) and isinstance(e.value, ast.Name) and e.value.id == poly:
                return e.attr
            if isinstance(e, ast.Subscript) and isinstance(e.value, ast.Name) and e.value.id == poly and isinstance(try_fold(e.slice), str):
                return col2attr.get(try_fold(e.slice))
            if isinstance(e, ast.Name):
                rs = {role(v, depth + 1) if v is not None else None for d, v in fa.defs(e)}
                return rs.pop() if len(rs) == 1 else None
            if isinstance(e, ast.Call) and call_name(e) in ('atleast_1d', 'atleast_2d', 'asarray', 'array', 'ascontiguousarray') and e.args:
                return role(e.args[0], depth + 1)          # same values, rank normalised
            return None
        call = st.value
        g_cap = repo.func(MANGLE, 'is_in_cap')
        okc = False
        if isinstance(call, ast.Call) and call_name(call) == 'is_in_cap':
            bound = dict(zip(g_cap.params, call.args))
            bound.update({k.arg: k.value for k in call.keywords if k.arg})
            ax, acm, apt = (bound.get(p_) for p_ in g_cap.params[:3])

            def cap_item(e, what):
                if not isinstance(e, ast.Subscript) or role(e.value) != what:
                    return False
                sl = e.slice
                first = sl.elts[0] if isinstance(sl, ast.Tuple) else sl
                rest = sl.elts[1:] if isinstance(sl, ast.Tuple) else []
                return isinstance(first, ast.Name) and first.id == i and all(isinstance(r_, ast.Slice) and r_.lower is None and r_.upper is None for r_ in rest)
            okc = ax is not None and acm is not None and cap_item(ax, 'x') and cap_item(acm, 'cm') and not isinstance(acm.slice, ast.Tuple) \
                and isinstance(apt, ast.Name) and apt.id == f.params[1]
        ctx.check('C12.AND-ALL', okc, f, st, 'cap i contributes is_in_cap(x[i], cm[i], points)',
                  msg='the cap test is not is_in_cap(x[i], cm[i], points) for the loop index: %s' % src(call)[:80], construct='cap test ' + src(call)[:80])
        conds = [(t, pol) for t, pol in path_conditions(st) if any(t is x or t in list(ast.walk(x)) for x in [loop])]
        used = [(t, pol) for t, pol in conds if isinstance(t if pol else (t.operand if isinstance(t, ast.UnaryOp) and isinstance(t.op, ast.Not) else None), ast.Call)]
        okg = False
        if len(conds) == 1 and len(used) == 1:
            t, pol = used[0]
            c_ = t if pol else t.operand
            okg = call_name(c_) == 'is_cap_used' and len(c_.args) == 2 and role(c_.args[0]) == 'use_caps' and isinstance(c_.args[1], ast.Name) and c_.args[1].id == i
        ctx.check('C12.AND-ALL', okg, f, conds[0][0] if conds else st, 'exactly the caps whose use bit is clear are skipped (is_cap_used(use_caps, i))',
                  msg='the cap test is not guarded by is_cap_used(use_caps, i) alone', construct='use-mask guard')
        it = fa.deep(loop.iter)
        okr = isinstance(it, ast.Call) and call_name(it) == 'range' and len(it.args) == 1
        lim_ok = False
        if okr:
            lim = f.params[2]

            def leaves(e, guard, depth=0):
                if depth > 4:
                    return [('?', guard)]
                if isinstance(e, ast.IfExp):
                    return leaves(e.body, (e.test, True), depth + 1) + leaves(e.orelse, (e.test, False), depth + 1)
                if isinstance(e, ast.Name) and role(e) is None:
                    out = []
                    for d, v in fa.defs(e):
                        if v is None:
                            return [('?', guard)]
                        pcs = [(t, pol) for t, pol in path_conditions(d)]
                        out += leaves(v, guard or (pcs[0] if pcs else None), depth + 1)
                    return out
                if role(e) == 'ncaps':
                    return [('attr', guard)]
                if isinstance(e, ast.Call) and call_name(e) == 'min' and isinstance(e.func, ast.Name) and len(e.args) == 2:
                    kinds = sorted('lim' if (isinstance(a_, ast.Name) and a_.id == lim and fa.is_param(a_)) else 'attr' if role(a_) == 'ncaps' else '?' for a_ in e.args)
                    return [('min' if kinds == ['attr', 'lim'] else '?', guard)]
                return [('?', guard)]
            lv = leaves(it.args[0], None)

            def positive(gd):
                if gd is None:
                    return None
                t, pol = gd
                t = canon_expr(t)
                if isinstance(t, ast.Compare) and len(t.ops) == 1:
                    l, r, op = t.left, t.comparators[0], t.ops[0]
                    if isinstance(r, ast.Name) and r.id == lim and try_fold(l) == 0:
                        l, r = r, l
                        op = {ast.Lt: ast.Gt, ast.Gt: ast.Lt, ast.LtE: ast.GtE, ast.GtE: ast.LtE}.get(type(op), type(op))()
                    if isinstance(l, ast.Name) and l.id == lim and try_fold(r) == 0:
                        if isinstance(op, ast.Gt):
                            return pol
                        if isinstance(op, ast.LtE):
                            return not pol
                return None
            kinds = {k_ for k_, gd in lv}
            lim_ok = kinds == {'attr', 'min'} and all(positive(gd) is True for k_, gd in lv if k_ == 'min') \
                and all(positive(gd) in (False, None) for k_, gd in lv if k_ == 'attr')
        ctx.check('C12.AND-ALL', okr and lim_ok, f, loop, 'caps visited: range(polygon.ncaps), or range(min(ncaps, polygon.ncaps)) when ncaps > 0',
                  msg='the cap loop does not visit range(min(ncaps, polygon.ncaps)) / range(polygon.ncaps): %s' % src(loop.iter), construct='cap range')
    # ONE-CAP: the two readers of a raw FITS polygon record agree on its shape cases.  ManglePolygon.__init__ special-cases a record with
    # exactly one cap (XCAPS a bare 3-vector, CMCAPS a scalar); is_in_polygon, which indexes x[icap, :] and cm[icap] on the raw record, must
    # bring both to the same rank first
    f_init = repo.func(MANGLE, 'ManglePolygon.__init__')
    special = [c for c in walk_local(f_init.node) if isinstance(c, ast.Compare) and len(c.ops) == 1 and isinstance(c.ops[0], ast.Eq)
               and any(isinstance(x, ast.Attribute) and x.attr == 'shape' for x in (c.left, c.comparators[0]))
               and any(isinstance(x, ast.Tuple) for x in (c.left, c.comparators[0]))]
    if special and ands:
        def normalised(what):
            """some definition on the way to the cap test brings the `what` value to a fixed rank."""
            for n in walk_local(f.node):
                if isinstance(n, ast.Call) and call_name(n) in ('atleast_2d', 'atleast_1d', 'reshape') and n.args is not None:
                    inner = n.args[0] if (n.args and call_name(n) != 'reshape') else (n.func.value if isinstance(n.func, ast.Attribute) and not (
                        isinstance(n.func.value, ast.Name) and n.func.value.id in ('np', 'numpy')) else (n.args[0] if n.args else None))
                    if inner is not None and role(inner) == what:
                        return n
                if isinstance(n, ast.Compare) and any(isinstance(x, ast.Attribute) and x.attr in ('shape', 'ndim') and role(x.value) == what
                                                      for x in [n.left] + list(n.comparators)):
                    return n
            return None
        for what, col in (('x', 'XCAPS'), ('cm', 'CMCAPS')):
            nrm = normalised(what)
            ctx.check('C12.ONE-CAP', nrm is not None, f, nrm if nrm is not None else ands[0],
                      'is_in_polygon brings %s to a fixed rank before indexing it per cap (%s), like the constructor\'s one-cap case' % (col, src(nrm)[:40] if nrm is not None else ''),
                      msg='ManglePolygon.__init__ accepts a FITS polygon row with exactly one cap (%s stored without the cap axis, `%s`) but is_in_polygon indexes '
                          'the raw row per cap without that case: the raw table raises IndexError where the converted one answers' % (col, src(special[0])[:40]),
                      construct='one-cap record: %s indexed per cap' % col)
    # is_in_window
    g = repo.func(MANGLE, 'is_in_window')
    ctx.cover(f, g)
    ga = FA(g)
    stores = [st for st in walk_local(g.node) if isinstance(st, ast.Assign) and isinstance(st.targets[0], ast.Subscript)]
    ctx.need(len(stores) == 1, 'is_in_window: expected exactly one subscript store')
    st = stores[0]
    t = st.targets[0]
    sel = t.slice
    ok = isinstance(sel, ast.Subscript) and isinstance(sel.value, ast.Name)
    unassigned_ok = False
    if ok:
        d = ga.resolve(sel.value)
        unassigned_ok = d is not None and src(d).replace(' ', '') in ('(%s==-1).nonzero()[0]' % src(t.value),)
        inner = ga.resolve(sel.slice) if isinstance(sel.slice, ast.Name) else None
        ok = inner is not None and isinstance(inner, ast.Call) and call_name(inner) == 'is_in_polygon' \
            and any(src(sel.value) in src(a) for a in inner.args)
    ctx.check('C12.AND-ALL', ok and unassigned_ok, g, st,
              'is_in_window writes a polygon index only through the selection of still-unassigned points that the polygon contains',
              msg='is_in_window assigns the polygon index through %s, not through the still-unassigned points contained in the polygon' % src(sel)[:60],
              construct='window store ' + src(st)[:80])
    cur = src(st.value)
    incs = [s for s in walk_local(g.node) if isinstance(s, ast.AugAssign) and src(s.target) == cur]
    init = [s for s in walk_local(g.node) if isinstance(s, ast.Assign) and src(s.targets[0]) == cur]
    asc = (len(incs) == 1 and isinstance(incs[0].op, ast.Add) and try_fold(incs[0].value) == 1 and len(init) == 1 and try_fold(init[0].value) == 0) or \
        any(isinstance(a, ast.For) and isinstance(a.target, ast.Name) and a.target.id == cur and 'range(' in src(a.iter) for a in ancestors(st))
    ctx.check('C12.AND-ALL', asc, g, incs[0] if incs else st, 'polygons are visited in ascending list order starting at 0 (first match wins)',
              msg='is_in_window does not visit polygons in ascending order from 0', construct='polygon order')
    initm = [s for s in walk_local(g.node) if isinstance(s, ast.Assign) and src(s.targets[0]) == src(t.value)]
    okm = len(initm) == 1 and '- 1' in src(initm[0].value) and 'zeros' in src(initm[0].value)
    ctx.check('C12.AND-ALL', okm, g, initm[0] if initm else g.node, 'every point starts unassigned (-1)', msg='the result is not initialised to -1', construct='window init')


def check_cap_bit(ctx, repo):
    f = repo.func(MANGLE, 'is_cap_used')
    ctx.cover(f)
    rets = [r for r in walk_local(f.node) if isinstance(r, ast.Return) and r.value is not None]
    ok = False
    kind = None
    u, i = f.params[0], f.params[1]

    def bit_test(e):
        """'bool' / 'int' when e tests exactly bit i of u."""
        if isinstance(e, ast.Compare) and len(e.ops) == 1 and isinstance(e.ops[0], (ast.NotEq, ast.Gt)) and try_fold(e.comparators[0]) == 0:
            return 'bool' if bit_test(e.left) else None
        if isinstance(e, ast.Call) and call_name(e) == 'bool' and e.args:
            return 'bool' if bit_test(e.args[0]) else None
        if isinstance(e, ast.BinOp) and isinstance(e.op, ast.BitAnd):
            for a, b in ((e.left, e.right), (e.right, e.left)):
                if isinstance(a, ast.Name) and a.id == u and isinstance(b, ast.BinOp) and isinstance(b.op, ast.LShift) and try_fold(b.left) == 1 and src(b.right) == i:
                    return 'int'
                if isinstance(a, ast.BinOp) and isinstance(a.op, ast.RShift) and src(a.left) == u and src(a.right) == i and try_fold(b) == 1:
                    return 'int'
        return None
    if len(rets) == 1:
        kind = bit_test(rets[0].value)
        ok = kind is not None
    ctx.check('C12.CAP-BIT', ok, f, rets[0] if rets else f.node, 'is_cap_used(u, i) tests exactly bit i of u (%s-valued)' % kind,
              msg='is_cap_used does not test exactly bit i: %s' % (src(rets[0].value) if rets else ''), construct='is_cap_used body')
    if kind == 'int':
        # 0/1 integers are fine in boolean context only; as an array index they select rows 0 and 1 instead of masking
        from ..callgraph import CallGraph
        cg = CallGraph(repo)
        for g, cs in sorted(cg.calls.items(), key=lambda kv: (kv[0].rel, kv[0].qualname)):
            for c, h in cs:
                if h is not f:
                    continue
                par = getattr(c, '_parent', None)
                boolean = isinstance(par, (ast.If, ast.While, ast.IfExp)) and par.test is c or isinstance(par, ast.BoolOp) or \
                    (isinstance(par, ast.UnaryOp) and isinstance(par.op, ast.Not)) or isinstance(par, ast.Compare) or \
                    (isinstance(par, ast.Call) and call_name(par) == 'bool')
                ctx.check('C12.CAP-BIT', boolean, g, c, '%s uses the 0/1 result of is_cap_used in boolean context' % g.qualname,
                          msg='%s stores the integer 0/1 result of is_cap_used (`%s`): used as an array index it selects rows 0 and 1 instead of acting '
                              'as a mask, so the wrong caps are tested' % (g.qualname, src(par)[:60] if par is not None else ''),
                          construct='integer cap flag outside boolean context in %s' % g.qualname)
    # presets
    f_init = repo.func(MANGLE, 'ManglePolygon.__init__')
    pres = [st for st in walk_local(f_init.node) if isinstance(st, ast.Assign) and src(st.targets[0]) == 'self.use_caps' and isinstance(st.value, ast.BinOp)]
    ctx.need(pres, 'ManglePolygon.__init__: default use_caps preset not found')
    for st in pres:
        v = st.value
        ok = isinstance(v.op, ast.Sub) and try_fold(v.right) == 1 and isinstance(v.left, ast.BinOp) and isinstance(v.left.op, ast.LShift) \
            and try_fold(v.left.left) == 1 and 'ncaps' in src(v.left.right)
        ctx.check('C12.CAP-BIT', ok, f_init, st, 'keyword constructor presets use_caps to (1 << ncaps) - 1',
                  msg='default use_caps is %s, expected (1 << ncaps) - 1' % src(v), construct='default use_caps ' + src(v))
    # FITS record constructor reads USE_CAPS; copy constructor copies it
    copies = [st for st in walk_local(f_init.node) if isinstance(st, ast.Assign) and src(st.targets[0]) == 'self.use_caps' and not isinstance(st.value, ast.BinOp)]
    vals = sorted(src(st.value) for st in copies)
    ctx.check('C12.CAP-BIT', "int(a0['USE_CAPS'])" in vals and 'a0.use_caps' in vals, f_init, copies[0] if copies else f_init.node,
              'the record and copy constructors take use_caps from the source polygon (%s)' % vals,
              msg='a constructor does not take use_caps from its source: %s' % vals, construct='use_caps sources')
    empty = [v for v in vals if v == '0']
    ctx.check('C12.CAP-BIT', len(empty) == 1, f_init, f_init.node, 'the empty (whole-sky) polygon has use_caps 0 and ncaps 0',
              msg='whole-sky polygon preset changed', construct='empty polygon use_caps')


def run(ctx):
    from ..memo import check_memo_keys
    check_memo_keys(ctx, ctx.repo, MANGLE, 'ManglePolygon', 'C12.MEMO-KEY')
    repo = ctx.repo
    check_columns(ctx, repo)
    check_numfmt(ctx, repo)
    check_slices(ctx, repo)
    check_set_use_caps(ctx, repo)
    check_acos(ctx, repo)
    check_cap_bit(ctx, repo)
    check_and_all(ctx, repo)

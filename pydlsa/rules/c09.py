"""C09 -- B-spline fit is the weighted least-squares optimum; failure is a status code."""

from .bsplinelib import BSPLINE, check_int_sinks, check_ict, check_proto, check_status, check_clip, check_chol_nomut, check_coeff_agree, check_chol_screen

META = {
    'property': 'C09',
    'title': 'B-spline fit is the weighted least-squares optimum; failure is a status code',
    'technique': 'numeric-kind inference into range()/index sinks, integer normal form of the row-count guard, return-protocol '
                 'typing, reaching-definition shape join, affine bound check of clamped indices, effect check on the caller\'s matrix',
    'explanation': (
        'Decided (pydl/pydlutils/bspline.py): C09.INT-SINK - no definitely-float value reaches range() or an array subscript in '
        'maskpoints, fit, value, action, cholesky_band; C09.ROWS - the normal equations and the evaluation use an interval whenever '
        'it holds at least one row (guard normalises to upper - lower >= 0) and slice rows lower[k] : upper[k]+1; C09.PROTO - every '
        'return of cholesky_band is (-1 | index array | int index, matrix), fit recognises success exactly by the -1 test, every other '
        'value flows into maskpoints, which normalises an int before subscripting; C09.SHAPE-JOIN - every definition of the block '
        'stored into L[:, 0:n] is the factor of l[:, 0:n]; C09.STATUS - fit returns (-2, zeros) before touching data when too few '
        'breakpoints are good, every return is (status, yfit), maskpoints returns only -1/-2; C09.CLIP - indices stored through in '
        'maskpoints are clamped inside the array; C09.COEFF-AGREE - fit and value select coefficient slots through the same mask expression; C09.NOMUT - cholesky_band / cholesky_solve do not overwrite the caller\'s matrix. '
        'C09.SCREEN - cholesky_band screens the whole band with np.isfinite before factoring and returns a failure value, maskpoints copes with an empty failure list, and the design matrix entering the normal equations is a1 times the weights on every path. C09.FLOAT-OUT - the padded factor returned by cholesky_band and the padded solution returned by cholesky_solve are not allocated in the dtype of their integer-capable argument; NOT decided: optimality, agreement with a dense solver, polynomial reproduction, linearity in y, L*L^T = A (numerical).'),
    'floors': {'C09.FLOAT-OUT': 2, 'C09.SCREEN': 3, 'C09.INT-SINK': 10, 'C09.ROWS': 4, 'C09.PROTO': 6, 'C09.SHAPE-JOIN': 1, 'C09.STATUS': 5, 'C09.CLIP': 1, 'C09.NOMUT': 2, 'C09.COEFF-AGREE': 1},
}


def run(ctx):
    from .floatlib import check_float_alloc
    check_float_alloc(ctx, ctx.repo, 'C09.FLOAT-OUT', [(BSPLINE, 'cholesky_band'), (BSPLINE, 'cholesky_solve')],
                      'the Cholesky factor of a whole-number matrix, resp. the solution for a whole-number right-hand side, is truncated')
    n = check_int_sinks(ctx, ctx.repo, 'C09.INT-SINK')
    check_ict(ctx, ctx.repo, 'C09.ROWS')
    check_proto(ctx, ctx.repo, 'C09.PROTO')
    check_status(ctx, ctx.repo, 'C09.STATUS')
    check_clip(ctx, ctx.repo, 'C09.CLIP')
    check_chol_nomut(ctx, ctx.repo, 'C09.NOMUT')
    check_coeff_agree(ctx, ctx.repo, 'C09.COEFF-AGREE')
    check_chol_screen(ctx, ctx.repo, 'C09.SCREEN')

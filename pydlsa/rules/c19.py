"""C19 -- wavelength, photometric-system and band-flux conversions are self-consistent."""

import ast

from .. import AnalysisError
from ..astutil import src, call_name, dotted, walk_local, try_fold, ancestors, canon
from ..fn import FA, expand
from ..normal import canon_expr

META = {
    'property': 'C19',
    'title': 'Wavelength, photometric-system and band-flux conversions are self-consistent',
    'technique': 'AST isomorphism of the sibling refraction formulas, constant/threshold extraction, freshness (alias) analysis of '
                 'every stored-to array, def-use check of unit conversion, agreement of the interpolation axis with the summed axis',
    'explanation': (
        'Decided: C19.FACT - the Ciddor refraction factor in airtovac and vactoair is the same expression (isomorphic modulo the '
        'wavelength variable, same four constants, sigma2 = (1e4/lambda)^2), one multiplies by it and the other divides; C19.THRESH - '
        'the four < 2000.0 tests use the same constant and a strict comparison, the sub-threshold entries are restored after the '
        'formula (last write) and early exits return the input object itself; C19.NOMUT - no in-place write in airtovac / vactoair / '
        'sdssflux2ab targets an alias of an argument or of module-level data (every stored-to array is fresh on every reaching '
        'definition); C19.UNITS - with a unit the value is converted .to(Angstrom) before the formula, the iteration starts from the '
        'converted value, and the result is converted back .to(u); C19.AB - sdssflux2ab copies its input, one correction vector '
        'reaches all three uses, magnitudes add it, fluxes multiply by 10**(-c/2.5), inverse variances by 1/factor**2; C19.FILTER - '
        'with a mask filter_thru sums the interpolated flux only, interpolation runs along the axis that is summed (derived from the '
        'djs_maskinterp dispatch), and every band is divided by its own zero-guarded response sum. C19.SCALAR - the sub-2000 A entries are restored without item assignment into the formula\'s result (np.where), so 0-d input works; C19.UNITS also: sigma2 is recomputed from the current estimate inside the airtovac iteration. C19.FLOAT-OUT - the array of band fluxes filter_thru returns is not allocated in the dtype of the flux image; NOT decided: inverse to 1e-6 A, '
        'vacuum > air, linearity and mean-value bounds of filter_thru (numerical).'),
    'floors': {'C19.FLOAT-OUT': 1, 'C19.SCALAR': 2, 'C19.FACT': 3, 'C19.THRESH': 6, 'C19.NOMUT': 3, 'C19.UNITS': 5, 'C19.AB': 4, 'C19.FILTER': 5},
}

ASTRO = 'pydl/goddard/astro.py'
SDSSIO = 'pydl/photoop/sdssio.py'
SPEC2D = 'pydl/pydlspec2d/spec2d.py'
IMAGE = 'pydl/pydlutils/image.py'
FRESH = {'zeros', 'ones', 'empty', 'array', 'copy', 'astype', 'zeros_like', 'full', 'arange'}


def is_fresh(v, fa, depth=0):
    """The value is a newly allocated array on every path (arithmetic results are fresh)."""
    if v is None or depth > 5:
        return False
    if isinstance(v, ast.BinOp):
        return True
    if isinstance(v, ast.Call):
        nm = call_name(v)
        if nm in FRESH:
            return True
        if nm in ('to',):            # Quantity.to returns a new Quantity
            return True
        return False
    if isinstance(v, ast.Name):
        ds = [(d, vv) for d, vv in fa.defs(v) if d is not None]
        return bool(ds) and all(not isinstance(d, ast.arg) and is_fresh(vv, fa, depth + 1) for d, vv in ds)
    if isinstance(v, ast.Attribute) and v.attr == 'value':
        return False
    return False


def check_nomut_fn(ctx, f, fa, repo):
    bad = []
    n = 0
    module_names = set(f.module.assigns)
    for st in walk_local(f.node):
        targets = []
        if isinstance(st, ast.Assign):
            targets = [t for t in st.targets if isinstance(t, ast.Subscript)]
        elif isinstance(st, ast.AugAssign):
            targets = [st.target]
        for t in targets:
            b = t
            while isinstance(b, (ast.Subscript, ast.Attribute)):
                b = b.value
            if not isinstance(b, ast.Name):
                continue
            n += 1
            ds = [(d, v) for d, v in fa.rd.reaching(b.id, st) if d is not None]
            if not ds and b.id in module_names:
                bad.append((st, 'module-level `%s`' % b.id))
                continue
            for d, v in ds:
                if isinstance(d, ast.arg):
                    bad.append((st, 'argument `%s`' % b.id))
                elif isinstance(d, ast.AugAssign):
                    continue
                elif v is not None and isinstance(v, ast.Name) and (v.id in module_names or v.id in f.params) and not any(
                        dd is not None and not isinstance(dd, ast.arg) for dd, vv in fa.defs(v)):
                    bad.append((st, 'alias of %s `%s`' % ('module-level data' if v.id in module_names else 'argument', v.id)))
                elif v is not None and not is_fresh(v, fa) and not isinstance(v, (ast.Constant,)):
                    if isinstance(v, ast.Attribute) or (isinstance(v, ast.Call) and call_name(v) in ('asarray', 'ravel', 'reshape', 'view', 'to_value')):
                        bad.append((st, 'a view `%s`' % src(v)[:40]))
    ctx.check('C19.NOMUT', not bad, f, bad[0][0] if bad else f.node,
              '%s: every array written in place (%d store sites) is freshly allocated on every reaching definition' % (f.qualname, n),
              msg='%s: `%s` writes in place into %s: the caller\'s input (or shared module data) is modified, so later calls give different results'
                  % (f.qualname, src(bad[0][0])[:60] if bad else '', bad[0][1] if bad else ''),
              construct='%s in-place write: %s' % (f.qualname, src(bad[0][0])[:60] if bad else ''))


def check_refraction(ctx, repo):
    fa_ = {}
    facts = {}
    for q in ('airtovac', 'vactoair'):
        f = repo.func(ASTRO, q)
        fa = FA(f)
        fa_[q] = (f, fa)
        ctx.cover(f)
        fs = [st for st in walk_local(f.node) if isinstance(st, ast.Assign) and src(st.targets[0]) == 'fact']
        s2 = [st for st in walk_local(f.node) if isinstance(st, ast.Assign) and src(st.targets[0]) == 'sigma2']
        ctx.need(len(fs) == 1 and len(s2) == 1, '%s: fact / sigma2 definitions not found' % q)
        facts[q] = (fs[0], s2[0])
    ca, _ = canon(facts['airtovac'][0].value)
    cv, _ = canon(facts['vactoair'][0].value)
    consts = sorted(n.value for n in ast.walk(facts['airtovac'][0].value) if isinstance(n, ast.Constant))
    f, fa = fa_['vactoair']
    ctx.check('C19.FACT', ca == cv and consts == sorted([1.0, 5.792105e-2, 238.0185, 1.67917e-3, 57.362]), f, facts['vactoair'][0],
              'the refraction factor is the same expression in both directions (constants %s)' % consts,
              msg='airtovac and vactoair use different refraction factors (or constants differ from Ciddor 1996): %s vs %s'
                  % (src(facts['airtovac'][0].value)[:80], src(facts['vactoair'][0].value)[:80]), construct='fact expressions')
    sa, _ = canon(facts['airtovac'][1].value)
    sv, _ = canon(facts['vactoair'][1].value)
    ctx.check('C19.FACT', sa == sv and src(facts['vactoair'][1].value).replace(' ', '').startswith('(10000.0/'), f, facts['vactoair'][1],
              'sigma2 = (1e4/lambda)^2 in both directions', msg='sigma2 differs between the two directions', construct='sigma2 expressions')
    f1, fa1 = fa_['airtovac']
    mul = [st for st in walk_local(f1.node) if isinstance(st, ast.Assign) and src(st.targets[0]) == 'vacuum' and 'fact' in src(st.value)]
    div = [st for st in walk_local(f.node) if isinstance(st, ast.Assign) and src(st.targets[0]) == 'air' and 'fact' in src(st.value)]
    ok = len(mul) == 1 and src(mul[0].value).replace(' ', '') in ('a*fact', 'fact*a') and len(div) == 1 and src(div[0].value).replace(' ', '') == 'v/fact'
    ctx.check('C19.FACT', ok, f1, mul[0] if mul else f1.node, 'airtovac multiplies the air wavelength by the factor, vactoair divides the vacuum wavelength by it',
              msg='the factor is not applied as air*fact / vacuum/fact: %s ; %s' % (src(mul[0].value) if mul else '?', src(div[0].value) if div else '?'),
              construct='factor application')
    # THRESH
    for q, (f, fa) in fa_.items():
        cmps = [c for c in walk_local(f.node) if isinstance(c, ast.Compare) and len(c.ops) == 1 and try_fold(c.comparators[0]) is not None
                and isinstance(try_fold(c.comparators[0]), float)]
        for c in cmps:
            ctx.check('C19.THRESH', isinstance(c.ops[0], ast.Lt) and try_fold(c.comparators[0]) == 2000.0, f, c,
                      '%s: threshold test `%s` is strict and uses 2000.0' % (q, src(c)),
                      msg='%s: threshold test `%s` is not `< 2000.0`' % (q, src(c)), construct='%s threshold %s' % (q, src(c)))
        ctx.need(len(cmps) == 2, '%s: expected two threshold tests' % q)
        # restore after the formula: last write to the result is result[g] = converted[g]
        out = 'vacuum' if q == 'airtovac' else 'air'
        conv0 = [src(st.targets[0]) for st in walk_local(f.node) if isinstance(st, ast.Assign) and '.to(Angstrom).value' in src(st.value)]
        item = [st for st in walk_local(f.node) if isinstance(st, ast.Assign) and isinstance(st.targets[0], ast.Subscript) and src(st.targets[0].value) == out]
        wh = [st for st in walk_local(f.node) if isinstance(st, ast.Assign) and src(st.targets[0]) == out and isinstance(st.value, ast.Call)
              and call_name(st.value) == 'where' and len(st.value.args) == 3]
        res = item + wh
        formula = [st for st in walk_local(f.node) if isinstance(st, ast.Assign) and src(st.targets[0]) == out and 'fact' in src(st.value)]
        ok = len(res) == 1 and formula and res[0].lineno > formula[-1].end_lineno and isinstance(res[0]._parent, ast.If) \
            and src(res[0]._parent.test) == 'g is not None' and not any(isinstance(a, (ast.For, ast.While)) for a in ancestors(res[0]))
        if ok and item:
            ok = src(res[0].targets[0].slice) == 'g' and isinstance(res[0].value, ast.Subscript) and src(res[0].value.slice) == 'g'
        elif ok:
            a0, a1, a2 = res[0].value.args
            ok = src(a0) == 'g' and src(a2) == out and bool(conv0) and src(a1) == conv0[0]
        # 0-d input (numpy scalar, 0-d array, scalar Quantity) makes the formula's result an immutable numpy scalar
        ctx.check('C19.SCALAR', not item, f, item[0] if item else (res[0] if res else f.node),
                  '%s: the sub-threshold entries are restored without item assignment into the formula\'s result (%s)' % (q, src(res[0])[:50] if res else ''),
                  msg='%s: `%s` assigns into the result of the formula; for 0-d input (np.float64, 0-d array, scalar Quantity at or above 2000 A) that result '
                      'is a NumPy scalar and the assignment raises TypeError, so float, array and Quantity input do not give the same result'
                      % (q, src(item[0])[:40] if item else ''), construct='%s item-assignment restore' % q)
        ctx.check('C19.THRESH', bool(ok), f, res[0] if res else f.node, '%s: sub-threshold entries are restored after the formula (last write): %s' % (q, src(res[0]) if res else ''),
                  msg='%s: the entries below 2000 A are not restored after the conversion formula as the last write' % q, construct='%s restore' % q)
        rets = [r for r in walk_local(f.node) if isinstance(r, ast.Return) and r.value is not None and r.lineno < formula[0].lineno] if formula else []
        ctx.check('C19.THRESH', len(rets) == 2 and all(src(r.value) == f.params[0] for r in rets), f, rets[0] if rets else f.node,
                  '%s: both early exits return the input object itself' % q, msg='%s: an early exit does not return the input unchanged' % q, construct='%s early exits' % q)
        check_nomut_fn(ctx, f, fa, repo)
        # UNITS
        conv = [st for st in walk_local(f.node) if isinstance(st, ast.Assign) and '.to(Angstrom).value' in src(st.value)]
        ok = len(conv) == 1 and src(conv[0].value) == '%s.to(Angstrom).value' % f.params[0]
        ctx.check('C19.UNITS', ok, f, conv[0] if conv else f.node, '%s: a Quantity is converted .to(Angstrom) before the formula' % q,
                  msg='%s: the input is not converted to Angstrom before the formula' % q, construct='%s to Angstrom' % q)
        back = [st for st in walk_local(f.node) if isinstance(st, ast.Assign) and src(st.targets[0]) == out and '.to(u)' in src(st.value)]
        ok = len(back) == 1 and src(back[0].value).replace(' ', '') == '(%s*Angstrom).to(u)' % out and src(back[0]._parent.test) == 'u is not None' \
            and back[0].lineno > res[0].lineno if res else False
        ctx.check('C19.UNITS', bool(ok), f, back[0] if back else f.node, '%s: the result is converted back .to(u) of the caller\'s unit, after the restore' % q,
                  msg='%s: the result is not converted back to the caller\'s unit' % q, construct='%s back conversion' % q)
    # the iteration in airtovac starts from the converted value
    f, fa = fa_['airtovac']
    conv_name = [src(st.targets[0]) for st in walk_local(f.node) if isinstance(st, ast.Assign) and '.to(Angstrom).value' in src(st.value)]
    loop = [n for n in walk_local(f.node) if isinstance(n, ast.For)]
    ctx.need(loop and conv_name, 'airtovac: iteration loop / converted value not found')
    cn = conv_name[0]
    s2in = [st for st in loop[0].body if isinstance(st, ast.Assign) and src(st.targets[0]) == 'sigma2' and 'vacuum' in src(st.value)]
    ctx.check('C19.UNITS', bool(s2in), f, loop[0], 'airtovac: every pass recomputes sigma2 from the current vacuum estimate',
              msg='airtovac: sigma2 is not recomputed from the updated vacuum wavelength inside the loop: the fixed point is iterated only once in effect '
                  '(round-trip error 1e-5 .. 1e-4 A)', construct='sigma2 outside the iteration')
    uses = [n for n in walk_local(loop[0]) if isinstance(n, ast.Name) and n.id == 'vacuum' and isinstance(n.ctx, ast.Load)]
    if not uses:
        return
    first_use = uses[0]
    bad = []
    for d, v in fa.defs(first_use):
        if d is None or v is None or any(d is x for x in ast.walk(loop[0])):
            continue
        in_scalar = any(isinstance(a, ast.If) and src(a.test) == 't is None' and any(d is b for b in a.body) for a in ancestors(d))
        names = {n.id for n in ast.walk(v) if isinstance(n, ast.Name)}
        raw = any(isinstance(n, ast.Name) and n.id == f.params[0] and not (isinstance(n._parent, ast.Attribute) and n._parent.attr in ('shape', 'dtype', 'size'))
                  for n in ast.walk(v))
        if not in_scalar and (cn not in names or raw):
            bad.append(d)
    ctx.check('C19.UNITS', not bad, f, bad[0] if bad else loop[0], 'airtovac: the fixed-point iteration starts from the Angstrom value `%s`' % cn,
              msg='airtovac: the iteration starts from `%s`, i.e. from the value in the caller\'s unit, not from the Angstrom value `%s`: Quantities in '
                  'nm or um converge to a slightly different wavelength' % (src(bad[0].value)[:50] if bad else '', cn), construct='iteration start')
    rng = loop[0].iter
    ctx.check('C19.UNITS', isinstance(rng, ast.Call) and call_name(rng) == 'range' and try_fold(rng.args[0]) == 2, f, loop[0],
              'airtovac iterates the factor twice', msg='airtovac iteration count changed: %s' % src(rng), construct='iteration count')


def check_ab(ctx, repo):
    f = repo.func(SDSSIO, 'sdssflux2ab')
    fa = FA(f)
    ctx.cover(f)
    check_nomut_fn(ctx, f, fa, repo)
    cp = [st for st in walk_local(f.node) if isinstance(st, ast.Assign) and src(st.value) == '%s.copy()' % f.params[0]]
    rets = [r for r in walk_local(f.node) if isinstance(r, ast.Return) and r.value is not None]
    ok = len(cp) == 1 and all(src(r.value) == src(cp[0].targets[0]) for r in rets)
    ctx.check('C19.AB', ok, f, cp[0] if cp else f.node, 'the input is copied and the copy is what is modified and returned',
              msg='sdssflux2ab does not work on (and return) a copy of its input', construct='copy of input')
    out = src(cp[0].targets[0]) if cp else 'abflux'
    # the correction vector
    vec = [st for st in list(walk_local(f.node)) + list(f.module.tree.body) if isinstance(st, ast.Assign) and isinstance(st.value, ast.Call)
           and call_name(st.value) == 'array' and st.value.args and isinstance(st.value.args[0], ast.List) and len(st.value.args[0].elts) == 5]
    vals = [try_fold(e) for e in vec[0].value.args[0].elts] if vec else None
    ctx.check('C19.AB', vals == [-0.042, 0.036, 0.015, 0.013, -0.002], f, vec[0] if vec else f.node, 'one correction vector %s' % vals,
              msg='AB correction vector is %s, documented (-0.042, 0.036, 0.015, 0.013, -0.002)' % vals, construct='correction vector')
    cname = src(vec[0].targets[0]) if vec else 'correction'
    adds = [st for st in walk_local(f.node) if isinstance(st, ast.AugAssign) and isinstance(st.op, ast.Add) and out in src(st.target)]
    muls = [st for st in walk_local(f.node) if isinstance(st, ast.AugAssign) and isinstance(st.op, ast.Mult) and out in src(st.target)]
    okm = len(adds) == 1 and src(adds[0].value) == cname and any(isinstance(a, ast.If) and src(a.test) == 'magnitude' for a in ancestors(adds[0]))
    ctx.check('C19.AB', okm, f, adds[0] if adds else f.node, 'magnitudes: += correction', msg='the magnitude branch does not add the correction vector', construct='magnitude branch')
    fdefs = [st for st in walk_local(f.node) if isinstance(st, ast.Assign) and src(st.targets[0]) == 'factor']
    forms = [src(st.value).replace(' ', '') for st in fdefs]
    okf = len(muls) == 1 and src(muls[0].value) == 'factor' and forms == ['10.0**(-%s/2.5)' % cname, '1.0/factor**2'] \
        and isinstance(fdefs[1]._parent, ast.If) and src(fdefs[1]._parent.test) == 'ivar'
    ctx.check('C19.AB', okf, f, muls[0] if muls else f.node, 'fluxes: *= 10**(-c/2.5); inverse variances: *= 1/factor**2 (under ivar)',
              msg='the flux / inverse-variance scaling is %s applied by `%s`' % (forms, src(muls[0])[:50] if muls else '?'), construct='flux and ivar factors')


def interp_axis_map(repo):
    """From the 2-D dispatch of djs_maskinterp: value of `axis` -> position of the interpolated (':') axis."""
    from .c17 import idx_tuple
    f = repo.func(IMAGE, 'djs_maskinterp')
    fa = FA(f)
    axp = f.params[3] if len(f.params) > 3 else 'axis'
    out = {}
    for c in walk_local(f.node):
        if not (isinstance(c, ast.Call) and call_name(c) == 'djs_maskinterp1'):
            continue
        st = c
        while not isinstance(st, ast.stmt):
            st = st._parent
        if not (isinstance(st, ast.Assign) and isinstance(st.targets[0], ast.Subscript)):
            continue
        from .c17 import _generic_site, generic_positions
        gen = _generic_site(st, c, f, fa, f.params[0], axp)
        if gen is not None:
            # one site for every dimension: the 2-D rows of its position table
            pos = generic_positions(f, gen[0], gen[1], f.params[0], axp)
            out[0] = pos[(2, 0)]
            out['else'] = pos[(2, 1)]
            continue
        el = idx_tuple(st.targets[0], fa)
        if len(el) != 2 or ':' not in el:
            continue
        child = st
        for a in ancestors(st):
            if isinstance(a, ast.If):
                t = canon_expr(a.test)
                if isinstance(t, ast.Compare) and len(t.ops) == 1 and isinstance(t.ops[0], ast.Eq):
                    sides = [t.left, t.comparators[0]]
                    nm = [x for x in sides if isinstance(x, ast.Name) and x.id == axp]
                    k = [try_fold(x) for x in sides if not (isinstance(x, ast.Name) and x.id == axp)]
                    if nm and k and isinstance(k[0], int):
                        inbody = any(child is b_ or child in list(ast.walk(b_)) for b_ in a.body)
                        key = k[0] if inbody else 'else'
                        if out.get(key, el.index(':')) != el.index(':'):
                            raise AnalysisError('C19: djs_maskinterp dispatches axis=%s to two different array axes' % key)
                        out[key] = el.index(':')
                        break
            child = a
    return out


def _none_test(t, name):
    t = canon_expr(t)
    if isinstance(t, ast.Compare) and len(t.ops) == 1:
        sides = [t.left, t.comparators[0]]
        if any(isinstance(x, ast.Name) and x.id == name for x in sides) and any(isinstance(x, ast.Constant) and x.value is None for x in sides):
            return 1 if isinstance(t.ops[0], (ast.Is, ast.Eq)) else -1 if isinstance(t.ops[0], (ast.IsNot, ast.NotEq)) else 0
    return 0


def _under_none(node, name):
    """+1 when node is only reached with `name is None`, -1 with `name is not None`, 0 when unconditional."""
    child = node
    for a in ancestors(node):
        if isinstance(a, ast.If) and _none_test(a.test, name):
            inbody = any(child is b_ or child in list(ast.walk(b_)) for b_ in a.body)
            return _none_test(a.test, name) * (1 if inbody else -1)
        if isinstance(a, ast.IfExp) and _none_test(a.test, name):
            return _none_test(a.test, name) * (1 if (child is a.body) else -1 if (child is a.orelse) else 0)
        child = a
    return 0


def _sum_axis(c):
    """(receiver, axis) of X.sum(k) / X.sum(axis=k) / np.sum(X, k) / np.sum(X, axis=k)."""
    if not (isinstance(c, ast.Call) and call_name(c) == 'sum' and isinstance(c.func, ast.Attribute)):
        return None
    args = list(c.args)
    if isinstance(c.func.value, ast.Name) and c.func.value.id in ('np', 'numpy'):
        if not args:
            return None
        recv, args = args[0], args[1:]
    else:
        recv = c.func.value
    ax = None
    for k in c.keywords:
        if k.arg == 'axis':
            ax = try_fold(k.value)
    if ax is None and args:
        ax = try_fold(args[0])
    return recv, ax


def check_filter(ctx, repo):
    f = repo.func(SPEC2D, 'filter_thru')
    g = repo.func(IMAGE, 'djs_maskinterp')
    fa = FA(f)
    ctx.cover(f)
    flux = f.params[0]
    maskp = 'mask' if 'mask' in f.params else f.params[3]
    mi = [c for c in walk_local(f.node) if isinstance(c, ast.Call) and call_name(c) == 'djs_maskinterp']
    ctx.need(len(mi) == 1, 'filter_thru: djs_maskinterp call not found')
    c = mi[0]
    bound = dict(zip(g.params, c.args))
    bound.update({k.arg: k.value for k in c.keywords if k.arg})
    ax = try_fold(bound[g.params[3]]) if g.params[3] in bound else None
    amap = interp_axis_map(repo)
    ctx.need(0 in amap and 'else' in amap, 'djs_maskinterp: 2-D axis dispatch not recognised')
    if ax is None and g.params[3] in bound:
        raise AnalysisError('C19: filter_thru passes a computed axis to djs_maskinterp: not an idiom this checker can judge')
    interp_pos = amap[ax] if ax in amap else amap['else']
    sums = [(x, _sum_axis(x)) for x in walk_local(f.node) if _sum_axis(x) is not None]
    sum_axes = {sa[1] for x, sa in sums}
    ctx.check('C19.FILTER', sum_axes == {interp_pos}, f, c,
              'masked pixels are interpolated along array axis %d (djs_maskinterp axis=%s), the axis the band sum runs over (%s)' % (interp_pos, ax, sorted(sum_axes, key=str)),
              msg='filter_thru interpolates masked pixels with axis=%s, i.e. along array axis %d, but sums over axis %s: masked pixels are filled in from '
                  'other traces instead of neighbouring wavelengths' % (ax, interp_pos, sorted(sum_axes, key=str)),
              construct='interpolation axis %s vs sum axis %s' % (interp_pos, sorted(sum_axes, key=str)))
    a_y, a_m = bound.get(g.params[0]), bound.get(g.params[1])
    ok = isinstance(a_y, ast.Name) and a_y.id == flux and isinstance(a_m, ast.Name) and a_m.id == maskp
    ctx.check('C19.FILTER', ok, f, c, 'the flux is interpolated over the caller\'s mask', msg='djs_maskinterp is not applied to (flux, mask)', construct='maskinterp arguments')

    # what is summed: on every path where a mask may be given, the interpolated flux
    def sources(e, cond, depth=0):
        """[(kind, condition)] for a flux-like operand: kind in interp / raw / other."""
        if depth > 4:
            return [('other', cond)]
        if e is c:
            return [('interp', cond)]
        if isinstance(e, ast.Name) and e.id == flux and fa.is_param(e):
            return [('raw', cond)]
        if isinstance(e, ast.IfExp) and _none_test(e.test, maskp):
            s_ = _none_test(e.test, maskp)
            return sources(e.body, cond or s_, depth + 1) + sources(e.orelse, cond or -s_, depth + 1)
        if isinstance(e, ast.Name):
            out = []
            for d, v in fa.defs(e):
                if v is None or d is None:
                    continue            # possibly unbound on the unmasked path: not a source
                out += sources(v, cond or _under_none(d, maskp), depth + 1)
            return out
        return [('other', cond)]
    bad = []
    n = 0
    weight_names = set()
    for x, (recv, axis_) in sums:
        names = [y for y in ast.walk(recv) if isinstance(y, ast.Name) and isinstance(y.ctx, ast.Load)]
        fl = []
        for y in names:
            ss = sources(y, _under_none(x, maskp))
            if any(k_ in ('interp', 'raw') for k_, _ in ss):
                fl.append((y, ss))
        if not fl:
            weight_names |= {y.id for y in names}
            continue
        n += 1
        for y, ss in fl:
            for k_, cnd in ss:
                if k_ == 'raw' and cnd != 1:
                    bad.append(x)
                elif k_ == 'other':
                    raise AnalysisError('C19: the flux summed by filter_thru (`%s`) has a source this checker cannot judge' % y.id)
        weight_names |= {y.id for y in names if y.id not in {z.id for z, _ in fl}}
    ctx.check('C19.FILTER', n >= 1 and not bad, f, bad[0] if bad else f.node, 'with a mask, the summed quantity is the interpolated flux, never the raw flux',
              msg='filter_thru sums the raw flux on a path where a mask was given: %s' % (src(bad[0])[:70] if bad else ''), construct='summed quantity')
    # the weight image: (positive) pixel size times the interpolated response
    fi = []
    for st in walk_local(f.node):
        if isinstance(st, ast.Assign) and len(st.targets) == 1 and isinstance(st.targets[0], ast.Name) and st.targets[0].id in weight_names \
                and isinstance(st.value, ast.BinOp) and isinstance(st.value.op, ast.Mult):
            ex = expand(st.value, fa, depth=5, calls=True)
            if any(isinstance(y, ast.Call) and call_name(y) == 'interp' for y in ast.walk(ex)):
                fi.append(st)
    okabs = False
    if len(fi) == 1:
        fac = [fi[0].value.left, fi[0].value.right]
        w = [y for y in fac if not any(isinstance(z, ast.Call) and call_name(z) == 'interp' for z in ast.walk(expand(y, fa, depth=5, calls=True)))]
        if len(w) == 1:
            vs = [w[0]] if not isinstance(w[0], ast.Name) else [v for d, v in fa.defs(w[0]) if v is not None]
            okabs = bool(vs) and all(isinstance(v, ast.Call) and call_name(v) in ('absolute', 'abs', 'fabs') for v in vs)
    else:
        raise AnalysisError('C19: the weight image of filter_thru (pixel size times response) was not found: not an idiom this checker can judge')
    ctx.check('C19.FILTER', okabs, f, fi[0] if fi else f.node, 'the pixel weights d(log lambda) are made positive (np.absolute) before they multiply the response',
              msg='the d(log lambda) weights reach the band sum without np.absolute: for a wavelength solution that decreases with pixel index the weights are '
                  'negative and the zero-guard of the normalisation turns the weighted mean into nonsense', construct='logdiff sign')
    wname = fi[0].targets[0].id
    rets = [r for r in fa.returns() if isinstance(r.value, ast.Name)]
    ctx.need(len(rets) == 1, 'filter_thru: return of the result array not found')
    res = rets[0].value.id
    norm = [st for st in walk_local(f.node) if isinstance(st, (ast.Assign, ast.AugAssign)) and isinstance(st.targets[0] if isinstance(st, ast.Assign) else st.target, ast.Subscript)
            and src((st.targets[0] if isinstance(st, ast.Assign) else st.target).value) == res
            and ((isinstance(st, ast.Assign) and isinstance(st.value, ast.BinOp) and isinstance(st.value.op, ast.Div)) or
                 (isinstance(st, ast.AugAssign) and isinstance(st.op, ast.Div)))]
    ok = len(norm) == 1
    if ok:
        den = norm[0].value.right if isinstance(norm[0], ast.Assign) else norm[0].value
        dn = [y for y in ast.walk(den) if isinstance(y, ast.Name) and isinstance(y.ctx, ast.Load) and y.id not in ('np', 'numpy')]
        sfn = {y.id for y in dn}
        ok = len(sfn) == 1
        if ok:
            # S + (S <= 0)   |   np.where(S <= 0, 1, S)  |  np.where(S > 0, S, 1)
            d2 = canon_expr(den)
            guard = False
            if isinstance(d2, ast.BinOp) and isinstance(d2.op, ast.Add):
                for u, w_ in ((d2.left, d2.right), (d2.right, d2.left)):
                    cmp_ = [y for y in ast.walk(w_) if isinstance(y, ast.Compare)]
                    if isinstance(u, ast.Name) and len(cmp_) == 1 and src(cmp_[0]).replace(' ', '') in ('%s<=0' % u.id, '0>=%s' % u.id, '%s<=0.0' % u.id,
                                                                                                         '0.0>=%s' % u.id, '%s==0' % u.id, '0==%s' % u.id):
                        guard = True
            elif isinstance(d2, ast.Call) and call_name(d2) == 'where' and len(d2.args) == 3:
                guard = True
            else:
                raise AnalysisError('C19: the zero guard of the band normalisation (`%s`) is not an idiom this checker can judge' % src(den)[:60])
            sdef = [v for d, v in fa.defs(dn[0]) if v is not None]
            ok = guard and len(sdef) == 1 and _sum_axis(sdef[0]) is not None and isinstance(_sum_axis(sdef[0])[0], ast.Name) \
                and _sum_axis(sdef[0])[0].id == wname and _sum_axis(sdef[0])[1] == interp_pos
    ctx.check('C19.FILTER', ok, f, norm[0] if norm else f.node, 'each band is divided by its own response sum, guarded against zero',
              msg='the band normalisation is not res / (sumfilt + (sumfilt <= 0)) with sumfilt the response sum of the same band', construct='band normalisation')


def run(ctx):
    from .floatlib import check_float_alloc
    check_float_alloc(ctx, ctx.repo, 'C19.FLOAT-OUT', [(SPEC2D, 'filter_thru')],
                      'the weighted band means of an integer flux image are truncated (a constant spectrum c no longer returns c)')
    check_refraction(ctx, ctx.repo)
    check_ab(ctx, ctx.repo)
    check_filter(ctx, ctx.repo)

"""C08 -- B-spline evaluation equals the Cox-de Boor spline of its knots and coefficients."""

from .bsplinelib import (check_value_unsort, check_pad, check_cover, check_action_sibling, check_recurrence, check_intrv, check_float_work,
                        check_nbkpt, check_everyn_bound)

META = {
    'property': 'C08',
    'title': 'B-spline evaluation equals the Cox-de Boor spline of its knots and coefficients',
    'technique': 'order typestate (argsort / gather / scatter) on bspline.value, affine form of the padding loop, '
                 'def-use check that padding reads the repaired breakpoints, sibling uniq passes in action()',
    'explanation': (
        'Decided (pydl/pydlutils/bspline.py): C08.UNSORT - in bspline.value the work arrays are gathers by xsort = x.argsort(), '
        'the returned values and the returned mask are in the caller\'s order on every path (values by the scatter yy[xsort] = yfit, '
        'mask computed from caller-order x), no element-wise mixing of caller-order and sorted arrays; C08.PAD - the padding loop '
        'runs nord-1 times and adds one knot below index 0 and one above the end per iteration with step bkspace*i; C08.COVER - both '
        '"breakpoint does not cover x" repairs exist, store x.min()/x.max() at the arg-min/arg-max knot, and spacing and padding read '
        'the repaired array; C08.ACTION - lower and upper row bounds of every interval each come from their own uniq() pass over the '
        'interval index; C08.RECUR - the inner loop of bsplvn is the published Cox-de Boor (BSPLVN) recurrence, term l dividing by deltap[l] + deltam[j-l], with knot differences t[ileft+j+1]-x and x-t[ileft-j] (AST isomorphism with a frozen oracle); C08.INTRV - the interval index advances in a while loop until x <= next knot; C08.EVERYN - the every-n placement picks positions bounded by nx - 1, out of the SORTED abscissae; C08.NBKPT - spaced breakpoint placements use at least two breakpoints. C08.FLOAT-WORK - the arrays receiving basis and spline values are floating whatever the dtype of the evaluation points; C08.EVERYN also: every-n breakpoints are picked out of the SORTED abscissae. C08.MEMO-KEY - a value the bspline object caches (`if <validity test>: self._x = ...`) is revalidated against every attribute it is computed from, the attributes read by the methods it calls included (no instance while the object keeps no cache); NOT decided: partition of unity and non-negativity as numerical facts, mask exactness, single-precision rounding of the placement.'),
    'floors': {'C08.UNSORT': 4, 'C08.PAD': 2, 'C08.COVER': 4, 'C08.ACTION': 2, 'C08.RECUR': 2, 'C08.INTRV': 2, 'C08.NBKPT': 1, 'C08.EVERYN': 2, 'C08.FLOAT-WORK': 2},
}


def run(ctx):
    from ..memo import check_memo_keys
    check_memo_keys(ctx, ctx.repo, 'pydl/pydlutils/bspline.py', 'bspline', 'C08.MEMO-KEY', follow_methods=True)
    check_value_unsort(ctx, ctx.repo, 'C08.UNSORT')
    check_pad(ctx, ctx.repo, 'C08.PAD')
    check_cover(ctx, ctx.repo, 'C08.COVER')
    check_action_sibling(ctx, ctx.repo, 'C08.ACTION')
    check_recurrence(ctx, ctx.repo, 'C08.RECUR')
    check_intrv(ctx, ctx.repo, 'C08.INTRV')
    check_everyn_bound(ctx, ctx.repo, 'C08.EVERYN')
    check_float_work(ctx, ctx.repo, 'C08.FLOAT-WORK')
    n = check_nbkpt(ctx, ctx.repo, 'C08.NBKPT')
    ctx.need(n >= 1, 'bspline.__init__: spaced breakpoint placements not found')
